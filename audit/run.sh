#!/bin/sh
set -e
cd /verif/audit
cp -n /repo/Cargo.lock Cargo.lock || true
CARGO_NET_OFFLINE=true cargo build --release --offline -q
./target/release/ats-audit --seed ${1:-1} --iters ${2:-20000} --json /verif/audit/last_report.json
