//! ats-audit: tests the ASSUMED specifications of the third-party API (shim/00_flat.rs, spec/00_math.rs of /verif)
//! against the real crates.  This is testing of the trusted base; it proves nothing.
mod a_dec;
mod a_div;
mod a_other;
mod big;
mod gen;
mod model;
mod report;
mod rng;

use report::{Assumption, Report};
use std::time::Instant;

fn usage() -> ! {
    eprintln!("usage: ats-audit [--seed N] [--iters N] [--json out.json] [--only A-ID-substring]");
    std::process::exit(2)
}

fn main() {
    let mut seed: u64 = 1;
    let mut iters: u64 = 20000;
    let mut json: Option<String> = None;
    let mut only: Option<String> = None;
    let args: Vec<String> = std::env::args().skip(1).collect();
    let mut i = 0;
    while i < args.len() {
        let val = |i: usize| args.get(i + 1).cloned().unwrap_or_else(|| usage());
        match args[i].as_str() {
            "--seed" => seed = val(i).parse().unwrap_or_else(|_| usage()),
            "--iters" => iters = val(i).parse().unwrap_or_else(|_| usage()),
            "--json" => json = Some(val(i)),
            "--only" => only = Some(val(i)),
            _ => usage(),
        }
        i += 2;
    }
    // the helper arithmetic is itself checked first (with the default panic hook, so a failure is visible)
    big::self_test();
    model::self_test();
    // expected panics (From<u128>, Uint128 arithmetic) are caught with catch_unwind; keep them quiet
    // (set ATS_AUDIT_LOUD=1 to see every panic message, e.g. when debugging an A-INTERNAL line)
    if std::env::var_os("ATS_AUDIT_LOUD").is_none() {
        std::panic::set_hook(Box::new(|_| {}));
    }

    type Check = fn(u64, u64) -> Assumption;
    let checks: Vec<Check> = vec![
        a_dec::a01, a_dec::a02, a_dec::a03, a_dec::a04, a_dec::a05, a_dec::a06, a_dec::a07, a_dec::a08, a_dec::a09, a_dec::a10,
        a_dec::a11, a_dec::a12, a_div::a13, a_div::a14, a_div::a14r, a_div::a22, a_div::a23, a_div::a24, a_other::a15, a_other::a16, a_other::a17, a_other::a18, a_dec::a19, a_dec::a20, a_dec::a21,
    ];
    let t0 = Instant::now();
    let mut rep = Report { seed, iters, items: Vec::new() };
    for c in checks {
        let r = std::panic::catch_unwind(|| c(seed, iters));
        match r {
            Ok(a) => {
                if only.as_ref().map(|o| a.id.contains(o.as_str())).unwrap_or(true) {
                    rep.items.push(a)
                }
            }
            Err(_) => {
                // a panic that escaped a check is a defect of the audit itself or an unexpected panic of a crate
                let mut a = Assumption::new("A-INTERNAL", "a check aborted with an uncaught panic");
                a.check(false, || "uncaught panic inside a check (re-run with ATS_AUDIT_LOUD=1 RUST_BACKTRACE=1)".to_string());
                rep.items.push(a);
            }
        }
    }
    rep.print();
    eprintln!("elapsed: {:.2}s", t0.elapsed().as_secs_f64());
    if let Some(p) = json {
        let txt = serde_json::to_string_pretty(&rep.to_json()).expect("json");
        if let Err(e) = std::fs::write(&p, txt + "\n") {
            eprintln!("cannot write {}: {}", p, e);
            std::process::exit(2);
        }
    }
    std::process::exit(if rep.total_mismatches() == 0 { 0 } else { 1 });
}
