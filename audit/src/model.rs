//! Executable mirror of the spec functions of /verif/spec/00_math.rs.  A Decimal d is viewed as q = d * 10^28.
//! Verus `/` and `%` on `int` with a positive divisor are floor division / non-negative remainder.
use crate::big::Big;
use rust_decimal::Decimal;

pub const LIMIT96: u128 = 1u128 << 96; // spec LIMIT96()

#[allow(non_snake_case)]
pub fn D() -> Big {
    Big::pow10(28)
}
/// the view of a real Decimal: q = mantissa * 10^(28 - scale), exact
pub fn q(d: &Decimal) -> Big {
    assert!(d.scale() <= 28);
    Big::from_i128(d.mantissa()).mul_pow10(28 - d.scale())
}
pub fn of_int(n: &Big) -> Big {
    n.mul(&D())
}
fn div_d(x: &Big) -> Big {
    x.div_floor_pow10(28).0
}
fn mod_d(x: &Big) -> Big {
    x.mod_floor_pow10(28)
}
pub fn dmul(a: &Big, b: &Big) -> Big {
    div_d(&a.mul(b))
}
pub fn pmul(p: &Big, n: &Big) -> Big {
    p.mul(n)
}
pub fn is_whole(x: &Big) -> bool {
    mod_d(x).is_zero()
}
pub fn whole(x: &Big) -> Big {
    div_d(x)
}
pub fn dsub(a: &Big, b: &Big) -> Big {
    a.sub(b)
}
/// (2x + D) / (2D) for x >= 0, symmetric for x < 0
pub fn round_half_away(x: &Big) -> Big {
    fn nn(x: &Big) -> Big {
        let t = x.mul_u64(2).add(&D());
        t.div_floor_pow10(28).0.div_floor_u64(2).0
    }
    if !x.is_neg() {
        nn(x)
    } else {
        nn(&x.neg()).neg()
    }
}
pub fn round_half_even(x: &Big) -> Big {
    fn nn(x: &Big) -> Big {
        let f = div_d(x);
        let r = mod_d(x);
        let two_r = r.mul_u64(2);
        let d = D();
        if two_r < d {
            f
        } else if two_r > d {
            f.add(&Big::from_u64(1))
        } else if f.is_even() {
            f
        } else {
            f.add(&Big::from_u64(1))
        }
    }
    if !x.is_neg() {
        nn(x)
    } else {
        nn(&x.neg()).neg()
    }
}
pub fn trunc_int(x: &Big) -> Big {
    if !x.is_neg() {
        div_d(x)
    } else {
        div_d(&x.neg()).neg()
    }
}
pub fn floor_int(x: &Big) -> Big {
    if !x.is_neg() || mod_d(&x.neg()).is_zero() {
        trunc_int(x)
    } else {
        trunc_int(x).sub(&Big::from_u64(1))
    }
}
pub fn ceil_int(x: &Big) -> Big {
    if !x.is_pos() || mod_d(x).is_zero() {
        trunc_int(x)
    } else {
        trunc_int(x).add(&Big::from_u64(1))
    }
}

/// A-DEC range: the exact value p / 10^s (s may exceed 28) is representable by rust_decimal, i.e. there is a scale
/// s' <= 28 and an integer mantissa below 2^96 with the same value.  (Strip trailing decimal zeros of p as far as the
/// scale allows: that gives the smallest scale and the smallest mantissa at once.)
pub fn representable(p: &Big, s: u32) -> bool {
    if p.is_zero() {
        return true;
    }
    let mut p = p.abs();
    let mut s = s;
    while s > 0 {
        let (qq, exact) = p.div_floor_u64(10);
        if !exact {
            break;
        }
        p = qq;
        s -= 1;
    }
    s <= 28 && p.bits() <= 96
}
/// sign bit set on a zero mantissa
pub fn is_neg_zero(d: &Decimal) -> bool {
    d.mantissa() == 0 && d.is_sign_negative()
}

/// build a Decimal from a 96-bit magnitude, sign and scale
pub fn dec(m: u128, neg: bool, scale: u32) -> Decimal {
    assert!(m < LIMIT96 && scale <= 28);
    Decimal::from_parts(m as u32, (m >> 32) as u32, (m >> 64) as u32, neg, scale)
}
/// printable form that shows mantissa and scale as well as the value
pub fn show(d: &Decimal) -> String {
    format!("{}[m={},s={}{}]", d, d.mantissa(), d.scale(), if d.is_sign_negative() && d.mantissa() == 0 { ",-0" } else { "" })
}

pub fn self_test() {
    let d = D();
    let h = Big::pow10(27).mul_u64(5);
    let one = Big::from_u64(1);
    // 0.5 -> 1, 1.5 -> 2, 2.5 -> 3 (away) ; 0.5 -> 0, 1.5 -> 2, 2.5 -> 2 (even)
    for (k, away, even) in [(0u64, 1u64, 0u64), (1, 2, 2), (2, 3, 2), (3, 4, 4)] {
        let x = d.mul_u64(k).add(&h);
        assert_eq!(round_half_away(&x), Big::from_u64(away));
        assert_eq!(round_half_away(&x.neg()), Big::from_u64(away).neg());
        assert_eq!(round_half_even(&x), Big::from_u64(even));
        assert_eq!(round_half_even(&x.neg()), Big::from_u64(even).neg());
        assert_eq!(round_half_away(&x.sub(&one)), Big::from_u64(k));
        assert_eq!(round_half_away(&x.add(&one)), Big::from_u64(k + 1));
        assert_eq!(trunc_int(&x.neg()), Big::from_u64(k).neg());
        assert_eq!(floor_int(&x.neg()), Big::from_u64(k + 1).neg());
        assert_eq!(ceil_int(&x.neg()), Big::from_u64(k).neg());
        assert_eq!(floor_int(&x), Big::from_u64(k));
        assert_eq!(ceil_int(&x), Big::from_u64(k + 1));
        assert!(!is_whole(&x));
    }
    assert!(is_whole(&d.mul_u64(7)) && is_whole(&Big::zero()) && is_whole(&d.mul_u64(7).neg()));
    assert_eq!(whole(&d.mul_u64(7).add(&h)), Big::from_u64(7));
    assert_eq!(dmul(&d.mul_u64(3), &h), d.add(&h)); // 3 * 0.5 = 1.5
    assert_eq!(q(&dec(15, false, 1)), d.add(&h));
    assert_eq!(q(&dec(15, true, 1)), d.add(&h).neg());
    assert!(representable(&Big::pow10(56), 56) && representable(&Big::zero(), 40) && representable(&Big::from_u128(LIMIT96 - 1), 28));
    assert!(!representable(&Big::from_u128(LIMIT96), 28) && representable(&Big::from_u128(LIMIT96), 0) == false);
    assert!(!representable(&Big::from_u64(1), 29) && representable(&Big::from_u64(10), 29) && !representable(&Big::from_u128(LIMIT96 + 1), 1));
    assert!(representable(&Big::from_u128(LIMIT96 - 6).mul_u64(10), 1)); // (2^96-6)*10 / 10
}
