//! result bookkeeping: one `Assumption` per audited clause
use serde_json::{json, Value};

pub struct Info {
    pub label: String,
    pub count: u64,
    /// smallest witness (by key)
    pub smallest: Option<(u128, String)>,
}
impl Info {
    pub fn new(label: &str) -> Info {
        Info { label: label.to_string(), count: 0, smallest: None }
    }
    pub fn hit<F: FnOnce() -> String>(&mut self, key: u128, desc: F) {
        self.count += 1;
        let better = match &self.smallest {
            None => true,
            Some((k, _)) => key < *k,
        };
        if better {
            self.smallest = Some((key, desc()));
        }
    }
    pub fn line(&self) -> String {
        match &self.smallest {
            Some((_, d)) => format!("{}: {} (smallest: {})", self.label, self.count, d),
            None => format!("{}: {}", self.label, self.count),
        }
    }
}

pub struct Assumption {
    pub id: String,
    pub name: String,
    pub cases: u64,
    pub mismatches: u64,
    /// (key, description), the MAX_EX smallest by key
    pub examples: Vec<(u128, String)>,
    pub info: Vec<String>,
}
const MAX_EX: usize = 6;

impl Assumption {
    pub fn new(id: &str, name: &str) -> Assumption {
        Assumption { id: id.to_string(), name: name.to_string(), cases: 0, mismatches: 0, examples: Vec::new(), info: Vec::new() }
    }
    /// one evaluated clause instance; `key` orders counterexamples (smaller = reported first)
    pub fn check_k<F: FnOnce() -> String>(&mut self, ok: bool, key: u128, desc: F) {
        self.cases += 1;
        if !ok {
            self.mismatches += 1;
            if self.examples.len() < MAX_EX || key < self.examples.last().unwrap().0 {
                let d = desc();
                let pos = self.examples.iter().position(|(k, _)| key < *k).unwrap_or(self.examples.len());
                self.examples.insert(pos, (key, d));
                self.examples.truncate(MAX_EX);
            }
        }
    }
    /// counterexamples ordered by discovery (enumerated edge cases come first)
    pub fn check<F: FnOnce() -> String>(&mut self, ok: bool, desc: F) {
        let key = self.cases as u128;
        self.check_k(ok, key, desc)
    }
    pub fn note(&mut self, s: String) {
        self.info.push(s);
    }
    pub fn note_info(&mut self, i: &Info) {
        self.info.push(i.line());
    }
}

pub struct Report {
    pub seed: u64,
    pub iters: u64,
    pub items: Vec<Assumption>,
}
impl Report {
    pub fn total_cases(&self) -> u64 {
        self.items.iter().map(|a| a.cases).sum()
    }
    pub fn total_mismatches(&self) -> u64 {
        self.items.iter().map(|a| a.mismatches).sum()
    }
    pub fn print(&self) {
        for a in &self.items {
            println!("{} {}: cases={} mismatches={}", a.id, a.name, a.cases, a.mismatches);
            for (_, e) in &a.examples {
                println!("    MISMATCH {}", e);
            }
            for i in &a.info {
                println!("    info: {}", i);
            }
        }
        println!("total_cases={} total_mismatches={} seed={} iters={}", self.total_cases(), self.total_mismatches(), self.seed, self.iters);
        println!("{}", if self.total_mismatches() == 0 { "AUDIT OK" } else { "AUDIT MISMATCH" });
    }
    pub fn to_json(&self) -> Value {
        let items: Vec<Value> = self
            .items
            .iter()
            .map(|a| {
                json!({
                    "id": a.id, "name": a.name, "cases": a.cases, "mismatches": a.mismatches,
                    "examples": a.examples.iter().map(|(_, e)| e.clone()).collect::<Vec<_>>(),
                    "info": a.info,
                })
            })
            .collect();
        json!({
            "seed": self.seed, "iters": self.iters,
            "assumptions": items,
            "total_cases": self.total_cases(),
            "total_mismatches": self.total_mismatches(),
        })
    }
}
