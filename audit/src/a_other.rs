//! A-UINT (15), A-SEMVER (16), A-UUID (17), A-STD (18)
use crate::report::{Assumption, Info};
use crate::rng::Rng;
use cosmwasm_std::Uint128;
use semver::{Version, VersionReq};
use std::collections::HashMap;
use std::panic::catch_unwind;
use uuid::Uuid;

// ------------------------------------------------------------------------------------------------ 15
pub fn a15(seed: u64, iters: u64) -> Assumption {
    let mut a = Assumption::new("A-UINT-15", "Uint128: -/+/-= panic iff under/overflow; checked_sub/checked_add Err exactly then; new/u128/to_string/is_zero");
    let mut rng = Rng::new(seed, 15);
    let edges: Vec<u128> = vec![0, 1, 2, 9, 10, u64::MAX as u128, (u64::MAX as u128) + 1, (1u128 << 96) - 1, 1u128 << 96, 1u128 << 127, (1u128 << 127) - 1, u128::MAX - 1, u128::MAX];
    let mut pairs: Vec<(u128, u128)> = Vec::new();
    for &x in &edges {
        for &y in &edges {
            pairs.push((x, y));
        }
    }
    for i in 0..iters {
        let x = rng.log_uniform(128);
        let y = match i % 4 {
            0 => x,
            1 => x.wrapping_add(1),
            2 => u128::MAX - x,
            _ => rng.log_uniform(128),
        };
        pairs.push((x, y));
        if i % 4 == 2 {
            pairs.push((x, (u128::MAX - x).wrapping_add(1)));
        }
    }
    let mut sub_panics = 0u64;
    let mut add_panics = 0u64;
    for (x, y) in pairs {
        let (ux, uy) = (Uint128::new(x), Uint128::new(y));
        a.check(ux.u128() == x && u128::from(ux) == x && Uint128::from(x) == ux, || format!("Uint128::new({}).u128() = {}", x, ux.u128()));
        a.check(ux.to_string() == x.to_string(), || format!("Uint128({}).to_string() = {:?}", x, ux.to_string()));
        a.check(ux.is_zero() == (x == 0), || format!("Uint128({}).is_zero() = {}", x, ux.is_zero()));
        a.check((ux == uy) == (x == y) && (ux < uy) == (x < y) && (ux > uy) == (x > y) && ux.gt(&uy) == (x > y), || format!("Uint128 comparison of {} and {}", x, y));
        // a - b
        let s = catch_unwind(|| ux - uy);
        match x.checked_sub(y) {
            Some(w) => a.check(matches!(s, Ok(r) if r.u128() == w), || format!("{} - {} = {:?}, expected {}", x, y, s.as_ref().map_err(|_| "panic"), w)),
            None => {
                a.check(s.is_err(), || format!("{} - {} did not panic: {:?}", x, y, s.as_ref().ok()));
                sub_panics += s.is_err() as u64;
            }
        }
        // a -= b
        let s2 = catch_unwind(|| {
            let mut t = ux;
            t -= uy;
            t
        });
        a.check(
            match x.checked_sub(y) {
                Some(w) => matches!(s2, Ok(r) if r.u128() == w),
                None => s2.is_err(),
            },
            || format!("{} -= {} -> {:?}", x, y, s2.as_ref().map_err(|_| "panic")),
        );
        // a + b
        let p = catch_unwind(|| ux + uy);
        match x.checked_add(y) {
            Some(w) => a.check(matches!(p, Ok(r) if r.u128() == w), || format!("{} + {} = {:?}, expected {}", x, y, p.as_ref().map_err(|_| "panic"), w)),
            None => {
                a.check(p.is_err(), || format!("{} + {} did not panic: {:?}", x, y, p.as_ref().ok()));
                add_panics += p.is_err() as u64;
            }
        }
        // checked_*
        let cs = ux.checked_sub(uy);
        a.check(
            match x.checked_sub(y) {
                Some(w) => matches!(&cs, Ok(r) if r.u128() == w),
                None => cs.is_err(),
            },
            || format!("Uint128({}).checked_sub({}) = {:?}", x, y, cs),
        );
        let ca = ux.checked_add(uy);
        a.check(
            match x.checked_add(y) {
                Some(w) => matches!(&ca, Ok(r) if r.u128() == w),
                None => ca.is_err(),
            },
            || format!("Uint128({}).checked_add({}) = {:?}", x, y, ca),
        );
    }
    a.check(Uint128::zero().is_zero() && Uint128::zero().u128() == 0, || "Uint128::zero()".to_string());
    a.note(format!("observed panics: sub {} add {}", sub_panics, add_panics));
    a
}

// ------------------------------------------------------------------------------------------------ 16
fn ver_ge(v: (u64, u64, u64), b: (u64, u64, u64)) -> bool {
    // spec ver_ge
    v.0 > b.0 || (v.0 == b.0 && (v.1 > b.1 || (v.1 == b.1 && v.2 >= b.2)))
}
pub fn a16(_seed: u64, _iters: u64) -> Assumption {
    let mut a = Assumption::new("A-SEMVER-16", "VersionReq::matches == !pre && ver_ge bounds for the four requirement strings; malformed versions are Err");
    let reqs = [">=0.16.2", ">=0.15.0", "<0.16.2", ">=0.16.2, <0.19.1"];
    let model = |r: &str, v: (u64, u64, u64), pre: bool| -> bool {
        !pre
            && match r {
                ">=0.16.2" => ver_ge(v, (0, 16, 2)),
                ">=0.15.0" => ver_ge(v, (0, 15, 0)),
                "<0.16.2" => !ver_ge(v, (0, 16, 2)),
                ">=0.16.2, <0.19.1" => ver_ge(v, (0, 16, 2)) && !ver_ge(v, (0, 19, 1)),
                _ => unreachable!(),
            }
    };
    let parsed: Vec<VersionReq> = reqs
        .iter()
        .map(|r| {
            let p = VersionReq::parse(r);
            a.check(p.is_ok(), || format!("VersionReq::parse({:?}) is Err (axiom_semver_reqs_parse)", r));
            p.unwrap_or(VersionReq::STAR)
        })
        .collect();
    let suffixes: [(&str, bool); 12] = [
        ("", false), ("-rc.1", true), ("-beta", true), ("-alpha.0", true), ("-0", true), ("-rc.1+build.5", true),
        ("+build", false), ("+build.7.abc", false), ("+0", false), ("-x-y", true), ("-pre+meta", true), ("+a-b", false),
    ];
    let mut pre_match = Info::new("pre-release versions that match one of the requirements");
    let mut build_examples: Vec<String> = Vec::new();
    let mut pre_examples: Vec<String> = Vec::new();
    for major in 0..=2u64 {
        for minor in [0u64, 1, 2, 14, 15, 16, 17, 18, 19, 20, 21, 100] {
            for patch in [0u64, 1, 2, 3, 9, 10] {
                for (suf, pre) in suffixes {
                    let s = format!("{}.{}.{}{}", major, minor, patch, suf);
                    let v = match Version::parse(&s) {
                        Ok(v) => v,
                        Err(e) => {
                            a.check(false, || format!("Version::parse({:?}) = Err({})", s, e));
                            continue;
                        }
                    };
                    // the shim's view of a Version: fields and `pre` non-empty
                    a.check((v.major, v.minor, v.patch) == (major, minor, patch) && !v.pre.is_empty() == pre, || {
                        format!("Version::parse({:?}) fields = ({},{},{}) pre={:?} build={:?}", s, v.major, v.minor, v.patch, v.pre.as_str(), v.build.as_str())
                    });
                    a.check(v.build.is_empty() == !suf.contains('+'), || format!("Version::parse({:?}).build = {:?}", s, v.build.as_str()));
                    for (r, req) in reqs.iter().zip(&parsed) {
                        let got = req.matches(&v);
                        let want = model(r, (v.major, v.minor, v.patch), !v.pre.is_empty());
                        a.check(got == want, || format!("VersionReq({:?}).matches({:?}) = {} but the model says {}", r, s, got, want));
                        if pre && got {
                            pre_match.hit(0, || format!("{} matches {}", s, r));
                        }
                        if (minor, patch) == (17, 0) && major == 0 && *r == ">=0.16.2" {
                            if suf == "+build" {
                                build_examples.push(format!("{:?} {} -> {}", s, r, got));
                            }
                            if suf == "-rc.1" {
                                pre_examples.push(format!("{:?} {} -> {}", s, r, got));
                            }
                        }
                    }
                    // Version::new agrees with the parsed plain version
                    if suf.is_empty() {
                        a.check(Version::new(major, minor, patch) == v, || format!("Version::new({},{},{}) != parse({:?})", major, minor, patch, s));
                    }
                }
            }
        }
    }
    for s in ["0.16.2-rc.1", "1.0.0-beta", "0.17.0+build", "0.19.1-rc.1", "0.16.2-0", "0.19.0+x", "0.15.0-alpha", "18446744073709551615.0.0"] {
        match Version::parse(s) {
            Ok(v) => {
                for (r, req) in reqs.iter().zip(&parsed) {
                    let got = req.matches(&v);
                    let want = model(r, (v.major, v.minor, v.patch), !v.pre.is_empty());
                    a.check(got == want, || format!("VersionReq({:?}).matches({:?}) = {} but the model says {}", r, s, got, want));
                }
            }
            Err(e) => a.check(false, || format!("Version::parse({:?}) = Err({})", s, e)),
        }
    }
    let malformed = ["1.0", "", "v1.0.0", "1.0.0.0", "1", "1.0.", ".1.0", "1..0", " 1.0.0", "1.0.0 ", "01.0.0", "1.01.0", "1.0.00", "1.0.0-", "1.0.0+", "1.0.0-01", "a.b.c", "1.0.x", "*", "=1.0.0", ">=0.16.2", "-1.0.0", "1.0.0-rc..1", "18446744073709551616.0.0", "0.16.2\n"];
    for s in malformed {
        let r = Version::parse(s);
        a.check(r.is_err(), || format!("Version::parse({:?}) = Ok({}) but a malformed string was expected to be rejected", s, r.as_ref().unwrap()));
    }
    a.note(format!("build metadata: {} ; pre-release: {}", build_examples.join(", "), pre_examples.join(", ")));
    a.note_info(&pre_match);
    a
}

// ------------------------------------------------------------------------------------------------ 17
pub fn a17(seed: u64, iters: u64) -> Assumption {
    let mut a = Assumption::new("A-UUID-17", "Uuid: parse(hyphenated(u)) == u; simple form parses to u; hyphenated is lower-case canonical; \"\" is Err");
    let mut rng = Rng::new(seed, 17);
    let mut us: Vec<u128> = vec![0, 1, u128::MAX, u128::MAX - 1, 1 << 127, 0x0123456789abcdef0123456789abcdef, 0xABCDEFABCDEFABCDEFABCDEFABCDEFAB, 0xc0ffee00_0000_4000_8000_000000000000];
    for _ in 0..iters {
        us.push(match rng.below(4) {
            0 => rng.log_uniform(128),
            _ => rng.next_u128(),
        });
    }
    let mut upper_diff = 0u64;
    for u in us {
        let id = Uuid::from_u128(u);
        let h = id.hyphenated().to_string();
        let canonical_shape = h.len() == 36
            && h.char_indices().all(|(i, c)| if [8, 13, 18, 23].contains(&i) { c == '-' } else { c.is_ascii_digit() || ('a'..='f').contains(&c) });
        a.check(canonical_shape && h == format!("{:08x}-{:04x}-{:04x}-{:04x}-{:012x}", (u >> 96) as u32, (u >> 80) as u16, (u >> 64) as u16, (u >> 48) as u16, u & 0xffff_ffff_ffff), || {
            format!("hyphenated({:#034x}) = {:?} is not the lower-case canonical form", u, h)
        });
        a.check(h == id.to_string(), || format!("to_string() {:?} != hyphenated {:?}", id.to_string(), h));
        let p = Uuid::parse_str(&h);
        a.check(p == Ok(id) && p.as_ref().map(|x| x.as_u128()) == Ok(u), || format!("parse_str({:?}) = {:?}", h, p));
        let simple = id.simple().to_string();
        let ps = Uuid::parse_str(&simple);
        a.check(simple.len() == 32 && ps == Ok(id), || format!("parse_str(simple {:?}) = {:?}", simple, ps));
        // the re-hyphenated string of a parsed id is the canonical one (canonical_id(s) <=> s == hyph(parse(s)))
        a.check(p.map(|x| x.hyphenated().to_string() == h).unwrap_or(false), || format!("re-hyphenating parse({:?}) changes the string", h));
        let up = h.to_uppercase();
        let pu = Uuid::parse_str(&up);
        a.check(pu == Ok(id), || format!("parse_str(upper {:?}) = {:?}", up, pu));
        if up != h {
            upper_diff += 1;
            a.check(pu.map(|x| x.hyphenated().to_string() != up).unwrap_or(false), || format!("upper-case {:?} equals its re-hyphenated form", up));
        }
    }
    for s in ["", " ", "-", "0", "g", "00000000-0000-0000-0000-00000000000", "00000000-0000-0000-0000-0000000000000", "0000000-00000-0000-0000-000000000000", "00000000-0000-0000-0000-00000000000g", "00000000_0000_0000_0000_000000000000", " 00000000-0000-0000-0000-000000000000", "00000000-0000-0000-0000-000000000000 "] {
        let r = Uuid::parse_str(s);
        a.check(r.is_err(), || format!("parse_str({:?}) = {:?} but Err was expected", s, r));
    }
    let mut other = Vec::new();
    for s in ["{00000000-0000-0000-0000-000000000001}", "urn:uuid:00000000-0000-0000-0000-000000000001", "00000000000000000000000000000001", "0000000-0000-0000-0000-0000000000001", "00000000-00000000-0000-0000-00000001"] {
        other.push(format!("{:?}=>{}", s, match Uuid::parse_str(s) { Ok(u) => format!("Ok({})", u), Err(_) => "Err".to_string() }));
    }
    a.note(format!("ids whose upper-case spelling differs from the canonical one: {}", upper_diff));
    a.note(format!("other accepted spellings (non-canonical; nothing assumed): {}", other.join(" ")));
    a
}

// ------------------------------------------------------------------------------------------------ 18
pub fn a18(seed: u64, iters: u64) -> Assumption {
    let mut a = Assumption::new("A-STD-18", "10u128.pow(k) == 10^k (k<=18 claimed, k<=38 no overflow); u128::to_string injective");
    let mut p: u128 = 1;
    for k in 0..=38u32 {
        let r = catch_unwind(|| 10u128.pow(k));
        let c = 10u128.checked_pow(k);
        a.check(r.as_ref().ok() == Some(&p) && c == Some(p), || format!("10u128.pow({}) = {:?}, expected {}", k, r.as_ref().map_err(|_| "panic"), p));
        if k <= 18 {
            // axiom_pow10: 1 <= pow10(k) <= 10^18, pow10(0) == 1, pow10(k) == 10*pow10(k-1)
            a.check(p >= 1 && p <= 1_000_000_000_000_000_000 && (k > 0 || p == 1), || format!("pow10({}) bound", k));
        }
        a.check(p.to_string() == format!("1{}", "0".repeat(k as usize)), || format!("10^{} prints as {}", k, p));
        if k < 38 {
            p *= 10;
        }
    }
    a.check(10u128.checked_pow(39).is_none(), || "10^39 fits u128?".to_string());
    let mut rng = Rng::new(seed, 18);
    let mut seen: HashMap<String, u128> = HashMap::new();
    let mut sample: Vec<u128> = (0..2000u128).collect();
    for k in 0..=38u32 {
        let p = 10u128.pow(k);
        sample.extend([p - 1, p, p + 1]);
    }
    sample.extend([u128::MAX, u128::MAX - 1, u64::MAX as u128, u64::MAX as u128 + 1]);
    for _ in 0..iters {
        sample.push(rng.log_uniform(128));
    }
    for n in sample {
        let s = n.to_string();
        // axiom_u128_str: u128_of_str(u128_str(n)) == n, i.e. the string determines the number
        a.check(s.parse::<u128>() == Ok(n) && !s.is_empty() && (s == "0" || !s.starts_with('0')) && s.chars().all(|c| c.is_ascii_digit()), || format!("{}.to_string() = {:?}", n, s));
        match seen.get(&s) {
            Some(&m) if m != n => a.check(false, || format!("{} and {} have the same string {:?}", m, n, s)),
            _ => a.check(true, String::new),
        }
        seen.insert(s, n);
    }
    a
}
