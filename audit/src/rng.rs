//! xorshift64* PRNG (seeded through splitmix64 so that small seeds are fine)
pub struct Rng(u64);

impl Rng {
    pub fn new(seed: u64, stream: u64) -> Rng {
        let mut z = seed
            .wrapping_mul(0x9E37_79B9_7F4A_7C15)
            .wrapping_add(stream.wrapping_mul(0xD1B5_4A32_D192_ED03))
            .wrapping_add(0x2545_F491_4F6C_DD1D);
        z = (z ^ (z >> 30)).wrapping_mul(0xBF58_476D_1CE4_E5B9);
        z = (z ^ (z >> 27)).wrapping_mul(0x94D0_49BB_1331_11EB);
        z ^= z >> 31;
        Rng(if z == 0 { 0x1234_5678_9ABC_DEF1 } else { z })
    }
    pub fn next_u64(&mut self) -> u64 {
        let mut x = self.0;
        x ^= x >> 12;
        x ^= x << 25;
        x ^= x >> 27;
        self.0 = x;
        x.wrapping_mul(0x2545_F491_4F6C_DD1D)
    }
    pub fn next_u128(&mut self) -> u128 {
        ((self.next_u64() as u128) << 64) | self.next_u64() as u128
    }
    /// uniform in [0, n) (n > 0); the modulo bias is irrelevant for test generation
    pub fn below(&mut self, n: u64) -> u64 {
        self.next_u64() % n
    }
    /// uniform in [0, n]
    pub fn below128_incl(&mut self, n: u128) -> u128 {
        if n == u128::MAX {
            self.next_u128()
        } else {
            self.next_u128() % (n + 1)
        }
    }
    pub fn range(&mut self, lo: u64, hi_incl: u64) -> u64 {
        lo + self.below(hi_incl - lo + 1)
    }
    pub fn coin(&mut self) -> bool {
        self.next_u64() & 1 == 1
    }
    pub fn one_in(&mut self, n: u64) -> bool {
        self.below(n) == 0
    }
    /// a number of at most `maxbits` bits whose bit length is uniform in 0..=maxbits ("log-uniform")
    pub fn log_uniform(&mut self, maxbits: u32) -> u128 {
        let b = self.below(maxbits as u64 + 1) as u32;
        if b == 0 {
            0
        } else if b == 128 {
            self.next_u128() | (1u128 << 127)
        } else {
            (self.next_u128() & ((1u128 << b) - 1)) | (1u128 << (b - 1))
        }
    }
    pub fn pick<'a, T>(&mut self, xs: &'a [T]) -> &'a T {
        &xs[self.below(xs.len() as u64) as usize]
    }
}
