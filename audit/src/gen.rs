//! input generators shared by the checks
use crate::model::{dec, LIMIT96};
use crate::rng::Rng;
use rust_decimal::Decimal;

pub const M96_MAX: u128 = LIMIT96 - 1;

pub fn pow10_u128(k: u32) -> u128 {
    10u128.pow(k)
}

/// edge-case 96-bit mantissas
pub fn edge_mantissas() -> Vec<u128> {
    let mut v: Vec<u128> = vec![0, 1, 2, 3, 4, 5, 6, 9, 10, 11, 15, 25, 49, 50, 51, 99, 100, 101];
    for b in [31u32, 32, 33, 63, 64, 65, 95] {
        v.push((1u128 << b) - 1);
        v.push(1u128 << b);
        v.push((1u128 << b) + 1);
    }
    v.push(M96_MAX);
    v.push(M96_MAX - 1);
    for k in 1..=28u32 {
        let p = pow10_u128(k);
        v.push(p - 1);
        v.push(p);
        v.push(p + 1);
        v.push(p / 2); // 5 * 10^(k-1)
        if 5 * p <= M96_MAX {
            v.push(5 * p);
        }
    }
    v.sort();
    v.dedup();
    v.retain(|m| *m <= M96_MAX);
    v
}

pub struct Gen {
    pub edges: Vec<u128>,
}
impl Gen {
    pub fn new() -> Gen {
        Gen { edges: edge_mantissas() }
    }
    /// a 96-bit magnitude: small numbers, edge values, and log-uniform bit lengths
    pub fn m96(&self, rng: &mut Rng) -> u128 {
        match rng.below(8) {
            0 => rng.below(21) as u128,
            1 => *rng.pick(&self.edges),
            _ => rng.log_uniform(96),
        }
    }
    pub fn scale(&self, rng: &mut Rng, max_scale: u32) -> u32 {
        match rng.below(6) {
            0 => 0,
            1 => max_scale,
            _ => rng.below(max_scale as u64 + 1) as u32,
        }
    }
    pub fn decimal(&self, rng: &mut Rng, max_scale: u32, signed: bool) -> Decimal {
        let m = self.m96(rng);
        let s = self.scale(rng, max_scale);
        let neg = signed && rng.one_in(3);
        dec(m, neg, s)
    }
    /// a non-negative value that is an integer stored with a non-zero scale (e.g. 5.000)
    pub fn whole_with_scale(&self, rng: &mut Rng, signed: bool) -> Decimal {
        let s = rng.range(0, 28) as u32;
        let maxn = M96_MAX / pow10_u128(s);
        let bits = 128 - maxn.leading_zeros();
        let mut n = rng.log_uniform(bits);
        if n > maxn {
            n = maxn;
        }
        dec(n * pow10_u128(s), signed && rng.one_in(3), s)
    }
    /// x.5 ties (delta = 0) and their neighbours one unit in the last place away (delta = -1 / +1)
    pub fn near_tie(&self, rng: &mut Rng, signed: bool) -> Decimal {
        let s = rng.range(1, 28) as u32;
        let half = 5 * pow10_u128(s - 1);
        let maxn = (M96_MAX - half - 1) / pow10_u128(s);
        let bits = 128 - maxn.leading_zeros();
        let mut n = match rng.below(4) {
            0 => rng.below(6) as u128,
            _ => rng.log_uniform(bits),
        };
        if n > maxn {
            n = maxn;
        }
        match rng.below(4) {
            0 => n &= !1u128,                                   // even integer part
            1 => n = if (n | 1) > maxn { n.saturating_sub(1) | 1 } else { n | 1 }, // odd integer part
            _ => {}
        }
        let m = n * pow10_u128(s) + half;
        let m = match rng.below(4) {
            0 => m - 1,
            1 => m + 1,
            _ => m,
        };
        dec(m, signed && rng.coin(), s)
    }
    /// the mix used by the unary-function checks
    pub fn mixed(&self, rng: &mut Rng, signed: bool) -> Decimal {
        match rng.below(4) {
            0 => self.near_tie(rng, signed),
            1 => self.whole_with_scale(rng, signed),
            _ => self.decimal(rng, 28, signed),
        }
    }
    /// u64-range operand: edges and log-uniform
    pub fn n64(&self, rng: &mut Rng) -> u64 {
        match rng.below(8) {
            0 => rng.below(21),
            1 => *rng.pick(&[0u64, 1, 2, 9, 10, 99, 100, 1000, 1_000_000, 1_000_000_000, 1_000_000_000_000, u32::MAX as u64, 1 << 32, (1 << 63) - 1, 1 << 63, u64::MAX - 1, u64::MAX, 10_000_000_000_000_000_000]),
            _ => rng.log_uniform(64) as u64,
        }
    }
}

/// enumerated unary edge cases: every edge mantissa at a set of scales, both signs
pub fn edge_decimals(signed: bool) -> Vec<Decimal> {
    let mut v = Vec::new();
    for &m in &edge_mantissas() {
        for s in [0u32, 1, 2, 9, 14, 18, 19, 27, 28] {
            v.push(dec(m, false, s));
            if signed {
                v.push(dec(m, true, s));
            }
        }
    }
    // explicit half-way values with even and odd integer parts at every scale 1..=28
    for s in 1..=28u32 {
        let half = 5 * pow10_u128(s - 1);
        for n in [0u128, 1, 2, 3, 4, 5, 10, 11, 98, 99, 100, 101] {
            let m = n * pow10_u128(s) + half;
            if m + 1 <= M96_MAX {
                for mm in [m - 1, m, m + 1] {
                    v.push(dec(mm, false, s));
                    if signed {
                        v.push(dec(mm, true, s));
                    }
                }
            }
        }
    }
    v
}
