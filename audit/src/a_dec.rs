//! A-DEC: rust_decimal clauses 1..12 (plus the range axiom and a few further modelled functions)
use crate::big::Big;
use crate::gen::{edge_decimals, pow10_u128, Gen, M96_MAX};
use crate::model::*;
use crate::report::{Assumption, Info};
use crate::rng::Rng;
use rust_decimal::prelude::{FromPrimitive, FromStr, ToPrimitive, Zero};
use rust_decimal::{Decimal, RoundingStrategy};
use std::cmp::Ordering;
use std::panic::catch_unwind;

fn big_from_digits(s: &str) -> Big {
    let mut acc = Big::zero();
    for c in s.chars() {
        acc = acc.mul_u64(10).add(&Big::from_u64(c.to_digit(10).unwrap() as u64));
    }
    acc
}
/// mathematical value * 10^28 of a plain decimal literal ([+-]digits[.digits]); None when it is not such a literal or
/// needs more than 28 fractional digits
pub fn str_to_q(s: &str) -> Option<Big> {
    let (neg, rest) = match s.as_bytes().first()? {
        b'-' => (true, &s[1..]),
        b'+' => (false, &s[1..]),
        _ => (false, s),
    };
    let (ip, fp) = match rest.find('.') {
        Some(i) => (&rest[..i], &rest[i + 1..]),
        None => (rest, ""),
    };
    if ip.is_empty() && fp.is_empty() {
        return None;
    }
    if !ip.chars().all(|c| c.is_ascii_digit()) || !fp.chars().all(|c| c.is_ascii_digit()) {
        return None;
    }
    let mut fp = fp;
    if fp.len() > 28 {
        if !fp[28..].chars().all(|c| c == '0') {
            return None;
        }
        fp = &fp[..28];
    }
    let v = big_from_digits(&format!("{}{}", ip, fp)).mul_pow10(28 - fp.len() as u32);
    Some(if neg { v.neg() } else { v })
}

fn ord_of(a: &Big, b: &Big) -> Ordering {
    a.cmp(b)
}

/// all comparison operators of the real crate agree with the ordering of the mathematical values
fn cmp_agrees(x: &Decimal, y: &Decimal, want: Ordering) -> bool {
    x.cmp(y) == want
        && x.partial_cmp(y) == Some(want)
        && (x == y) == (want == Ordering::Equal)
        && x.eq(y) == (want == Ordering::Equal)
        && x.ne(y) == (want != Ordering::Equal)
        && (x < y) == (want == Ordering::Less)
        && x.lt(y) == (want == Ordering::Less)
        && (x > y) == (want == Ordering::Greater)
        && x.gt(y) == (want == Ordering::Greater)
        && (x <= y) == (want != Ordering::Greater)
        && (x >= y) == (want != Ordering::Less)
}

// ------------------------------------------------------------------------------------------------ 1
struct Lit {
    neg: bool,
    int: String,
    frac: String,
}
fn rand_digits(rng: &mut Rng, n: usize) -> String {
    (0..n).map(|_| char::from(b'0' + rng.below(10) as u8)).collect()
}
fn gen_lit(rng: &mut Rng) -> Lit {
    let (li, lf) = match rng.below(4) {
        0 => (rng.range(1, 3) as usize, rng.range(0, 3) as usize),
        1 => (rng.range(1, 12) as usize, rng.range(0, 16) as usize),
        2 => {
            let li = rng.range(1, 27) as usize;
            (li, 28 - li)
        }
        _ => (rng.range(1, 10) as usize, rng.range(0, 18) as usize),
    };
    let mut int = rand_digits(rng, li);
    if int.len() > 1 && int.starts_with('0') {
        int.replace_range(0..1, "7");
    }
    if rng.one_in(6) {
        int = "0".to_string();
    }
    let mut frac = rand_digits(rng, lf);
    if frac.ends_with('0') {
        let l = frac.len();
        frac.replace_range(l - 1..l, "3");
    }
    Lit { neg: rng.one_in(3), int, frac }
}
fn lit_canonical(l: &Lit) -> String {
    format!("{}{}{}{}", if l.neg { "-" } else { "" }, l.int, if l.frac.is_empty() { "" } else { "." }, l.frac)
}
fn lit_variants(l: &Lit, rng: &mut Rng) -> Vec<(String, &'static str)> {
    let sign = if l.neg { "-" } else { "" };
    let mut v = Vec::new();
    let room = 28 - l.frac.len();
    let zs = |k: usize| "0".repeat(k);
    if room > 0 {
        let k = rng.range(1, room as u64) as usize;
        v.push((format!("{}{}.{}{}", sign, l.int, l.frac, zs(k)), "trailing-zeros"));
        v.push((format!("{}{}.{}{}", sign, l.int, l.frac, zs(room)), "trailing-zeros-to-28dp"));
        v.push((format!("{}{}{}.{}{}", sign, zs(2), l.int, l.frac, zs(1)), "leading+trailing-zeros"));
    }
    v.push((format!("{}{}.{}{}", sign, l.int, l.frac, zs(room + 3)), "trailing-zeros-beyond-28dp"));
    let k = rng.range(1, 4) as usize;
    v.push((format!("{}{}{}{}{}", sign, zs(k), l.int, if l.frac.is_empty() { "" } else { "." }, l.frac), "leading-zeros"));
    if !l.neg {
        v.push((format!("+{}{}{}", l.int, if l.frac.is_empty() { "" } else { "." }, l.frac), "leading-plus"));
        v.push((format!("+0{}.{}0", l.int, l.frac), "plus+zeros"));
    }
    v
}

pub fn a01(seed: u64, iters: u64) -> Assumption {
    let mut a = Assumption::new("A-DEC-01", "from_str: equality and ordering are by value");
    let mut rng = Rng::new(seed, 1);
    let mut lits: Vec<Lit> = Vec::new();
    for (n, i, f) in [
        (false, "0", ""), (true, "0", ""), (false, "1", ""), (true, "1", ""), (false, "2", ""), (false, "0", "5"), (true, "0", "5"),
        (false, "0", "8"), (false, "1", "5"), (false, "10", ""), (false, "100", "001"), (false, "0", "0000000000000000000000000001"),
        (false, "7922816251426433759354395033", "5"), (false, "79228162514264337593543950335", ""), (true, "79228162514264337593543950335", ""),
        (false, "0", "003"), (false, "12", "25"), (false, "999999999999999999", "999999999"),
    ] {
        lits.push(Lit { neg: n, int: i.to_string(), frac: f.to_string() });
    }
    for _ in 0..iters {
        lits.push(gen_lit(&mut rng));
    }
    let mut prev: Option<(String, Decimal, Big)> = None;
    for l in &lits {
        let s0 = lit_canonical(l);
        let want = str_to_q(&s0).expect("literal");
        let d0 = match Decimal::from_str(&s0) {
            Ok(d) => d,
            Err(e) => {
                a.check(false, || format!("from_str({:?}) = Err({})", s0, e));
                continue;
            }
        };
        a.check(q(&d0) == want, || format!("from_str({:?}) = {} but the literal's value*10^28 is {}", s0, show(&d0), want));
        for (s, kind) in lit_variants(l, &mut rng) {
            match Decimal::from_str(&s) {
                Err(e) => a.check(false, || format!("[{}] from_str({:?}) = Err({}) while from_str({:?}) is Ok", kind, s, e, s0)),
                Ok(d) => {
                    let same_value = q(&d) == want;
                    a.check(same_value && cmp_agrees(&d, &d0, Ordering::Equal) && cmp_agrees(&d0, &d, Ordering::Equal), || {
                        format!("[{}] from_str({:?}) = {} vs from_str({:?}) = {}: not equal by value / comparison operators disagree", kind, s, show(&d), s0, show(&d0))
                    });
                }
            }
        }
        if let Some((ps, pd, pq)) = &prev {
            let w = ord_of(pq, &want);
            a.check(cmp_agrees(pd, &d0, w) && cmp_agrees(&d0, pd, w.reverse()), || format!("ordering of from_str({:?}) vs from_str({:?}) is not {:?}", ps, s0, w));
        }
        prev = Some((s0, d0, want));
    }
    // informational: literal forms outside the plain [+-]digits[.digits] grammar (parse_dec is uninterpreted, nothing is claimed)
    let odd = ["", " ", "-", "+", ".", ".5", "5.", "-.5", "1e3", "1E3", "1_000", "1,000", " 1", "1 ", "0x10", "١", "1.2.3", "--1", "+-1", "NaN", "inf",
               "79228162514264337593543950336", "0.00000000000000000000000000005", "0.00000000000000000000000000004", "1.00000000000000000000000000005"];
    let mut acc = Vec::new();
    for s in odd {
        acc.push(match Decimal::from_str(s) {
            Ok(d) => format!("{:?}=>Ok({})", s, show(&d)),
            Err(_) => format!("{:?}=>Err", s),
        });
    }
    a.note(format!("from_str on unusual literals (nothing assumed; parse_dec is uninterpreted): {}", acc.join(" ")));
    a
}

// ------------------------------------------------------------------------------------------------ 2
fn mul_key(ma: u128, mb: u128, s: u32) -> u128 {
    ((ma + mb) << 8) | s as u128
}
/// `q(r) * 10^s == P * 10^28`, i.e. r is exactly the product P / 10^s
fn is_exact(r: &Decimal, p: &Big, s: u32) -> bool {
    q(r).mul_pow10(s) == p.mul_pow10(28)
}

pub fn a02(seed: u64, iters: u64) -> Assumption {
    let mut a = Assumption::new("A-DEC-02", "checked_mul (no quotient operand): r.q == dmul(a.q,b.q), i.e. exact, whenever the exact product is representable (scale <= 28, 96-bit mantissa)");
    let g = Gen::new();
    let mut rng = Rng::new(seed, 2);
    let mut in_range = 0u64;
    let mut in_by_zeros = 0u64;
    let mut out_none = 0u64;
    let mut in_none = Info::new("representable product but checked_mul == None (counted as mismatch)");
    let mut out_rounded = Info::new("OUT of range (exact product not representable): Some(r), necessarily rounded");
    let mut lit_scale = Info::new("  of these, the product needs more than 28 decimals");
    let mut lit_mant = Info::new("  of these, <= 28 decimals but the mantissa needs more than 96 bits");
    let mut not_floor = Info::new("  of these, r.q != dmul(a.q,b.q) = floor(qa*qb/10^28) (the floor model does not describe the rounding either)");
    let mut round_up = Info::new("  of these, the rounded result is ABOVE the exact product in absolute value");

    let mut one = |a: &mut Assumption, ma: u128, na: bool, sa: u32, mb: u128, nb: bool, sb: u32| {
        let (x, y) = (dec(ma, na, sa), dec(mb, nb, sb));
        let p = Big::from_i128(x.mantissa()).mul(&Big::from_i128(y.mantissa()));
        let s = sa + sb;
        let key = mul_key(ma, mb, s);
        let inr = representable(&p, s);
        let r = x.checked_mul(y);
        let d = || format!("{} * {}", show(&x), show(&y));
        if inr {
            in_range += 1;
            if s > 28 || p.bits() > 96 {
                in_by_zeros += 1; // representable only because of trailing zeros
            }
            match r {
                Some(r) => a.check_k(is_exact(&r, &p, s) && q(&r) == dmul(&q(&x), &q(&y)), key, || format!("{} = {} but the exact (representable) product is {}e-{}", d(), show(&r), p, s)),
                None => {
                    in_none.hit(key, d);
                    a.check_k(false, key, || format!("{} = None although the exact product {}e-{} is representable", d(), p, s));
                }
            }
        } else {
            match r {
                None => out_none += 1,
                Some(r) => {
                    debug_assert!(!is_exact(&r, &p, s));
                    let dd = || format!("{} = {} ; exact {}e-{}", d(), show(&r), p, s);
                    out_rounded.hit(key, dd);
                    // decimals needed = s minus the trailing zeros of p
                    let mut pp = p.abs();
                    let mut need = s;
                    while need > 0 {
                        let (qq, ex) = pp.div_floor_u64(10);
                        if !ex {
                            break;
                        }
                        pp = qq;
                        need -= 1;
                    }
                    if need > 28 {
                        lit_scale.hit(key, dd);
                    } else {
                        lit_mant.hit(key, dd);
                    }
                    if q(&r).abs().mul_pow10(s) > p.abs().mul_pow10(28) {
                        round_up.hit(key, dd);
                    }
                    let fl = dmul(&q(&x), &q(&y));
                    if q(&r) != fl {
                        not_floor.hit(key, || format!("{} = {} (q={}) but floor(qa*qb/10^28) = {}", d(), show(&r), q(&r), fl));
                    }
                }
            }
        }
    };
    // the refined claim: representable products are exact even when scale(a)+scale(b) > 28 or the raw mantissa
    // product exceeds 96 bits, as long as the excess consists of trailing zeros
    {
        let one28 = pow10_u128(28);
        one(&mut a, 250000, false, 5, 250000, false, 5); // 2.50000 * 2.50000
        one(&mut a, 250000, false, 5, 4, false, 0);
        one(&mut a, one28, false, 28, 5, false, 1); // 1.0000000000000000000000000000 * 0.5
        one(&mut a, one28, false, 28, one28, false, 28);
        one(&mut a, one28, true, 28, one28 / 2, false, 28);
        one(&mut a, 7 * one28, false, 28, 7 * one28, false, 28);
        one(&mut a, one28, false, 28, M96_MAX, false, 0);
        one(&mut a, one28, false, 28, M96_MAX, false, 28);
        one(&mut a, 3 * pow10_u128(27), false, 28, 3 * pow10_u128(27), false, 28); // 0.3 * 0.3 written with 28 decimals
        for k in 0..=28u32 {
            one(&mut a, pow10_u128(k), false, k, 5, false, 1);
            one(&mut a, pow10_u128(k), false, k, pow10_u128(28 - k), false, 28 - k);
            one(&mut a, 25 * pow10_u128(k.min(27)), false, k.min(27), 25 * pow10_u128(27 - k.min(27)), true, 28 - k.min(27));
        }
    }
    for i in 0..iters * 2 {
        // core operands with a representable product, then padded with trailing zeros
        let ba = rng.below(97) as u32;
        let (ca, cb) = (rng.log_uniform(ba), rng.log_uniform(96 - ba));
        let sa = rng.below(29) as u32;
        let sb = rng.below(29 - sa as u64) as u32;
        let pad = |rng: &mut Rng, c: u128, s: u32| -> (u128, u32) {
            let mut k = rng.below((28 - s) as u64 + 1) as u32;
            while k > 0 && c.checked_mul(pow10_u128(k)).map(|m| m > M96_MAX).unwrap_or(true) {
                k -= 1;
            }
            (c * pow10_u128(k), s + k)
        };
        let (ma, sa2) = pad(&mut rng, ca, sa);
        let (mb, sb2) = if i % 3 == 0 { (cb, sb) } else { pad(&mut rng, cb, sb) };
        one(&mut a, ma, rng.one_in(3), sa2, mb, rng.one_in(3), sb2);
    }
    // enumerated grid
    let ms: [u128; 16] = [0, 1, 2, 3, 4, 5, 6, 7, 15, 25, 35, 45, 55, 125, 1000, 999];
    let ss: [u32; 8] = [0, 1, 2, 13, 14, 15, 27, 28];
    for &ma in &ms {
        for &sa in &ss {
            for &mb in &ms {
                for &sb in &ss {
                    for (na, nb) in [(false, false), (true, false), (true, true)] {
                        one(&mut a, ma, na, sa, mb, nb, sb);
                    }
                }
            }
        }
    }
    for &ma in &g.edges {
        for &mb in &g.edges {
            let sa = (ma % 29) as u32;
            let sb = (mb % 29) as u32;
            one(&mut a, ma, false, sa, mb, false, sb);
            one(&mut a, ma, false, 0, mb, true, 0);
        }
    }
    for i in 0..iters * 4 {
        let (mut ma, mut mb) = (g.m96(&mut rng), g.m96(&mut rng));
        let (mut sa, mut sb) = (g.scale(&mut rng, 28), g.scale(&mut rng, 28));
        if i % 2 == 0 {
            // bias towards the claimed range: product below 2^96 and scale sum <= 28
            let ba = rng.below(97) as u32;
            ma = rng.log_uniform(ba);
            mb = rng.log_uniform(96 - ba);
            sa = rng.below(29) as u32;
            sb = rng.below(29 - sa as u64) as u32;
        }
        one(&mut a, ma, rng.one_in(3), sa, mb, rng.one_in(3), sb);
    }
    let probes: Vec<String> = [(5u128, 1u32), (15, 1), (25, 1), (4, 1), (6, 1), (49, 2), (51, 2)]
        .iter()
        .map(|&(m, s)| {
            let r = dec(m, false, s).checked_mul(dec(1, false, 28));
            format!("{}*1e-28={}", dec(m, false, s), r.map(|r| format!("{}e-28", r.mantissa())).unwrap_or("None".into()))
        })
        .collect();
    a.note(format!("representable (in-range) cases: {} , of which {} only thanks to trailing zeros (scale sum > 28 or raw mantissa product > 96 bits) ; out-of-range cases: None {}, Some rounded {}", in_range, in_by_zeros, out_none, out_rounded.count));
    a.note_info(&in_none);
    a.note_info(&out_rounded);
    a.note_info(&lit_scale);
    a.note_info(&lit_mant);
    a.note_info(&not_floor);
    a.note_info(&round_up);
    a.note(format!("rounding mode probe at the 28th place: {}", probes.join(" ")));
    a
}

// ------------------------------------------------------------------------------------------------ 3
pub fn a03(seed: u64, iters: u64) -> Assumption {
    let mut a = Assumption::new("A-DEC-03", "checked_mul(price, Decimal::from(n)), scale(price) <= 18, n < 2^64: exact (== pmul) whenever price*n is representable; Some whenever representable");
    let g = Gen::new();
    let mut rng = Rng::new(seed, 3);
    let mut in_range = 0u64;
    let mut in_by_zeros = 0u64;
    let mut none = Info::new("None (not representable: integer part of price*n needs more than 96 bits; the contract reports TotalOverflow)");
    let mut none_small = Info::new("None although the integer part of price*n is below 2^96");
    let mut out_rounded = Info::new("OUT of range (price*n not representable: mantissa needs more than 96 bits): Some(r), rounded");
    let mut min_bits: u32 = u32::MAX;
    let mut flips = Info::new("  of these, fract()==0 differs from 'exact product is an integer' (boundary of the assumption: the contract's integrality test is fooled)");
    let mut order = Info::new("operand order changes the result (n*price vs price*n)");
    let mut realistic = 0u64;
    let mut realistic_bad = Info::new("  rounded (non-representable) results with price mantissa < 2^64 and n < 10^12");
    let mut one = |a: &mut Assumption, mp: u128, sp: u32, n: u64| {
        let price = dec(mp, false, sp);
        let dn = Decimal::from(n as u128);
        let p = Big::from_u128(mp).mul(&Big::from_u64(n));
        let key = mp + n as u128;
        let d = || format!("{} * {}", show(&price), n);
        let inr = representable(&p, sp);
        if inr {
            in_range += 1;
            if p.bits() > 96 {
                in_by_zeros += 1;
            }
        }
        let small = mp < (1u128 << 64) && n < 1_000_000_000_000;
        if small {
            realistic += 1;
        }
        let r = price.checked_mul(dn);
        let r2 = dn.checked_mul(price);
        if r != r2 || r.map(|x| x.scale()) != r2.map(|x| x.scale()) {
            order.hit(key, || format!("{}: {:?} vs {:?}", d(), r.map(|x| show(&x)), r2.map(|x| show(&x))));
        }
        match r {
            None => {
                if inr {
                    a.check_k(false, key, || format!("{} = None although the exact product {}e-{} is representable", d(), p, sp));
                } else {
                    a.cases += 1; // evaluated, nothing claimed
                    none.hit(key, d);
                    if p.div_floor_pow10(sp).0.bits() <= 96 {
                        none_small.hit(key, d);
                    }
                }
            }
            Some(r) => {
                let ok = is_exact(&r, &p, sp) && q(&r) == pmul(&q(&price), &Big::from_u64(n));
                if inr {
                    a.check_k(ok, key, || format!("{} = {} but the exact (representable) product is {}e-{}", d(), show(&r), p, sp));
                } else {
                    a.cases += 1; // out of the claimed range: informational
                    debug_assert!(!ok);
                    out_rounded.hit(key, || format!("{} = {} ; exact {}e-{} ({} bits)", d(), show(&r), p, sp, p.bits()));
                    min_bits = min_bits.min(p.bits());
                    if small {
                        realistic_bad.hit(key, d);
                    }
                    let exact_whole = p.mod_floor_pow10(sp).is_zero();
                    if r.fract().is_zero() != exact_whole {
                        flips.hit(key, || format!("{} = {} (fract()==0: {}) ; exact {}e-{}", d(), show(&r), r.fract().is_zero(), p, sp));
                    }
                }
            }
        }
    };
    // prices written with trailing zeros: raw mantissa product above 96 bits but representable
    one(&mut a, 250000, 5, 4);
    one(&mut a, pow10_u128(18), 18, u64::MAX);
    one(&mut a, 25 * pow10_u128(17), 18, u64::MAX);
    one(&mut a, pow10_u128(18) * 1_000_000, 18, 10_000_000_000_000_000_000);
    for k in 0..=18u32 {
        for n in [1u64, 3, 1000, 999_999_999_999, 1 << 40, u64::MAX, 10_000_000_000_000_000_000] {
            one(&mut a, pow10_u128(k), k, n);
            one(&mut a, 125 * pow10_u128(k), k.max(3), n);
            one(&mut a, 79 * pow10_u128(k), 18, n);
        }
    }
    for _ in 0..iters {
        // core price with few significant digits, padded with zeros to a longer scale; n often a multiple of 10^j
        let sp = rng.below(19) as u32;
        let core = rng.log_uniform(40);
        let mut k = rng.below(sp as u64 + 1) as u32;
        while core * pow10_u128(k) > M96_MAX {
            k -= 1;
        }
        let mp = core * pow10_u128(k);
        let n = if rng.coin() { g.n64(&mut rng) } else { (rng.log_uniform(30) as u64).saturating_mul(10u64.pow(rng.below(10) as u32)) };
        one(&mut a, mp, sp, n);
    }
    // enumerated: every edge mantissa at every scale 0..=18 against edge sizes
    for &mp in &g.edges {
        for sp in 0..=18u32 {
            for n in [0u64, 1, 2, 3, 7, 10, 1000, 1_000_000, 999_999_999_999, 1 << 32, u64::MAX / 3, u64::MAX - 1, u64::MAX] {
                one(&mut a, mp, sp, n);
            }
        }
    }
    // a deliberately small search for the smallest counterexample: mantissa just above 2^32, n near 2^64
    for dm in 0..64u128 {
        for sp in [1u32, 2, 18] {
            for dn in 0..8u64 {
                one(&mut a, (1u128 << 32) + dm, sp, u64::MAX - dn);
            }
        }
    }
    // the smallest operands (by sum) whose mantissa product reaches 2^96 are both near 2^48
    for dm in 0..48u128 {
        for dn in 0..48u64 {
            for sp in [1u32, 6, 18] {
                one(&mut a, (1u128 << 48) + dm, sp, (1u64 << 48) + dn);
            }
        }
    }
    for i in 0..iters * 4 {
        let sp = g.scale(&mut rng, 18);
        let n = g.n64(&mut rng);
        let mp = if i % 3 == 0 {
            // realistic prices: up to 2^40 units with up to 18 decimals -> mantissa below 2^64ish
            rng.log_uniform(64)
        } else {
            g.m96(&mut rng)
        };
        one(&mut a, mp, sp, n);
    }
    // informational mirror of util.rs is_invalid_price_precision: price (any scale <= 28, as parsed from a string)
    // times 10^k, k <= 18, then fract() != 0.  With an exact product the answer is "price has more than k decimals".
    let mut pp_cases = 0u64;
    let mut pp_flip = Info::new("is_invalid_price_precision mirror (price of any scale * 10^k, k<=18): real fract()!=0 differs from the exact answer");
    let mut pp_none = 0u64;
    let mut pp = |mp: u128, sp: u32, k: u32| {
        let price = dec(mp, false, sp);
        pp_cases += 1;
        match price.checked_mul(Decimal::from(10u128.pow(k))) {
            None => pp_none += 1,
            Some(r) => {
                let real_invalid = r.fract().ne(&Decimal::zero());
                let exact_invalid = !is_whole(&pmul(&q(&price), &Big::pow10(k)));
                if real_invalid != exact_invalid {
                    pp_flip.hit(mp, || format!("price {} precision {}: real says invalid={}, exact product says invalid={} (real product {})", show(&price), k, real_invalid, exact_invalid, show(&r)));
                }
            }
        }
    };
    pp(10u128.pow(28) + 1, 28, 18);
    pp(10u128.pow(28) + 1, 28, 2);
    for &mp in &g.edges {
        for sp in [0u32, 2, 6, 18, 19, 20, 27, 28] {
            for k in [0u32, 2, 6, 18] {
                pp(mp, sp, k);
            }
        }
    }
    for _ in 0..iters {
        pp(g.m96(&mut rng), g.scale(&mut rng, 28), rng.below(19) as u32);
    }
    a.note(format!("representable (in-range) cases: {} , of which {} have a raw mantissa product above 96 bits (trailing zeros)", in_range, in_by_zeros));
    a.note_info(&out_rounded);
    a.note(format!("  smallest bit length of a non-representable product that still returned Some: {}", if min_bits == u32::MAX { "n/a".to_string() } else { min_bits.to_string() }));
    a.note_info(&flips);
    a.note(format!("cases with price mantissa < 2^64 and n < 10^12: {}", realistic));
    a.note_info(&realistic_bad);
    a.note_info(&none);
    a.note_info(&none_small);
    a.note_info(&order);
    a.note(format!("price-precision mirror cases: {} (None/overflow: {})", pp_cases, pp_none));
    a.note_info(&pp_flip);
    a
}

// ------------------------------------------------------------------------------------------------ 4
pub fn a04(seed: u64, iters: u64) -> Assumption {
    let mut a = Assumption::new("A-DEC-04", "checked_sub: r.q == dsub(a.q,b.q), i.e. exact, whenever the exact difference is representable (scale <= 28, 96-bit mantissa)");
    let g = Gen::new();
    let mut rng = Rng::new(seed, 4);
    let mut in_range = 0u64;
    let mut out_none = 0u64;
    let mut in_by_zeros = 0u64;
    let mut out_rounded = Info::new("OUT of range (a-b is not representable): Some(r), rounded");
    let mut add_rounded = Info::new("checked_add (modelled, unused by the contract): Some(r) with r != a+b where a+b is not representable");
    let mut add_bad = Info::new("checked_add: a+b representable but the result is None or inexact");
    let mut one = |a: &mut Assumption, x: Decimal, y: Decimal| {
        let s = x.scale().max(y.scale());
        let ax = Big::from_i128(x.mantissa()).mul_pow10(s - x.scale());
        let by = Big::from_i128(y.mantissa()).mul_pow10(s - y.scale());
        let diff = ax.sub(&by);
        let want = dsub(&q(&x), &q(&y));
        let key = (x.mantissa().unsigned_abs() + y.mantissa().unsigned_abs()) << 8 | s as u128;
        let d = || format!("{} - {}", show(&x), show(&y));
        let r = x.checked_sub(y);
        if representable(&diff, s) {
            in_range += 1;
            if diff.bits() > 96 {
                in_by_zeros += 1;
            }
            match r {
                Some(r) => a.check_k(q(&r) == want, key, || format!("{} = {} but exact difference*10^28 is {}", d(), show(&r), want)),
                None => a.check_k(false, key, || format!("{} = None although the exact difference {}e-{} is representable", d(), diff, s)),
            }
        } else {
            a.cases += 1;
            match r {
                None => out_none += 1,
                Some(r) => {
                    debug_assert!(q(&r) != want);
                    out_rounded.hit(key, || format!("{} = {} ; exact {}e-{}", d(), show(&r), diff, s))
                }
            }
        }
        let sum = ax.add(&by);
        match x.checked_add(y) {
            Some(r) if q(&r) == q(&x).add(&q(&y)) => {}
            other => {
                if representable(&sum, s) {
                    add_bad.hit(key, || format!("{} + {} = {:?}", show(&x), show(&y), other.map(|r| show(&r))));
                } else if let Some(r) = other {
                    add_rounded.hit(key, || format!("{} + {} = {}", show(&x), show(&y), show(&r)));
                }
            }
        }
    };
    let eds = [0u128, 1, 2, 5, 10, 99, 100, 1 << 64, M96_MAX - 1, M96_MAX, pow10_u128(28), pow10_u128(27) * 5];
    for &ma in &eds {
        for &mb in &eds {
            for sa in [0u32, 1, 2, 14, 27, 28] {
                for sb in [0u32, 1, 2, 14, 27, 28] {
                    for (na, nb) in [(false, false), (false, true), (true, false), (true, true)] {
                        one(&mut a, dec(ma, na, sa), dec(mb, nb, sb));
                    }
                }
            }
        }
    }
    for i in 0..iters * 4 {
        let x = g.decimal(&mut rng, 28, true);
        let mut y = g.decimal(&mut rng, 28, true);
        match i % 4 {
            0 => y = dec(g.m96(&mut rng), y.is_sign_negative(), x.scale()), // same scale
            1 => {
                // integers (the contract's balances)
                let (m1, m2) = (rng.log_uniform(96), rng.log_uniform(96));
                one(&mut a, dec(m1, false, 0), dec(m2, false, 0));
                continue;
            }
            _ => {}
        }
        one(&mut a, x, y);
    }
    a.note(format!("representable (in-range) cases: {} , of which {} need trailing zeros dropped (more than 96 bits at scale max(sa,sb)) ; out-of-range: None {}, Some rounded {}", in_range, in_by_zeros, out_none, out_rounded.count));
    a.note_info(&out_rounded);
    a.note_info(&add_rounded);
    a.note_info(&add_bad);
    a
}

// ------------------------------------------------------------------------------------------------ 5, 6
fn unary_inputs(seed: u64, stream: u64, iters: u64, signed: bool) -> Vec<Decimal> {
    let g = Gen::new();
    let mut rng = Rng::new(seed, stream);
    let mut v = edge_decimals(signed);
    v.extend(neg_zeros().into_iter().map(|(_, d)| d));
    for _ in 0..iters {
        v.push(g.mixed(&mut rng, signed));
    }
    v
}

/// ways of obtaining a zero with the sign bit set (q == 0 but is_sign_negative())
pub fn neg_zeros() -> Vec<(String, Decimal)> {
    let mut v: Vec<(String, Decimal)> = Vec::new();
    let mut push = |n: &str, d: Option<Decimal>| {
        if let Some(d) = d {
            v.push((n.to_string(), d));
        }
    };
    push("from_parts(0,0,0,true,0)", Some(Decimal::from_parts(0, 0, 0, true, 0)));
    push("from_str(\"-0\")", Decimal::from_str("-0").ok());
    push("from_str(\"-0.0\")", Decimal::from_str("-0.0").ok());
    push("from_str(\"-0.000\")", Decimal::from_str("-0.000").ok());
    let mut z = Decimal::ZERO;
    z.set_sign_negative(true);
    push("ZERO.set_sign_negative(true)", Some(z));
    push("-ZERO", Some(-Decimal::ZERO));
    push("(-1).checked_mul(0)", dec(1, true, 0).checked_mul(Decimal::ZERO));
    push("from_str(\"-0\").checked_mul(from(5u128))", Decimal::from_str("-0").ok().and_then(|d| d.checked_mul(Decimal::from(5u128))));
    push("(-0.4).round_dp_with_strategy(0,MidpointAwayFromZero)", Some(dec(4, true, 1).round_dp_with_strategy(0, RoundingStrategy::MidpointAwayFromZero)));
    push("(-0.4).trunc()", Some(dec(4, true, 1).trunc()));
    push("(-0.4).ceil()", Some(dec(4, true, 1).ceil()));
    push("(-0.4).round()", Some(dec(4, true, 1).round()));
    push("(-1).checked_sub(-1)", dec(1, true, 0).checked_sub(dec(1, true, 0)));
    push("(-1.5).fract() - (-0.5)", dec(15, true, 1).fract().checked_sub(dec(5, true, 1)));
    push("(-3).fract()", Some(dec(3, true, 0).fract()));
    push("(-0.00000000000000000000000000004)*(0.1)", dec(4, true, 28).checked_mul(dec(1, false, 1)));
    v
}

pub fn a05(seed: u64, iters: u64) -> Assumption {
    let mut a = Assumption::new("A-DEC-05", "fract(): fract()==0 iff the value is an integer");
    for d in unary_inputs(seed, 5, iters, true) {
        let w = is_whole(&q(&d));
        let f = d.fract();
        let ok = f.is_zero() == w && (f == Decimal::ZERO) == w && f.ne(&Decimal::zero()) == !w && (q(&f).is_zero() == w);
        a.check(ok, || format!("{}.fract() = {} but is_whole = {}", show(&d), show(&f), w));
    }
    a
}

pub fn a06(seed: u64, iters: u64) -> Assumption {
    let mut a = Assumption::new("A-DEC-06", "is_zero / is_sign_negative / is_sign_positive follow the sign of the value (either allowed at 0)");
    let mut negzero = 0u64;
    for d in unary_inputs(seed, 6, iters, true) {
        let v = q(&d);
        let ok = d.is_zero() == v.is_zero()
            && (!v.is_pos() || (!d.is_sign_negative() && d.is_sign_positive()))
            && (!v.is_neg() || (d.is_sign_negative() && !d.is_sign_positive()));
        a.check(ok, || format!("{}: is_zero={} neg={} pos={}", show(&d), d.is_zero(), d.is_sign_negative(), d.is_sign_positive()));
        if v.is_zero() && d.is_sign_negative() {
            negzero += 1;
        }
    }
    a.check(Decimal::zero().is_zero() && q(&Decimal::zero()).is_zero(), || "Decimal::zero() is not 0".to_string());
    a.note(format!("zero values with is_sign_negative()==true among the inputs: {} (shim allows either sign at 0)", negzero));
    let nz: Vec<String> = neg_zeros().iter().map(|(n, d)| format!("{} -> {} neg={}", n, show(d), d.is_sign_negative())).collect();
    a.note(format!("how a negative zero can arise: {}", nz.join(" | ")));
    a
}

// ------------------------------------------------------------------------------------------------ 7, 8
pub fn a07(seed: u64, iters: u64) -> Assumption {
    let mut a = Assumption::new("A-DEC-07", "round_dp_with_strategy(0, MidpointAwayFromZero) == of_int(round_half_away(q))");
    let mut ties = 0u64;
    for d in unary_inputs(seed, 7, iters * 2, true) {
        let v = q(&d);
        let want = of_int(&round_half_away(&v));
        let r = d.round_dp_with_strategy(0, RoundingStrategy::MidpointAwayFromZero);
        if v.abs().mod_floor_pow10(28) == Big::pow10(27).mul_u64(5) {
            ties += 1;
        }
        a.check(q(&r) == want, || format!("{} -> {} but model gives q={}", show(&d), show(&r), want));
    }
    a.note(format!("exact .5 ties among the inputs: {}", ties));
    a
}

pub fn a08(seed: u64, iters: u64) -> Assumption {
    let mut a = Assumption::new("A-DEC-08", "round()/round_dp(0) half-even; trunc, floor, ceil, abs");
    for d in unary_inputs(seed, 8, iters * 2, true) {
        let v = q(&d);
        let he = of_int(&round_half_even(&v));
        a.check(q(&d.round()) == he, || format!("{}.round() = {} but half-even model q={}", show(&d), show(&d.round()), he));
        a.check(q(&d.round_dp(0)) == he, || format!("{}.round_dp(0) = {} but half-even model q={}", show(&d), show(&d.round_dp(0)), he));
        let t = of_int(&trunc_int(&v));
        a.check(q(&d.trunc()) == t, || format!("{}.trunc() = {} but model q={}", show(&d), show(&d.trunc()), t));
        let f = of_int(&floor_int(&v));
        let fr = catch_unwind(|| d.floor());
        a.check(fr.as_ref().map(|r| q(r) == f).unwrap_or(false), || format!("{}.floor() = {:?} but model q={}", show(&d), fr.as_ref().map(show).map_err(|_| "panic"), f));
        let c = of_int(&ceil_int(&v));
        let cr = catch_unwind(|| d.ceil());
        a.check(cr.as_ref().map(|r| q(r) == c).unwrap_or(false), || format!("{}.ceil() = {:?} but model q={}", show(&d), cr.as_ref().map(show).map_err(|_| "panic"), c));
        a.check(q(&d.abs()) == v.abs(), || format!("{}.abs() = {}", show(&d), show(&d.abs())));
    }
    a
}

// ------------------------------------------------------------------------------------------------ 9
pub fn a09(seed: u64, iters: u64) -> Assumption {
    let mut a = Assumption::new("A-DEC-09", "to_u128(): q<0 => None; q>=0 and not a negative zero => Some(whole(q)) < 2^96; Some(v) => q>=0 and v == whole(q)");
    let mut nz_none = Info::new("negative zero (sign bit set, zero mantissa; excluded from the Some-claim) returns None");
    let check = |a: &mut Assumption, nz_none: &mut Info, name: &str, d: &Decimal| {
        let v = q(d);
        let r = d.to_u128();
        // Some(v) => q >= 0 && v == whole(q) && v < 2^96   (claimed for every input)
        if let Some(x) = r {
            a.check(!v.is_neg() && Some(x) == whole(&v).to_u128() && x < LIMIT96, || format!("{}{}.to_u128() = Some({}) but whole(q) = {}", name, show(d), x, whole(&v)));
        }
        if v.is_neg() {
            a.check(r.is_none(), || format!("{}{}.to_u128() = {:?} but value is negative", name, show(d), r));
        } else if is_neg_zero(d) {
            a.cases += 1; // evaluated; no Some-claim for a negative zero
            if r.is_none() {
                nz_none.hit(0, || format!("{}{}", name, show(d)));
            }
        } else {
            a.check(r.is_some(), || format!("{}{}.to_u128() = None but q >= 0 and it is not a negative zero; the shim claims Some({})", name, show(d), whole(&v)));
        }
    };
    for (n, d) in neg_zeros() {
        check(&mut a, &mut nz_none, &format!("[{}] ", n), &d);
    }
    for (m, n, s) in [(5u128, true, 1u32), (1, true, 0), (4, true, 1), (1, true, 28), (4, false, 1), (5, false, 1), (9, false, 1), (15, false, 1), (M96_MAX, false, 0), (M96_MAX, true, 0), (M96_MAX, false, 1), (M96_MAX, false, 28)] {
        check(&mut a, &mut nz_none, "", &dec(m, n, s));
    }
    for d in unary_inputs(seed, 9, iters * 2, true) {
        check(&mut a, &mut nz_none, "", &d);
    }
    let probes: Vec<String> = [("-0.5", dec(5, true, 1)), ("-1", dec(1, true, 0)), ("-0.4", dec(4, true, 1)), ("0.4", dec(4, false, 1)), ("0.9", dec(9, false, 1)), ("1.9", dec(19, false, 1))]
        .iter()
        .map(|(n, d)| format!("{}->{:?}", n, d.to_u128()))
        .collect();
    let nzp: Vec<String> = neg_zeros().iter().map(|(n, d)| format!("{} (neg={}) -> {:?}", n, d.is_sign_negative(), d.to_u128())).collect();
    a.note(format!("probes: {}", probes.join(" ")));
    a.note(format!("zero-valued probes: {}", nzp.join(" | ")));
    a.note_info(&nz_none);
    a
}

// ------------------------------------------------------------------------------------------------ 10
pub fn a10(seed: u64, iters: u64) -> Assumption {
    let mut a = Assumption::new("A-DEC-10", "from_u128(n): Some(n) iff n < 2^96 ; From<u128> panics for n >= 2^96");
    let mut rng = Rng::new(seed, 10);
    let mut ns: Vec<u128> = vec![0, 1, 2, 10, u64::MAX as u128, (u64::MAX as u128) + 1, LIMIT96 - 2, LIMIT96 - 1, LIMIT96, LIMIT96 + 1, LIMIT96 * 2, 1u128 << 127, u128::MAX - 1, u128::MAX, 10u128.pow(28), 10u128.pow(29), 10u128.pow(38)];
    for _ in 0..iters {
        ns.push(rng.log_uniform(128));
        ns.push(rng.log_uniform(96));
    }
    let mut panics = 0u64;
    for n in ns {
        let r = Decimal::from_u128(n);
        let p = catch_unwind(|| <Decimal as From<u128>>::from(n));
        if n < LIMIT96 {
            let want = of_int(&Big::from_u128(n));
            a.check(r.map(|d| q(&d) == want && d.scale() == 0).unwrap_or(false), || format!("from_u128({}) = {:?}", n, r));
            a.check(p.as_ref().map(|d| q(d) == want).unwrap_or(false), || format!("Decimal::from({}u128) = {:?}", n, p.as_ref().map_err(|_| "panic")));
        } else {
            a.check(r.is_none(), || format!("from_u128({}) = {:?} but n >= 2^96", n, r));
            a.check(p.is_err(), || format!("Decimal::from({}u128) did not panic: {:?}", n, p.as_ref().ok()));
            if p.is_err() {
                panics += 1;
            }
        }
    }
    for i in [0i32, 1, -1, 7, -7, i32::MAX, i32::MIN] {
        let d = Decimal::from(i);
        a.check(q(&d) == of_int(&Big::from_i128(i as i128)), || format!("Decimal::from({}i32) = {}", i, show(&d)));
    }
    a.note(format!("From<u128> panics observed for n >= 2^96: {}", panics));
    a
}

// ------------------------------------------------------------------------------------------------ 11
pub fn a11(seed: u64, iters: u64) -> Assumption {
    let mut a = Assumption::new("A-DEC-11", "cmp/eq/ne/lt/gt/le/ge/partial_cmp by value across scales");
    let g = Gen::new();
    let mut rng = Rng::new(seed, 11);
    let mut eq_diff_scale = 0u64;
    let mut one = |a: &mut Assumption, x: Decimal, y: Decimal| {
        let w = ord_of(&q(&x), &q(&y));
        if w == Ordering::Equal && x.scale() != y.scale() {
            eq_diff_scale += 1;
        }
        a.check(cmp_agrees(&x, &y, w) && cmp_agrees(&y, &x, w.reverse()), || format!("{} vs {}: values compare {:?}, operators disagree (cmp={:?}, eq={})", show(&x), show(&y), w, x.cmp(&y), x == y));
    };
    let zs: Vec<Decimal> = neg_zeros().into_iter().map(|(_, d)| d).chain([dec(0, false, 0), dec(0, false, 5), dec(0, false, 28)]).collect();
    for x in &zs {
        for y in &zs {
            one(&mut a, *x, *y);
        }
        for y in [dec(1, false, 28), dec(1, true, 28), dec(1, false, 0), dec(1, true, 0)] {
            one(&mut a, *x, y);
        }
    }
    let ed = edge_decimals(true);
    for i in 0..ed.len() {
        one(&mut a, ed[i], ed[(i * 7 + 3) % ed.len()]);
        one(&mut a, ed[i], ed[(i + 1) % ed.len()]);
    }
    for i in 0..iters * 4 {
        match i % 4 {
            0 => one(&mut a, g.decimal(&mut rng, 28, true), g.decimal(&mut rng, 28, true)),
            _ => {
                // same value at two scales, and the neighbours one unit in the last place away
                let s = rng.below(29) as u32;
                let k = rng.below(29 - s as u64) as u32;
                let maxm = M96_MAX / pow10_u128(k);
                let mut m = g.m96(&mut rng);
                if m > maxm {
                    m %= maxm + 1;
                }
                let neg = rng.one_in(3);
                let x = dec(m, neg, s);
                let big = m * pow10_u128(k);
                let m2 = match i % 4 {
                    1 => big,
                    2 => big.saturating_sub(1),
                    _ => (big + 1).min(M96_MAX),
                };
                let neg2 = if rng.one_in(8) { !neg } else { neg };
                one(&mut a, x, dec(m2, neg2, s + k));
            }
        }
    }
    a.note(format!("pairs equal by value but stored with different scales: {}", eq_diff_scale));
    a
}

// ------------------------------------------------------------------------------------------------ 12
pub fn a12(seed: u64, iters: u64) -> Assumption {
    let mut a = Assumption::new("A-DEC-12", "from_str(d.to_string()) == d by value");
    let mut same_repr = 0u64;
    let mut diff_str_eq_val = 0u64;
    let mut rng = Rng::new(seed, 12);
    for d in unary_inputs(seed, 12, iters, true) {
        let s = d.to_string();
        let r = Decimal::from_str(&s);
        a.check(r.as_ref().map(|x| *x == d && q(x) == q(&d)).unwrap_or(false), || format!("from_str({:?}) = {:?} but it was printed from {}", s, r.as_ref().map(show), show(&d)));
        if let Ok(x) = r {
            if x.scale() == d.scale() && x.mantissa() == d.mantissa() {
                same_repr += 1;
            }
        }
        // the literal's own value must be the printed value (to_string is exact)
        if let Some(v) = str_to_q(&s) {
            a.check(v == q(&d), || format!("{}.to_string() = {:?} which denotes a different value", show(&d), s));
        } else {
            a.check(false, || format!("{}.to_string() = {:?} is not a plain decimal literal", show(&d), s));
        }
        // an equal value at another scale prints differently
        let k = rng.below(29 - d.scale() as u64) as u32;
        if k > 0 && d.mantissa().unsigned_abs() <= M96_MAX / pow10_u128(k) {
            let e = dec(d.mantissa().unsigned_abs() * pow10_u128(k), d.is_sign_negative(), d.scale() + k);
            if e == d && e.to_string() != s {
                diff_str_eq_val += 1;
            }
            a.check(e == d, || format!("{} != {}", show(&e), show(&d)));
        }
    }
    let two = (Decimal::from_str("2").unwrap(), Decimal::from_str("2.0").unwrap());
    a.note(format!("\"2\" vs \"2.0\": equal={} to_string=({:?},{:?})", two.0 == two.1, two.0.to_string(), two.1.to_string()));
    a.note(format!("roundtrips that also preserve mantissa and scale: {} ; pairs equal by value with different to_string(): {} (so dec_str is not a function of the value q alone)", same_repr, diff_str_eq_val));
    a
}

// ------------------------------------------------------------------------------------------------ range axiom (extra)
pub fn a19(seed: u64, iters: u64) -> Assumption {
    let mut a = Assumption::new("A-RANGE-19", "axiom_fits_bounded: results in [0, n], n < 2^96, are produced (checked_mul/sub/div return Some)");
    let g = Gen::new();
    let mut rng = Rng::new(seed, 19);
    let maxq = of_int(&Big::from_u128(M96_MAX));
    let mut n_mul = 0u64;
    let mut n_sub = 0u64;
    let mut n_div = 0u64;
    for i in 0..iters * 4 {
        let x = g.decimal(&mut rng, 28, false);
        let y = g.decimal(&mut rng, 28, false);
        let (qx, qy) = (q(&x), q(&y));
        // mul: strict() && fits(dmul(a,b)) ==> Some
        if dmul(&qx, &qy) <= maxq {
            n_mul += 1;
            a.check(x.checked_mul(y).is_some(), || format!("{} * {} = None although floor(product) <= 2^96-1", show(&x), show(&y)));
        }
        // sub: 0 <= a-b <= 2^96-1
        let (hi, lo) = if qx >= qy { (x, y) } else { (y, x) };
        n_sub += 1;
        a.check(hi.checked_sub(lo).is_some(), || format!("{} - {} = None although 0 <= a-b <= a", show(&hi), show(&lo)));
        // div: 0 <= a <= b, b > 0 ==> ddiv(a,b) in [0, D] fits
        if !q(&hi).is_zero() {
            n_div += 1;
            let r = catch_unwind(|| lo.checked_div(hi));
            a.check(matches!(r, Ok(Some(_))), || format!("{} / {} = {:?}", show(&lo), show(&hi), r.as_ref().map_err(|_| "panic")));
        }
        if i % 4 == 0 {
            // integer operands as the contract forms them
            let (m, n) = (rng.log_uniform(96), g.n64(&mut rng) as u128);
            let p = Big::from_u128(m).mul(&Big::from_u128(n));
            if p.bits() <= 96 {
                n_mul += 1;
                a.check(dec(m, false, 0).checked_mul(Decimal::from(n)).is_some(), || format!("{} * {} = None", m, n));
            }
        }
    }
    a.note(format!("mul cases {} ; sub cases {} ; div cases {}", n_mul, n_sub, n_div));
    a
}

// ------------------------------------------------------------------------------------------------ negative zero (extra)
/// the shim's ghost flag `nz`: from_str, checked_mul, checked_div, from_u128, From<u128>, zero() are claimed never to
/// return a negative zero; fract, round, round_dp, round_dp_with_strategy, checked_sub, checked_add only when an operand
/// already is one; trunc/floor/ceil/abs/neg are unconstrained.
pub fn a20(seed: u64, iters: u64) -> Assumption {
    nz_audit(seed, iters, false)
}
/// the same functions applied to operands that already ARE negative zeros: `!r.nz` stays unconditional for
/// checked_mul / checked_div (and from_str, zero, from_u128, From<u128>); the other functions may propagate the operand's
pub fn a21(seed: u64, iters: u64) -> Assumption {
    nz_audit(seed, iters, true)
}
fn nz_audit(seed: u64, iters: u64, nz_inputs: bool) -> Assumption {
    let mut a = if nz_inputs {
        Assumption::new("A-DEC-NZ-21", "with a negative-zero operand: checked_mul/checked_div still never return a negative zero; fract/round/round_dp/round_dp_with_strategy/checked_sub/checked_add may only propagate one (r.nz ==> an operand is nz)")
    } else {
        Assumption::new("A-DEC-NZ-20", "no negative zero from from_str/checked_mul/sub/div/add/fract/round/round_dp/round_dp_with_strategy/from_u128/From<u128> when no operand is a negative zero")
    };
    let g = Gen::new();
    let mut rng = Rng::new(seed, 20);
    let mut zero_results = 0u64;
    let mut from_nz_input = 0u64;
    // per function: (negative zeros returned for inputs none of which is a negative zero, ... for a negative-zero input)
    let stats: std::cell::RefCell<std::collections::BTreeMap<String, (u64, u64, String, String)>> = std::cell::RefCell::new(Default::default());
    let nz = |a: &mut Assumption, zero_results: &mut u64, what: &dyn Fn() -> String, r: Option<Decimal>| {
        if let Some(r) = r {
            if r.mantissa() == 0 {
                *zero_results += 1;
            }
            if !is_neg_zero(&r) {
                a.check(true, String::new);
            } else {
                let w = what();
                let fname = w.split(|c| c == '(').next().unwrap_or("").rsplit('.').next().unwrap_or("").to_string();
                let fname = if w.starts_with("from_str") { "from_str".to_string() } else { fname };
                let input_nz = w.contains(",-0]");
                // claimed: fract/round/round_dp/round_dp_with_strategy: r.nz ==> self.nz ; checked_sub/checked_add:
                // r.nz ==> self.nz || o.nz ; everything else (from_str, checked_mul, checked_div, zero, from_u128, From): !r.nz
                let may_propagate = matches!(fname.as_str(), "fract" | "round" | "round_dp" | "round_dp_with_strategy" | "checked_sub" | "checked_add");
                a.check(input_nz && may_propagate, || format!("{} = {} is a negative zero", w, show(&r)));
                let mut st = stats.borrow_mut();
                let e = st.entry(fname).or_insert((0, 0, String::new(), String::new()));
                if input_nz {
                    e.1 += 1;
                    if e.3.is_empty() {
                        e.3 = format!("{} = {}", w, show(&r));
                    }
                } else {
                    e.0 += 1;
                    if e.2.is_empty() {
                        e.2 = format!("{} = {}", w, show(&r));
                    }
                }
            }
        } else {
            a.cases += 1;
        }
    };
    // from_str
    let mut lits: Vec<String> = ["-0", "-0.0", "-0.000", "-00", "-.0", "-0.", "+0", "0", "-0.0000000000000000000000000000", "-0.00000000000000000000000000004",
        "-0.00000000000000000000000000005", "-0.000000000000000000000000000049999", "-0.0000000000000000000000000000000000001", "-0_0", "-0.00000000000000000000000000000"]
        .iter().map(|s| s.to_string()).collect();
    for k in 0..40usize {
        lits.push(format!("-0.{}", "0".repeat(k)));
        lits.push(format!("-0.{}4", "0".repeat(k)));
        lits.push(format!("-{}", "0".repeat(k + 1)));
    }
    if !nz_inputs {
        for s in &lits {
            nz(&mut a, &mut zero_results, &|| format!("from_str({:?})", s), Decimal::from_str(s).ok());
        }
        nz(&mut a, &mut zero_results, &|| "from_u128(0)".to_string(), Decimal::from_u128(0));
        nz(&mut a, &mut zero_results, &|| "Decimal::from(0u128)".to_string(), Some(Decimal::from(0u128)));
        nz(&mut a, &mut zero_results, &|| "Decimal::zero()".to_string(), Some(Decimal::zero()));
        nz(&mut a, &mut zero_results, &|| "Decimal::from(0i32)".to_string(), Some(Decimal::from(0i32)));
    }
    // unary
    let strategies = [
        (RoundingStrategy::MidpointAwayFromZero, "MidpointAwayFromZero"), (RoundingStrategy::MidpointNearestEven, "MidpointNearestEven"),
        (RoundingStrategy::MidpointTowardZero, "MidpointTowardZero"), (RoundingStrategy::ToZero, "ToZero"), (RoundingStrategy::AwayFromZero, "AwayFromZero"),
        (RoundingStrategy::ToNegativeInfinity, "ToNegativeInfinity"), (RoundingStrategy::ToPositiveInfinity, "ToPositiveInfinity"),
    ];
    let mut small_neg: Vec<Decimal> = Vec::new();
    for s in 1..=28u32 {
        for m in [1u128, 4, 5, 6, 9, 49, 50, 51] {
            small_neg.push(dec(m, true, s));
        }
    }
    let mut inputs = unary_inputs(seed, 20, iters, true);
    inputs.extend(small_neg.iter().copied());
    for d in &inputs {
        if is_neg_zero(d) != nz_inputs {
            continue;
        }
        if is_neg_zero(d) {
            from_nz_input += 1;
        }
        nz(&mut a, &mut zero_results, &|| format!("{}.fract()", show(d)), Some(d.fract()));
        nz(&mut a, &mut zero_results, &|| format!("{}.round()", show(d)), Some(d.round()));
        for dp in [0u32, 1, 2, 5, 27, 28] {
            nz(&mut a, &mut zero_results, &|| format!("{}.round_dp({})", show(d), dp), Some(d.round_dp(dp)));
            for (st, name) in &strategies {
                nz(&mut a, &mut zero_results, &|| format!("{}.round_dp_with_strategy({}, {})", show(d), dp, name), Some(d.round_dp_with_strategy(dp, *st)));
            }
        }
    }
    // binary
    let zs: Vec<Decimal> = neg_zeros().into_iter().map(|(_, d)| d).chain([dec(0, false, 0), dec(0, false, 7), dec(0, false, 28)]).collect();
    let mut pairs: Vec<(Decimal, Decimal)> = Vec::new();
    for x in zs.iter().chain(small_neg.iter()) {
        for y in zs.iter() {
            pairs.push((*x, *y));
            pairs.push((*y, *x));
        }
        for y in [dec(1, false, 0), dec(1, true, 0), dec(1, false, 1), dec(1, false, 28), dec(1, true, 28), dec(3, false, 0), dec(M96_MAX, false, 0), dec(M96_MAX, true, 0), dec(5, false, 1)] {
            pairs.push((*x, y));
            pairs.push((y, *x));
        }
        pairs.push((*x, *x));
    }
    for i in 0..iters {
        let x = g.mixed(&mut rng, true);
        let y = match i % 4 {
            0 => x,
            1 => -x,
            2 => dec(rng.below(10) as u128, rng.coin(), 28),
            _ => g.mixed(&mut rng, true),
        };
        pairs.push((x, y));
    }
    for (x, y) in &pairs {
        if (is_neg_zero(x) || is_neg_zero(y)) != nz_inputs {
            continue;
        }
        nz(&mut a, &mut zero_results, &|| format!("{}.checked_mul({})", show(x), show(y)), x.checked_mul(*y));
        nz(&mut a, &mut zero_results, &|| format!("{}.checked_sub({})", show(x), show(y)), x.checked_sub(*y));
        nz(&mut a, &mut zero_results, &|| format!("{}.checked_add({})", show(x), show(y)), x.checked_add(*y));
        if !y.is_zero() {
            let r = catch_unwind(|| x.checked_div(*y)).unwrap_or(None);
            nz(&mut a, &mut zero_results, &|| format!("{}.checked_div({})", show(x), show(y)), r);
        }
    }
    a.note(format!("results that are zero: {} ; unary inputs that are negative zeros: {}", zero_results, from_nz_input));
    for (f, (clean, dirty, ex, exd)) in stats.borrow().iter() {
        let line = format!("negative zero returned by {}: {} times with no negative-zero operand{} ; {} times when an operand already was a negative zero (propagation, in line with the claim)",
            f, clean, if ex.is_empty() { String::new() } else { format!(" (first: {})", ex) }, dirty);
        let line = if exd.is_empty() { line } else { format!("{} (first: {})", line, exd) };
        a.note(line);
    }
    let may: Vec<String> = [("trunc", dec(4, true, 1).trunc()), ("floor", dec(0, false, 0).floor()), ("ceil", dec(4, true, 1).ceil()), ("abs", dec(4, true, 1).trunc().abs()), ("neg", -Decimal::ZERO)]
        .iter().map(|(n, d)| format!("{} -> {}", n, show(d))).collect();
    if !nz_inputs {
        a.note(format!("functions allowed to produce a negative zero (nz unspecified): {}", may.join(" ; ")));
    }
    a
}
