//! Tiny arbitrary-precision signed integer.  Only what the audit needs: + - * cmp, floor division by a
//! u64 and by powers of ten, decimal printing.  Correct rather than fast.
use std::cmp::Ordering;
use std::fmt;

#[derive(Clone, Debug, PartialEq, Eq)]
pub struct Big {
    neg: bool,
    /// little-endian magnitude, no trailing zero limbs; zero is (false, [])
    mag: Vec<u64>,
}

fn trim(v: &mut Vec<u64>) {
    while let Some(&0) = v.last() {
        v.pop();
    }
}
fn mag_cmp(a: &[u64], b: &[u64]) -> Ordering {
    if a.len() != b.len() {
        return a.len().cmp(&b.len());
    }
    for i in (0..a.len()).rev() {
        if a[i] != b[i] {
            return a[i].cmp(&b[i]);
        }
    }
    Ordering::Equal
}
fn mag_add(a: &[u64], b: &[u64]) -> Vec<u64> {
    let n = a.len().max(b.len());
    let mut r = Vec::with_capacity(n + 1);
    let mut carry = 0u128;
    for i in 0..n {
        let s = carry + *a.get(i).unwrap_or(&0) as u128 + *b.get(i).unwrap_or(&0) as u128;
        r.push(s as u64);
        carry = s >> 64;
    }
    if carry != 0 {
        r.push(carry as u64);
    }
    trim(&mut r);
    r
}
/// a - b, requires a >= b
fn mag_sub(a: &[u64], b: &[u64]) -> Vec<u64> {
    debug_assert!(mag_cmp(a, b) != Ordering::Less);
    let mut r = Vec::with_capacity(a.len());
    let mut borrow = 0u64;
    for i in 0..a.len() {
        let bi = *b.get(i).unwrap_or(&0);
        let (d1, o1) = a[i].overflowing_sub(bi);
        let (d2, o2) = d1.overflowing_sub(borrow);
        r.push(d2);
        borrow = (o1 as u64) + (o2 as u64);
    }
    assert!(borrow == 0, "mag_sub underflow");
    trim(&mut r);
    r
}
fn mag_mul(a: &[u64], b: &[u64]) -> Vec<u64> {
    if a.is_empty() || b.is_empty() {
        return Vec::new();
    }
    let mut r = vec![0u64; a.len() + b.len()];
    for i in 0..a.len() {
        let mut carry = 0u128;
        for j in 0..b.len() {
            let t = (a[i] as u128) * (b[j] as u128) + r[i + j] as u128 + carry;
            r[i + j] = t as u64;
            carry = t >> 64;
        }
        let mut k = i + b.len();
        while carry != 0 {
            let t = r[k] as u128 + carry;
            r[k] = t as u64;
            carry = t >> 64;
            k += 1;
        }
    }
    trim(&mut r);
    r
}
fn mag_divrem_small(a: &[u64], d: u64) -> (Vec<u64>, u64) {
    assert!(d != 0);
    let mut q = vec![0u64; a.len()];
    let mut rem = 0u128;
    for i in (0..a.len()).rev() {
        let cur = (rem << 64) | a[i] as u128;
        q[i] = (cur / d as u128) as u64;
        rem = cur % d as u128;
    }
    trim(&mut q);
    (q, rem as u64)
}

const P19: u64 = 10_000_000_000_000_000_000; // 10^19 < 2^64

impl Big {
    pub fn zero() -> Big {
        Big { neg: false, mag: Vec::new() }
    }
    fn mk(neg: bool, mut mag: Vec<u64>) -> Big {
        trim(&mut mag);
        let neg = neg && !mag.is_empty();
        Big { neg, mag }
    }
    pub fn from_u128(x: u128) -> Big {
        Big::mk(false, vec![x as u64, (x >> 64) as u64])
    }
    pub fn from_u64(x: u64) -> Big {
        Big::mk(false, vec![x])
    }
    pub fn from_i128(x: i128) -> Big {
        let m = x.unsigned_abs();
        Big::mk(x < 0, vec![m as u64, (m >> 64) as u64])
    }
    pub fn is_zero(&self) -> bool {
        self.mag.is_empty()
    }
    pub fn is_neg(&self) -> bool {
        self.neg
    }
    pub fn is_pos(&self) -> bool {
        !self.neg && !self.mag.is_empty()
    }
    pub fn neg(&self) -> Big {
        Big::mk(!self.neg, self.mag.clone())
    }
    pub fn abs(&self) -> Big {
        Big::mk(false, self.mag.clone())
    }
    pub fn add(&self, o: &Big) -> Big {
        if self.neg == o.neg {
            return Big::mk(self.neg, mag_add(&self.mag, &o.mag));
        }
        match mag_cmp(&self.mag, &o.mag) {
            Ordering::Equal => Big::zero(),
            Ordering::Greater => Big::mk(self.neg, mag_sub(&self.mag, &o.mag)),
            Ordering::Less => Big::mk(o.neg, mag_sub(&o.mag, &self.mag)),
        }
    }
    pub fn sub(&self, o: &Big) -> Big {
        self.add(&o.neg())
    }
    pub fn mul(&self, o: &Big) -> Big {
        Big::mk(self.neg != o.neg, mag_mul(&self.mag, &o.mag))
    }
    pub fn mul_u64(&self, k: u64) -> Big {
        self.mul(&Big::from_u64(k))
    }
    pub fn pow10(k: u32) -> Big {
        let mut r = Big::from_u64(1);
        let mut k = k;
        while k >= 19 {
            r = r.mul_u64(P19);
            k -= 19;
        }
        if k > 0 {
            r = r.mul_u64(10u64.pow(k));
        }
        r
    }
    pub fn mul_pow10(&self, k: u32) -> Big {
        self.mul(&Big::pow10(k))
    }
    /// floor(self / d) for d > 0 (this is also Verus' `/` on `int` for a positive divisor), and whether it was exact
    pub fn div_floor_u64(&self, d: u64) -> (Big, bool) {
        let (q, r) = mag_divrem_small(&self.mag, d);
        let exact = r == 0;
        if self.neg && !exact {
            (Big::mk(true, mag_add(&q, &[1])), false)
        } else {
            (Big::mk(self.neg, q), exact)
        }
    }
    /// floor(self / 10^k) and whether the division was exact
    pub fn div_floor_pow10(&self, k: u32) -> (Big, bool) {
        // divide the magnitude chunk-wise (truncating), fix up the sign at the end
        let mut m = self.mag.clone();
        let mut exact = true;
        let mut k = k;
        while k > 0 {
            let c = k.min(19);
            let (q, r) = mag_divrem_small(&m, 10u64.pow(c));
            if r != 0 {
                exact = false;
            }
            m = q;
            k -= c;
        }
        if self.neg && !exact {
            (Big::mk(true, mag_add(&m, &[1])), false)
        } else {
            (Big::mk(self.neg, m), exact)
        }
    }
    /// self mod 10^k in [0, 10^k)
    pub fn mod_floor_pow10(&self, k: u32) -> Big {
        let (q, _) = self.div_floor_pow10(k);
        self.sub(&q.mul_pow10(k))
    }
    pub fn is_even(&self) -> bool {
        self.mag.first().map(|l| l & 1 == 0).unwrap_or(true)
    }
    pub fn to_u128(&self) -> Option<u128> {
        if self.neg || self.mag.len() > 2 {
            return None;
        }
        let lo = *self.mag.first().unwrap_or(&0) as u128;
        let hi = *self.mag.get(1).unwrap_or(&0) as u128;
        Some(lo | (hi << 64))
    }
    pub fn bits(&self) -> u32 {
        match self.mag.last() {
            None => 0,
            Some(top) => (self.mag.len() as u32 - 1) * 64 + (64 - top.leading_zeros()),
        }
    }
}

impl PartialOrd for Big {
    fn partial_cmp(&self, o: &Big) -> Option<Ordering> {
        Some(self.cmp(o))
    }
}
impl Ord for Big {
    fn cmp(&self, o: &Big) -> Ordering {
        match (self.neg, o.neg) {
            (false, true) => Ordering::Greater,
            (true, false) => Ordering::Less,
            (false, false) => mag_cmp(&self.mag, &o.mag),
            (true, true) => mag_cmp(&o.mag, &self.mag),
        }
    }
}
impl fmt::Display for Big {
    fn fmt(&self, f: &mut fmt::Formatter<'_>) -> fmt::Result {
        if self.mag.is_empty() {
            return write!(f, "0");
        }
        let mut chunks: Vec<u64> = Vec::new();
        let mut m = self.mag.clone();
        while !m.is_empty() {
            let (q, r) = mag_divrem_small(&m, P19);
            chunks.push(r);
            m = q;
        }
        let mut s = String::new();
        if self.neg {
            s.push('-');
        }
        s.push_str(&format!("{}", chunks.pop().unwrap()));
        while let Some(c) = chunks.pop() {
            s.push_str(&format!("{:019}", c));
        }
        write!(f, "{}", s)
    }
}

/// self-test of the helper against u128/i128 arithmetic; run at start-up so that a bug in the helper cannot
/// silently turn into a bogus audit result
pub fn self_test() {
    let xs: [i128; 14] = [
        0, 1, -1, 7, -7, 10, 1 << 64, -(1 << 64), (1 << 64) - 1, 12345678901234567890123456789, -98765432109876543210987654321,
        i64::MAX as i128, i64::MIN as i128, 99999999999999999999999999999999999,
    ];
    for &a in &xs {
        assert_eq!(Big::from_i128(a).to_string(), a.to_string());
        for &b in &xs {
            let (ba, bb) = (Big::from_i128(a), Big::from_i128(b));
            assert_eq!(ba.add(&bb), Big::from_i128(a + b));
            assert_eq!(ba.sub(&bb), Big::from_i128(a - b));
            assert_eq!(ba.cmp(&bb), a.cmp(&b));
            if let Some(p) = a.checked_mul(b) {
                assert_eq!(ba.mul(&bb), Big::from_i128(p));
            }
        }
        for &d in &[1u64, 2, 3, 10, 1_000_000_007, u64::MAX] {
            let (q, ex) = Big::from_i128(a).div_floor_u64(d);
            assert_eq!(q, Big::from_i128(a.div_euclid(d as i128)), "{} / {}", a, d);
            assert_eq!(ex, a.rem_euclid(d as i128) == 0);
        }
        for k in [0u32, 1, 5, 19, 20, 28] {
            let p = 10i128.pow(k);
            let (q, ex) = Big::from_i128(a).div_floor_pow10(k);
            assert_eq!(q, Big::from_i128(a.div_euclid(p)), "{} / 10^{}", a, k);
            assert_eq!(ex, a.rem_euclid(p) == 0);
            assert_eq!(Big::from_i128(a).mod_floor_pow10(k), Big::from_i128(a.rem_euclid(p)));
        }
    }
    // wide: (2^96-1)^2 and 10^56 round trips
    let m = Big::from_u128((1u128 << 96) - 1);
    let sq = m.mul(&m);
    assert_eq!(sq.to_string(), "6277101735386680763835789423049210091073826769276946612225");
    assert_eq!(Big::pow10(56).to_string(), format!("1{}", "0".repeat(56)));
    assert_eq!(Big::pow10(56).div_floor_pow10(28), (Big::pow10(28), true));
    assert_eq!(sq.mul_pow10(28).div_floor_pow10(28), (sq.clone(), true));
    assert_eq!(sq.bits(), 192);
}
