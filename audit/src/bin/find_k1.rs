//! find_k1: search for a SMALL pro-rata example outside the premise 3*F*Q < 10^28 of lemma_C09_nearest where the
//! contract's pipeline  round_half_away( (N/Q as 28-digit Decimal) * F )  differs from nearest rounding of F*N/Q although
//! F*N/Q is NOT a half-unit tie, and where F is the fee the contract computes at bid creation from a rate string with at
//! most 18 decimals:  F == round_half_away(from_str(rate) * Q).
//! usage: find_k1 [--trials N] [--out file.json]
use rust_decimal::prelude::{FromPrimitive, FromStr, ToPrimitive};
use rust_decimal::{Decimal, RoundingStrategy};

struct Rng(u64);
impl Rng {
    fn next(&mut self) -> u64 {
        let mut x = self.0;
        x ^= x >> 12;
        x ^= x << 25;
        x ^= x >> 27;
        self.0 = x;
        x.wrapping_mul(0x2545_F491_4F6C_DD1D)
    }
    fn unit(&mut self) -> f64 {
        (self.next() >> 11) as f64 / (1u64 << 53) as f64
    }
}

/// bid_order.rs calculate_fee / contract.rs cancel: ratio.checked_mul(fee).round(0, away).to_u128()
fn pipeline(f: u64, n: u64, q: u64) -> Option<u128> {
    let ratio = Decimal::from_u128(n as u128)?.checked_div(Decimal::from_u128(q as u128)?)?;
    let a = ratio.checked_mul(Decimal::from(f as u128))?.round_dp_with_strategy(0, RoundingStrategy::MidpointAwayFromZero).to_u128()?;
    let b = Decimal::from_u128(f as u128)?.checked_mul(ratio)?.round_dp_with_strategy(0, RoundingStrategy::MidpointAwayFromZero).to_u128()?;
    if a == b {
        Some(a)
    } else {
        None
    }
}
fn nearest(f: u64, n: u64, q: u64) -> (u128, bool) {
    let t = 2 * f as u128 * n as u128 + q as u128;
    (t / (2 * q as u128), t % (2 * q as u128) == 0)
}
/// contract.rs bid creation: Decimal::from_str(rate).checked_mul(total).round_dp_with_strategy(0, away).to_u128()
fn fee_at_creation(rate: &str, q: u64) -> Option<u128> {
    Decimal::from_str(rate).ok()?.checked_mul(Decimal::from(q as u128))?.round_dp_with_strategy(0, RoundingStrategy::MidpointAwayFromZero).to_u128()
}
/// shortest rate string (<= 18 decimals) whose creation fee on quote q is exactly f
fn rate_for(f: u64, q: u64) -> Option<String> {
    for d in 1..=18u32 {
        let p = 10u128.pow(d);
        let m = (2 * f as u128 * p + q as u128) / (2 * q as u128); // round(f * 10^d / q)
        for mm in [m, m.saturating_sub(1), m + 1] {
            let s = format!("{}.{:0width$}", mm / p, mm % p, width = d as usize);
            if fee_at_creation(&s, q) == Some(f as u128) {
                return Some(s);
            }
        }
    }
    None
}
fn inv_mod(a: u64, m: u64) -> Option<u64> {
    let (mut r0, mut r1) = (m as i128, (a % m) as i128);
    let (mut t0, mut t1) = (0i128, 1i128);
    while r1 != 0 {
        let qq = r0 / r1;
        (r0, r1) = (r1, r0 - qq * r1);
        (t0, t1) = (t1, t0 - qq * t1);
    }
    if r0 != 1 {
        return None;
    }
    Some(t0.rem_euclid(m as i128) as u64)
}

#[derive(Clone, Debug)]
struct Hit {
    q: u64,
    f: u64,
    n: u64,
    rate: String,
    pipeline: u128,
    nearest: u128,
    nice: bool,
}
impl Hit {
    fn json(&self) -> serde_json::Value {
        serde_json::json!({"Q": self.q, "F": self.f, "N": self.n, "rate": self.rate, "pipeline": self.pipeline as u64, "nearest": self.nearest as u64,
            "three_FQ_over_1e28": (3.0 * self.f as f64 * self.q as f64) / 1e28, "tie": false})
    }
}

/// numerators whose exact share is as close as possible to a half-integer without being one
fn candidates(f: u64, q: u64) -> Vec<u64> {
    let mut v = Vec::new();
    if q % 2 == 1 {
        let two_f = ((2 * f as u128) % q as u128) as u64;
        if let Some(inv) = inv_mod(two_f, q) {
            for c in [1u64, 3, 5] {
                let n = ((inv as u128 * c as u128) % q as u128) as u64; // 2 f n == c (mod q)
                v.push(n);
                v.push(q - n);
            }
        }
    }
    v
}
fn try_pair(f: u64, q: u64, nice_rate: Option<&str>, out: &mut Vec<Hit>) {
    if f == 0 || f >= q {
        return;
    }
    for n in candidates(f, q) {
        if n == 0 || n >= q {
            continue;
        }
        let (want, tie) = nearest(f, n, q);
        if tie {
            continue;
        }
        if let Some(p) = pipeline(f, n, q) {
            if p != want {
                let rate = match nice_rate {
                    Some(r) => Some(r.to_string()),
                    None => rate_for(f, q),
                };
                if let Some(rate) = rate {
                    if fee_at_creation(&rate, q) == Some(f as u128) {
                        out.push(Hit { q, f, n, rate, pipeline: p, nearest: want, nice: nice_rate.is_some() });
                    }
                }
            }
        }
    }
}

fn main() {
    let args: Vec<String> = std::env::args().skip(1).collect();
    let mut trials: u64 = 60_000;
    let mut out: Option<String> = None;
    let mut i = 0;
    while i + 1 < args.len() {
        match args[i].as_str() {
            "--trials" => trials = args[i + 1].parse().expect("number"),
            "--out" => out = Some(args[i + 1].clone()),
            _ => panic!("usage: find_k1 [--trials N] [--out file.json]"),
        }
        i += 2;
    }
    let mut rng = Rng(0x9E37_79B9_7F4A_7C15);
    let mut hits: Vec<Hit> = Vec::new();
    // phase A: any fee; sweep the magnitude of F*Q upwards and stop two levels after the first level with hits
    let mut first_level: Option<f64> = None;
    let mut e = 27.0f64;
    while e <= 30.0 {
        let before = hits.len();
        for _ in 0..trials {
            // F = Q * rho with rho in [0.02, 1): Q = sqrt(10^e / rho)
            let rho = 0.02 + 0.98 * rng.unit();
            let qf = (10f64.powf(e) / rho).sqrt() * (1.0 + 0.2 * rng.unit());
            if qf >= 1e16 {
                continue;
            }
            let q = (qf as u64) | 1;
            let f = (q as f64 * rho) as u64;
            try_pair(f, q, None, &mut hits);
        }
        let found = hits.len() - before;
        eprintln!("F*Q ~ 1e{:.2}: {} hits in {} trials", e, found, trials);
        if found > 0 && first_level.is_none() {
            first_level = Some(e);
        }
        if let Some(l) = first_level {
            if e >= l + 0.3 {
                break;
            }
        }
        e += 0.05;
    }
    // phase B: "nice" rates, F = fee at creation for that rate
    let nice = ["0.5", "0.25", "0.3", "0.2", "0.1", "0.05", "0.03", "0.025", "0.02", "0.01", "0.005", "0.003", "0.0025", "0.001"];
    for r in nice {
        let rho: f64 = r.parse().unwrap();
        let before = hits.len();
        let mut e = 27.0f64;
        while e <= 30.0 && hits.len() == before {
            for _ in 0..trials / 4 {
                let qf = (10f64.powf(e) / rho).sqrt() * (1.0 + 0.5 * rng.unit());
                if qf >= 1e16 {
                    continue;
                }
                let q = (qf as u64) | 1;
                if let Some(f) = fee_at_creation(r, q) {
                    try_pair(f as u64, q, Some(r), &mut hits);
                }
            }
            e += 0.25;
        }
        eprintln!("rate {}: {} hits", r, hits.len() - before);
    }
    // re-verify every hit from scratch and rank: smallest F*Q, then smallest Q
    hits.retain(|h| {
        let (w, tie) = nearest(h.f, h.n, h.q);
        !tie && pipeline(h.f, h.n, h.q) == Some(h.pipeline) && h.pipeline != w && w == h.nearest && fee_at_creation(&h.rate, h.q) == Some(h.f as u128) && 0 < h.n && h.n < h.q
            && h.rate.split('.').nth(1).map(|d| d.len() <= 18).unwrap_or(true)
    });
    hits.sort_by(|a, b| (a.f as u128 * a.q as u128, a.q).cmp(&(b.f as u128 * b.q as u128, b.q)));
    let best = hits.iter().find(|h| !h.nice).or(hits.first());
    let mut nice_hits: Vec<&Hit> = hits.iter().filter(|h| h.nice).collect();
    nice_hits.sort_by(|a, b| (a.rate.len(), a.q).cmp(&(b.rate.len(), b.q)));
    let mut seen = std::collections::HashSet::new();
    nice_hits.retain(|h| seen.insert(h.rate.clone()));
    match best {
        None => {
            eprintln!("no example found");
            std::process::exit(1);
        }
        Some(b) => {
            let mut j = b.json();
            j["others_with_round_rates"] = serde_json::Value::Array(nice_hits.iter().map(|h| h.json()).collect());
            j["note"] = serde_json::Value::String("pipeline = round_half_away((N/Q as Decimal) * F) on rust_decimal; nearest = floor((2FN+Q)/(2Q)); F == round_half_away(from_str(rate) * Q); not a tie; outside 3FQ < 1e28".into());
            let txt = serde_json::to_string_pretty(&j).unwrap();
            println!("{}", txt);
            if let Some(p) = out {
                std::fs::write(p, txt + "\n").expect("write");
            }
        }
    }
}
