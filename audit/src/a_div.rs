//! A-DEC-DIV: clauses 13 (axiom_ddiv, axiom_ddiv_mono) and 14 (the contract's pro-rata pipeline)
use crate::big::Big;
use crate::gen::Gen;
use crate::model::*;
use crate::report::{Assumption, Info};
use crate::rng::Rng;
use rust_decimal::prelude::{FromPrimitive, ToPrimitive};
use rust_decimal::{Decimal, RoundingStrategy};
use std::panic::catch_unwind;

fn div_u(a: u128, b: u128) -> Result<Option<Decimal>, ()> {
    catch_unwind(|| Decimal::from_u128(a).unwrap().checked_div(Decimal::from_u128(b).unwrap())).map_err(|_| ())
}

fn gen_b64(g: &Gen, rng: &mut Rng) -> u64 {
    let b = g.n64(rng);
    if b == 0 {
        1
    } else {
        b
    }
}
fn gen_a_le(rng: &mut Rng, b: u64) -> u64 {
    match rng.below(10) {
        0 => 0,
        1 => b,
        2 => b - 1,
        3 => 1.min(b),
        4 => b / 2,
        5 => b / 3,
        6 => (rng.log_uniform(64) % (b as u128 + 1)) as u64,
        _ => (rng.next_u128() % (b as u128 + 1)) as u64,
    }
}

pub fn a13(seed: u64, iters: u64) -> Assumption {
    let mut a = Assumption::new("A-DEC-DIV-13", "checked_div(a,b), integers 0<=a<=b<2^64, b>=1: 0<=r<=1, 0/b=0, b/b=1, monotone in a");
    let g = Gen::new();
    let mut rng = Rng::new(seed, 13);
    let d28 = D();
    let mut inexact = Info::new("|r - a/b| > 0.5e-28 (result is not the correctly rounded quotient)");
    let mut plateau = 0u64;
    let mut one = |a: &mut Assumption, x: u64, b: u64| -> Option<Big> {
        let key = x as u128 + b as u128;
        match div_u(x as u128, b as u128) {
            Ok(Some(r)) => {
                let v = q(&r);
                a.check_k(!v.is_neg() && v <= d28, key, || format!("{} / {} = {} is outside [0,1]", x, b, show(&r)));
                if x == 0 {
                    a.check_k(v.is_zero(), key, || format!("0 / {} = {}", b, show(&r)));
                }
                if x == b {
                    a.check_k(v == d28, key, || format!("{} / {} = {} (expected exactly 1)", x, b, show(&r)));
                }
                // 2 * |q_r * b - a * 10^28| <= b
                let err = v.mul(&Big::from_u64(b)).sub(&Big::from_u64(x).mul(&d28)).abs().mul_u64(2);
                if err > Big::from_u64(b) {
                    inexact.hit(key, || format!("{} / {} = {}", x, b, show(&r)));
                }
                Some(v)
            }
            other => {
                a.check_k(false, key, || format!("{} / {} = {:?}", x, b, other.map(|_| "None").map_err(|_| "panic")));
                None
            }
        }
    };
    let mono = |a: &mut Assumption, plateau: &mut u64, one: &mut dyn FnMut(&mut Assumption, u64, u64) -> Option<Big>, x1: u64, x2: u64, b: u64| {
        let (x1, x2) = if x1 <= x2 { (x1, x2) } else { (x2, x1) };
        if let (Some(r1), Some(r2)) = (one(a, x1, b), one(a, x2, b)) {
            if r1 == r2 && x1 != x2 {
                *plateau += 1;
            }
            a.check_k(r1 <= r2, x1 as u128 + x2 as u128 + b as u128, || format!("{}/{} = {}e-28 > {}/{} = {}e-28 (not monotone)", x1, b, r1, x2, b, r2));
        }
    };
    for b in 1..=48u64 {
        for x in 0..b {
            mono(&mut a, &mut plateau, &mut one, x, x + 1, b);
        }
    }
    for b in [u64::MAX, u64::MAX - 1, 1 << 63, (1 << 63) - 1, 10_000_000_000_000_000_000, 9_999_999_999_999_999_999, 3 * 1_000_000_007, 18446744073709551557, 6700417 * 641, 1 << 32, 999_999_999_999] {
        for x in [0u64, 1, 2, 3, b / 7, b / 3, b / 3 + 1, b / 2 - 1, b / 2, b / 2 + 1, b - 3, b - 2, b - 1] {
            mono(&mut a, &mut plateau, &mut one, x, x + 1, b);
        }
    }
    for i in 0..iters {
        let b = gen_b64(&g, &mut rng);
        let x1 = gen_a_le(&mut rng, b);
        let x2 = if i % 2 == 0 && x1 < b { x1 + 1 } else { gen_a_le(&mut rng, b) };
        mono(&mut a, &mut plateau, &mut one, x1, x2, b);
    }
    a.note_info(&inexact);
    a.note(format!("distinct numerators with identical quotient (allowed, <=): {}", plateau));

    // informational: the axioms are stated for all decimals 0 <= a <= b, b > 0, not only integers below 2^64
    let mut wide_bad = Info::new("beyond the audited range (integers up to 2^96 and non-integer decimals, 0<=a<=b): bound/endpoint/monotonicity violations");
    let mut wide_cases = 0u64;
    let mut rng2 = Rng::new(seed, 113);
    for i in 0..iters {
        let (x, y, z) = if i % 2 == 0 {
            (dec(rng2.log_uniform(96), false, 0), dec(rng2.log_uniform(96), false, 0), dec(rng2.log_uniform(96), false, 0))
        } else {
            (g.decimal(&mut rng2, 28, false), g.decimal(&mut rng2, 28, false), g.decimal(&mut rng2, 28, false))
        };
        let mut v = [x, y, z];
        v.sort();
        let (a1, a2, b) = (v[0], v[1], v[2]);
        if b.is_zero() {
            continue;
        }
        wide_cases += 1;
        let rs = catch_unwind(|| (a1.checked_div(b), a2.checked_div(b), b.checked_div(b), Decimal::ZERO.checked_div(b)));
        let ok = match rs {
            Ok((Some(r1), Some(r2), Some(rb), Some(r0))) => {
                !q(&r1).is_neg() && q(&r1) <= q(&r2) && q(&r2) <= d28 && q(&rb) == d28 && q(&r0).is_zero()
            }
            _ => false,
        };
        if !ok {
            wide_bad.hit(i as u128, || format!("a1={} a2={} b={}", show(&a1), show(&a2), show(&b)));
        }
    }
    a.note(format!("wide-range informational cases: {}", wide_cases));
    a.note_info(&wide_bad);
    a
}

// ------------------------------------------------------------------------------------------------ 14
struct ProRata {
    /// ratio.checked_mul(Decimal::from(fee)) ... (bid_order.rs calculate_fee)
    v1: Option<u128>,
    /// Decimal::from_u128(fee).checked_mul(ratio) ... (contract.rs cancel path)
    v2: Option<u128>,
    /// the two products before rounding to an integer
    p1: Option<Decimal>,
    p2: Option<Decimal>,
    ratio: Decimal,
    mul_exact: bool,
}
fn prorata_real(f: u64, n: u64, d: u64) -> Result<ProRata, ()> {
    catch_unwind(|| {
        let ratio = Decimal::from_u128(n as u128).unwrap().checked_div(Decimal::from_u128(d as u128).unwrap()).unwrap();
        let p1 = ratio.checked_mul(Decimal::from(f as u128));
        let p2 = Decimal::from_u128(f as u128).unwrap().checked_mul(ratio);
        let fin = |p: Option<Decimal>| p.and_then(|p| p.round_dp_with_strategy(0, RoundingStrategy::MidpointAwayFromZero).to_u128());
        let exact_q = q(&ratio).mul_u64(f);
        let mul_exact = p1.map(|p| q(&p) == exact_q).unwrap_or(false) && p2.map(|p| q(&p) == exact_q).unwrap_or(false);
        ProRata { v1: fin(p1), v2: fin(p2), p1, p2, ratio, mul_exact }
    })
    .map_err(|_| ())
}
/// floor((2 f n + d) / (2 d)) and whether f*n/d is exactly x.5
fn prorata_exact(f: u64, n: u64, d: u64) -> (u128, bool) {
    let two_fn = Big::from_u64(f).mul(&Big::from_u64(n)).mul_u64(2);
    let r = two_fn.add(&Big::from_u64(d)).div_floor_u64(d).0.div_floor_u64(2).0;
    let (k, exact) = two_fn.div_floor_u64(d);
    (r.to_u128().unwrap(), exact && !k.is_even())
}
fn inv_mod(a: u64, m: u64) -> Option<u64> {
    // extended Euclid in i128
    let (mut r0, mut r1) = (m as i128, (a % m) as i128);
    let (mut t0, mut t1) = (0i128, 1i128);
    while r1 != 0 {
        let qq = r0 / r1;
        let r2 = r0 - qq * r1;
        r0 = r1;
        r1 = r2;
        let t2 = t0 - qq * t1;
        t0 = t1;
        t1 = t2;
    }
    if r0 != 1 {
        return None;
    }
    Some(t0.rem_euclid(m as i128) as u64)
}

/// the (fee, num, num2, den) cases shared by 14 and 14M; num2 is the monotonicity partner of num
fn prorata_cases(seed: u64, iters: u64) -> Vec<(u64, u64, u64, u64)> {
    let g = Gen::new();
    let mut rng = Rng::new(seed, 14);
    let mut v: Vec<(u64, u64, u64, u64)> = Vec::new();
    let mut push = |rng: &mut Rng, f: u64, n: u64, d: u64| {
        assert!(n <= d && d >= 1);
        let n2 = if n < d && rng.coin() { n + 1 } else { (rng.next_u128() % (d as u128 + 1)) as u64 };
        v.push((f, n, n2, d));
    };
    // enumerated small grid
    for d in 1..=20u64 {
        for n in 0..=d {
            for f in 0..=20u64 {
                push(&mut rng, f, n, d);
            }
        }
    }
    // edges
    let big = [u64::MAX, u64::MAX - 1, 1 << 63, 10_000_000_000_000_000_000u64, 999_999_999_999_999_999, 1 << 32, 1_000_000_007, 3, 7, 14];
    for &d in &big {
        for &f in &big {
            for n in [0u64, 1, 2, d / 14, d / 7, d / 3, d / 2, d / 2 + 1, d - d / 3, d - 1, d] {
                if n <= d {
                    push(&mut rng, f, n, d);
                }
            }
        }
    }
    for i in 0..iters {
        match i % 4 {
            0 => {
                // exact ties: d = 2*c1*c2, n = c1*t (t odd), f = c2*odd  =>  f*n/d = t*odd/2
                let c1 = 1 + rng.log_uniform(31) as u64;
                let c2 = 1 + rng.log_uniform(31) as u64;
                let d = 2 * c1 * c2;
                let t = (rng.next_u64() % (2 * c2)) | 1;
                let n = c1 * t;
                let odd = rng.log_uniform(30) as u64 | 1;
                let f = c2.saturating_mul(odd);
                if n <= d {
                    push(&mut rng, f, n, d);
                }
            }
            1 => {
                // nearest non-ties: 2*f*n == k*d +- 1 (distance 1/(2d) from a half-integer when k is odd)
                let d = (gen_b64(&g, &mut rng) | 1).max(3);
                let f = gen_b64(&g, &mut rng);
                let two_f = ((2u128 * f as u128) % d as u128) as u64;
                if let Some(inv) = inv_mod(two_f, d) {
                    let n = if rng.coin() { inv } else { d - inv };
                    push(&mut rng, f, n.min(d), d);
                }
            }
            _ => {
                let d = gen_b64(&g, &mut rng);
                let n = gen_a_le(&mut rng, d);
                let f = g.n64(&mut rng);
                push(&mut rng, f, n, d);
            }
        }
    }
    v
}

pub fn a14(seed: u64, iters: u64) -> Assumption {
    let mut a = Assumption::new("A-DEC-DIV-14", "pro-rata fee: (n/d)*f rounded half away, to_u128: never None/panic, within 1 of round(f*n/d), f at n==d, 0 at n==0, monotone in n");
    let mut differs = Info::new("result != exact round-half-up(f*n/d)");
    let mut differs_tie = Info::new("  of these, f*n/d is an exact .5 tie");
    let mut differs_nontie = Info::new("  of these, f*n/d is NOT a tie");
    let mut ties = 0u64;
    let mut order_diff = Info::new("the two operand orders (ratio*fee vs fee*ratio) give different fees");

    let mut eval = |a: &mut Assumption, f: u64, n: u64, d: u64| -> Option<u128> {
        let key = f as u128 + n as u128 + d as u128;
        let desc = || format!("fee={} num={} den={}", f, n, d);
        match prorata_real(f, n, d) {
            Err(()) => {
                a.check_k(false, key, || format!("{}: panic", desc()));
                None
            }
            Ok(p) => {
                a.check_k(p.v1.is_some() && p.v2.is_some(), key, || format!("{}: ratio*fee -> {:?}, fee*ratio -> {:?}", desc(), p.v1, p.v2));
                if p.v1 != p.v2 {
                    order_diff.hit(key, || format!("{}: {:?} vs {:?}", desc(), p.v1, p.v2));
                }
                let v = p.v1?;
                let (want, tie) = prorata_exact(f, n, d);
                if tie {
                    ties += 1;
                }
                a.check_k(v.abs_diff(want) <= 1, key, || format!("{}: got {} but round(f*n/d) = {}", desc(), v, want));
                if n == 0 {
                    a.check_k(v == 0, key, || format!("{}: got {} expected 0", desc(), v));
                }
                if n == d {
                    a.check_k(v == f as u128, key, || format!("{}: got {} expected the whole fee", desc(), v));
                }
                if v != want {
                    differs.hit(key, || format!("{}: got {}, exact rounding {}", desc(), v, want));
                    if tie {
                        differs_tie.hit(key, || format!("{}: got {}, exact rounding {}", desc(), v, want));
                    } else {
                        differs_nontie.hit(key, || format!("{}: got {}, exact rounding {}", desc(), v, want));
                    }
                }
                Some(v)
            }
        }
    };
    for (f, n, n2, d) in prorata_cases(seed, iters) {
        let v = eval(&mut a, f, n, d);
        let v2 = eval(&mut a, f, n2, d);
        if let (Some(v), Some(v2)) = (v, v2) {
            let (lo, hi, vlo, vhi) = if n <= n2 { (n, n2, v, v2) } else { (n2, n, v2, v) };
            a.check_k(vlo <= vhi, f as u128 + n as u128 + d as u128, || format!("fee={} den={}: num={} -> {} > num={} -> {} (not monotone)", f, d, lo, vlo, hi, vhi));
        }
    }
    a.note(format!("exact .5 ties among the cases: {}", ties));
    a.note_info(&differs);
    a.note_info(&differs_tie);
    a.note_info(&differs_nontie);
    a.note_info(&order_diff);
    a
}

/// 14R: with a division-result operand the shim's product is the uninterpreted rmul(a,b) with the assumed facts
/// axiom_rmul_comm, axiom_rmul (bounds, end points) and axiom_rmul_mono; rmul is a mathematical function of the two
/// VALUES, so equal values must give equal products.
pub fn a14r(seed: u64, iters: u64) -> Assumption {
    let mut a = Assumption::new("A-DEC-DIV-14R", "rmul facts for ratio=a/b (0<=a<=b<2^64) times amount f<2^64: both orders Some and equal; 0<=p<=f; a==0 => 0; a==b => f; monotone in a; function of the values");
    let mut rounded = Info::new("products that are rounded (!= exact ratio.q * f; allowed, this is why rmul is uninterpreted)");
    let mut below = Info::new("  rounded product below the exact one");
    let mut above = Info::new("  rounded product above the exact one");
    let mut seen: std::collections::HashMap<(String, u64), (String, String)> = std::collections::HashMap::new();
    let mut prod = |a: &mut Assumption, f: u64, n: u64, d: u64| -> Option<Big> {
        let key = f as u128 + n as u128 + d as u128;
        let desc = || format!("ratio={}/{} amount={}", n, d, f);
        let p = match prorata_real(f, n, d) {
            Ok(p) => p,
            Err(()) => {
                a.check_k(false, key, || format!("{}: panic", desc()));
                return None;
            }
        };
        let (p1, p2) = match (p.p1, p.p2) {
            (Some(x), Some(y)) => (x, y),
            _ => {
                a.check_k(false, key, || format!("{}: ratio*f = {:?}, f*ratio = {:?} (Some expected: 0 <= product <= f fits)", desc(), p.p1.map(|x| show(&x)), p.p2.map(|x| show(&x))));
                return None;
            }
        };
        let v = q(&p1);
        // axiom_rmul_comm
        a.check_k(v == q(&p2) && p1 == p2, key, || format!("{}: ratio*f = {} but f*ratio = {}", desc(), show(&p1), show(&p2)));
        // axiom_rmul: 0 <= rmul(a, of_int(n)) <= of_int(n), end points
        let top = of_int(&Big::from_u64(f));
        a.check_k(!v.is_neg() && v <= top, key, || format!("{}: product {} is outside [0, f]", desc(), show(&p1)));
        if n == 0 {
            a.check_k(v.is_zero(), key, || format!("{}: product {} but ratio is 0", desc(), show(&p1)));
        }
        if n == d {
            a.check_k(v == top, key, || format!("{}: product {} but ratio is 1 (expected exactly f)", desc(), show(&p1)));
        }
        // rmul is a function of the values: the same ratio value (other representation / other fraction) gives the same product
        let pn = p.ratio.normalize().checked_mul(Decimal::from(f as u128));
        a.check_k(pn.map(|x| q(&x) == v).unwrap_or(false), key, || format!("{}: normalised ratio gives {:?}, ratio gives {}", desc(), pn.map(|x| show(&x)), show(&p1)));
        let k = (q(&p.ratio).to_string(), f);
        match seen.get(&k) {
            Some((pv, pd)) => a.check_k(*pv == v.to_string(), key, || format!("{} and {} have the same ratio value but products {}e-28 vs {}e-28", desc(), pd, v, pv)),
            None => {
                seen.insert(k, (v.to_string(), desc()));
            }
        }
        if !p.mul_exact {
            rounded.hit(key, desc);
            let exact = q(&p.ratio).mul_u64(f);
            if v < exact {
                below.hit(key, || format!("{}: {}", desc(), show(&p1)));
            } else {
                above.hit(key, || format!("{}: {}", desc(), show(&p1)));
            }
        }
        Some(v)
    };
    for (f, n, n2, d) in prorata_cases(seed, iters) {
        let v = prod(&mut a, f, n, d);
        let v2 = prod(&mut a, f, n2, d);
        if let (Some(v), Some(v2)) = (v, v2) {
            // axiom_ddiv_mono + axiom_rmul_mono
            let (lo, hi, vlo, vhi) = if n <= n2 { (n, n2, v, v2) } else { (n2, n, v2, v) };
            a.check_k(vlo <= vhi, f as u128 + n as u128 + d as u128, || format!("amount={} den={}: num={} -> {}e-28 > num={} -> {}e-28 (not monotone)", f, d, lo, vlo, hi, vhi));
        }
    }
    a.note_info(&rounded);
    a.note_info(&below);
    a.note_info(&above);

    // informational: axiom_rmul / axiom_rmul_mono are stated for every ratio value in [0,1] and every integer amount >= 0
    let g = Gen::new();
    let mut rng = Rng::new(seed, 141);
    let mut wide_bad = Info::new("beyond the audited range (any decimals 0<=a1<=a2<=1, amounts up to 2^96-1): comm/bounds/end-point/monotonicity violations");
    let mut wide = 0u64;
    let d28 = crate::gen::pow10_u128(28);
    for i in 0..iters {
        let s1 = rng.below(29) as u32;
        let s2 = rng.below(29) as u32;
        let mut r1 = dec(rng.below128_incl(crate::gen::pow10_u128(s1)), false, s1);
        let mut r2 = dec(rng.below128_incl(crate::gen::pow10_u128(s2)), false, s2);
        if i % 5 == 0 {
            // neighbours at 28 digits
            let m = rng.below128_incl(d28 - 1);
            r1 = dec(m, false, 28);
            r2 = dec(m + 1, false, 28);
        }
        if r1 > r2 {
            std::mem::swap(&mut r1, &mut r2);
        }
        let f = if i % 2 == 0 { g.n64(&mut rng) as u128 } else { rng.log_uniform(96) };
        let fd = dec(f, false, 0);
        wide += 1;
        let ok = match (r1.checked_mul(fd), fd.checked_mul(r1), r2.checked_mul(fd), dec(d28, false, 28).checked_mul(fd), dec(0, false, 28).checked_mul(fd)) {
            (Some(a1), Some(a1b), Some(a2), Some(one), Some(zero)) => {
                a1 == a1b && !q(&a1).is_neg() && q(&a1) <= q(&a2) && q(&a2) <= q(&fd) && one == fd && zero.is_zero()
            }
            _ => false,
        };
        if !ok {
            wide_bad.hit(i as u128, || format!("a1={} a2={} amount={}", show(&r1), show(&r2), f));
        }
    }
    a.note(format!("wide-range informational cases: {}", wide));
    a.note_info(&wide_bad);
    a
}

// ------------------------------------------------------------------------------------------------ 22, 23, 24
/// spec/42_lemmas_misc.rs axiom_ddiv_accuracy: -b <= 2 * (ddiv(of_int(a), of_int(b)) * b - a * D) <= b
pub fn a22(seed: u64, iters: u64) -> Assumption {
    let mut a = Assumption::new("A-DEC-DIV-22", "axiom_ddiv_accuracy: integers 0<=a<=b, b>=1 (b < 2^64 and b < 2^90): |2*(q_r*b - a*10^28)| <= b, i.e. the quotient is within 0.5e-28 of a/b");
    let g = Gen::new();
    let mut rng = Rng::new(seed, 22);
    let d28 = D();
    let mut n64 = 0u64;
    let mut n90 = 0u64;
    let mut at_bound = Info::new("quotients exactly 0.5e-28 away from a/b (allowed, <=)");
    let mut beyond = Info::new("beyond the audited range (2^90 <= b < 2^96): accuracy violations");
    let mut beyond_cases = 0u64;
    let mut one = |a: &mut Assumption, x: u128, b: u128, audited: bool| {
        let key = x.saturating_add(b);
        let r = catch_unwind(|| dec(x, false, 0).checked_div(dec(b, false, 0)));
        let ok_and_err = match r {
            Ok(Some(r)) => {
                let err2 = q(&r).mul(&Big::from_u128(b)).sub(&Big::from_u128(x).mul(&d28)).abs().mul_u64(2);
                let bb = Big::from_u128(b);
                if err2 == bb {
                    at_bound.hit(key, || format!("{} / {} = {}", x, b, show(&r)));
                }
                (err2 <= bb, format!("{} / {} = {}", x, b, show(&r)))
            }
            Ok(None) => (false, format!("{} / {} = None", x, b)),
            Err(_) => (false, format!("{} / {} panicked", x, b)),
        };
        if audited {
            a.check_k(ok_and_err.0, key, || format!("{} is more than 0.5e-28 away from the exact quotient", ok_and_err.1));
        } else {
            beyond_cases += 1;
            if !ok_and_err.0 {
                beyond.hit(key, || ok_and_err.1.clone());
            }
        }
    };
    for b in 1..=64u128 {
        for x in 0..=b {
            one(&mut a, x, b, true);
            n64 += 1;
        }
    }
    for &b in &[(1u128 << 64) - 1, 1 << 64, (1 << 64) + 1, 3u128.pow(40), 7u128.pow(22), 10u128.pow(19), 10u128.pow(27), (1 << 89) + 1, (1 << 90) - 1, (1u128 << 90) - 59, 6 * 10u128.pow(26) + 7] {
        for x in [0u128, 1, 2, 3, b / 7, b / 3, b / 3 + 1, b / 2 - 1, b / 2, b / 2 + 1, 2 * (b / 3), b - 3, b - 2, b - 1, b] {
            one(&mut a, x, b, true);
            n90 += 1;
        }
    }
    for i in 0..iters * 2 {
        let (b, wide) = if i % 2 == 0 { (gen_b64(&g, &mut rng) as u128, false) } else { (rng.log_uniform(90).max(1), true) };
        let x = match rng.below(6) {
            0 => b - (rng.below(4) as u128).min(b),
            1 => rng.below(4) as u128 % (b + 1),
            2 => rng.log_uniform(90) % (b + 1),
            _ => rng.next_u128() % (b + 1),
        };
        one(&mut a, x.min(b), b, true);
        if wide {
            n90 += 1
        } else {
            n64 += 1
        }
    }
    for _ in 0..iters / 2 {
        let b = (1u128 << 90) + rng.next_u128() % ((1u128 << 96) - (1u128 << 90));
        let x = rng.next_u128() % (b + 1);
        one(&mut a, x, b, false);
    }
    a.note(format!("cases with b < 2^64: {} ; with b < 2^90 (edge values and log-uniform): {}", n64, n90));
    a.note_info(&at_bound);
    a.note(format!("beyond-range informational cases: {}", beyond_cases));
    a.note_info(&beyond);
    a
}

/// spec/42_lemmas_misc.rs axiom_rmul_accuracy: -n <= rmul(r, of_int(n)) - r * n <= n   for 0 <= r <= D, n >= 0
pub fn a23(seed: u64, iters: u64) -> Assumption {
    let mut a = Assumption::new("A-DEC-DIV-23", "axiom_rmul_accuracy: r = a/b in [0,1] (integers, b < 2^64), integer n >= 0 (n < 2^64 and n < 2^96): y = r*n is Some and |q_y - q_r*n| <= n");
    let g = Gen::new();
    let mut rng = Rng::new(seed, 23);
    let mut n64 = 0u64;
    let mut nbig = 0u64;
    let mut worst = 0f64; // largest |err| / n
    let mut worst_desc = String::new();
    let mut exact = 0u64;
    let mut one = |a: &mut Assumption, x: u64, b: u64, n: u128| {
        let key = x as u128 + b as u128 + (n >> 8);
        let ratio = match div_u(x as u128, b as u128) {
            Ok(Some(r)) => r,
            _ => {
                a.check_k(false, key, || format!("{} / {} did not return a quotient", x, b));
                return;
            }
        };
        let nd = dec(n, false, 0);
        let (y1, y2) = (ratio.checked_mul(nd), nd.checked_mul(ratio));
        match (y1, y2) {
            (Some(y1), Some(y2)) => {
                let want = q(&ratio).mul(&Big::from_u128(n));
                let err = q(&y1).sub(&want).abs();
                let err2 = q(&y2).sub(&want).abs();
                let nb = Big::from_u128(n);
                a.check_k(err <= nb && err2 <= nb, key, || format!("({}/{} = {}) * {} = {} : |q_y - q_r*n| = {} > n", x, b, show(&ratio), n, show(&y1), err));
                if err.is_zero() {
                    exact += 1;
                } else if n > 0 {
                    let ratio_err = err.to_u128().map(|e| e as f64).unwrap_or(f64::INFINITY) / n as f64;
                    if ratio_err > worst {
                        worst = ratio_err;
                        worst_desc = format!("({}/{}) * {} = {}", x, b, n, show(&y1));
                    }
                }
            }
            _ => a.check_k(false, key, || format!("({}/{}) * {} = {:?} / {:?} (Some expected: 0 <= product <= n)", x, b, n, y1.map(|v| show(&v)), y2.map(|v| show(&v)))),
        }
    };
    for b in 1..=24u64 {
        for x in 0..=b {
            for n in [0u128, 1, 2, 3, 7, 9, 10, 12, 14, 15, 99, 1000, 999_999_999_999, u64::MAX as u128, (1u128 << 96) - 1, 10u128.pow(28), 3 * 10u128.pow(27) + 1] {
                one(&mut a, x, b, n);
                if n <= u64::MAX as u128 { n64 += 1 } else { nbig += 1 }
            }
        }
    }
    for i in 0..iters * 2 {
        let b = gen_b64(&g, &mut rng);
        let x = gen_a_le(&mut rng, b);
        let n = if i % 2 == 0 { g.n64(&mut rng) as u128 } else { g.m96(&mut rng) };
        one(&mut a, x, b, n);
        if n <= u64::MAX as u128 { n64 += 1 } else { nbig += 1 }
    }
    a.note(format!("cases with n < 2^64: {} ; with 2^64 <= n < 2^96: {} ; exact products: {}", n64, nbig, exact));
    a.note(format!("largest observed |q_y - q_r*n| / n: {:.4} (claimed bound 1) at {}", worst, worst_desc));
    a
}

/// conclusion of lemma_C09_nearest (spec/42_lemmas_misc.rs): inside 3*f*q < 10^28 the pipeline result is the nearest
/// integer to f*n/q; at an exact half-unit tie it is that value or one less
pub fn a24(seed: u64, iters: u64) -> Assumption {
    let mut a = Assumption::new("A-DEC-DIV-24", "lemma_C09_nearest: if 3*f*q < 10^28 then pipeline(f,n,q) == floor((2fn+q)/(2q)), or that value - 1 allowed only at an exact tie ((2fn+q) % (2q) == 0)");
    let g = Gen::new();
    let mut rng = Rng::new(seed, 24);
    let limit = D();
    let mut inside = 0u64;
    let mut ties = 0u64;
    let mut tie_low = Info::new("ties that give the lower value (allowed)");
    let mut tie_high = 0u64;
    let mut outside = 0u64;
    let mut out_nontie_diff = Info::new("OUTSIDE the premise (3fq >= 10^28): non-tie cases where the pipeline differs from nearest rounding (finding K1; see k1_example.json)");
    let mut out_tie_low = 0u64;
    let mut one = |a: &mut Assumption, f: u64, n: u64, qd: u64| {
        let key = f as u128 + n as u128 + qd as u128;
        let prem = Big::from_u64(f).mul(&Big::from_u64(qd)).mul_u64(3) < limit;
        let t = Big::from_u64(f).mul(&Big::from_u64(n)).mul_u64(2).add(&Big::from_u64(qd));
        let (half, _) = t.div_floor_u64(qd);
        let (k, even) = half.div_floor_u64(2); // floor(t / 2q)
        let tie = even && t.sub(&k.mul_u64(2).mul(&Big::from_u64(qd))).is_zero();
        let want = k.to_u128().unwrap();
        let got = prorata_real(f, n, qd).ok().and_then(|p| if p.v1 == p.v2 { p.v1 } else { None });
        let desc = || format!("fee={} num={} den={}: pipeline {:?}, nearest {}, tie={}", f, n, qd, got, want, tie);
        if prem {
            inside += 1;
            if tie {
                ties += 1;
                let ok = got == Some(want) || (want > 0 && got == Some(want - 1));
                a.check_k(ok, key, desc);
                if got == Some(want) {
                    tie_high += 1;
                } else if ok {
                    tie_low.hit(key, desc);
                }
            } else {
                a.check_k(got == Some(want), key, desc);
            }
        } else {
            outside += 1;
            a.cases += 1;
            if tie {
                if want > 0 && got == Some(want - 1) {
                    out_tie_low += 1;
                }
            } else if got != Some(want) {
                out_nontie_diff.hit(f as u128 * qd as u128, desc);
            }
        }
    };
    for qd in 1..=24u64 {
        for n in 0..=qd {
            for f in 0..=30u64 {
                one(&mut a, f, n, qd);
            }
        }
    }
    for i in 0..iters * 2 {
        // f*q just below the premise's limit most of the time: bits(f)+bits(q) <= 91
        let total = if i % 3 == 0 { rng.range(2, 91) as u32 } else { rng.range(80, 91) as u32 };
        let bq = rng.range(1, (total - 1).min(63) as u64) as u32;
        let bf = (total - bq).min(63);
        let qd = (rng.log_uniform(bq) as u64).max(1);
        let f = rng.log_uniform(bf) as u64;
        match i % 4 {
            0 => {
                // nearest non-ties
                let qo = (qd | 1).max(3);
                let two_f = ((2u128 * f as u128) % qo as u128) as u64;
                if let Some(inv) = inv_mod(two_f, qo) {
                    one(&mut a, f, inv.min(qo), qo);
                    one(&mut a, f, qo - inv.min(qo), qo);
                }
            }
            1 => {
                // exact ties: q = 2*c1*c2, n = c1*t (t odd), f = c2*odd
                let c1 = 1 + rng.log_uniform(bq.saturating_sub(2).min(30) / 2 + 1) as u64;
                let c2 = 1 + rng.log_uniform(bq.saturating_sub(2).min(30) / 2 + 1) as u64;
                let q2 = 2 * c1 * c2;
                let t = (rng.next_u64() % (2 * c2)) | 1;
                let odd = rng.log_uniform(bf.saturating_sub(32).max(1).min(30)) as u64 | 1;
                one(&mut a, c2.saturating_mul(odd), c1 * t, q2);
            }
            _ => one(&mut a, f, gen_a_le(&mut rng, qd), qd),
        }
    }
    // outside the premise: informational
    for i in 0..iters {
        let qd = (rng.log_uniform(63) as u64).max(1 << 40) | 1;
        let f = (g.n64(&mut rng)).max(1 << 40);
        if i % 2 == 0 {
            let two_f = ((2u128 * f as u128) % qd as u128) as u64;
            if let Some(inv) = inv_mod(two_f, qd) {
                one(&mut a, f, inv.min(qd), qd);
            }
        } else {
            one(&mut a, f, gen_a_le(&mut rng, qd), qd);
        }
    }
    one(&mut a, 10345233564266, 422874438330509, 513839360649213); // k1_example.json
    a.note(format!("cases inside the premise: {} ; exact ties among them: {} (upper value {} times, lower value {} times)", inside, ties, tie_high, tie_low.count));
    a.note_info(&tie_low);
    a.note(format!("cases outside the premise (informational): {} ; ties giving the lower value there: {}", outside, out_tie_low));
    a.note_info(&out_nontie_diff);
    a
}
