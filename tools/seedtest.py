#!/usr/bin/env python3
"""seedtest.py <seed_out_dir> <worktree> <prop> <name> [--props C01,C02]   (development aid)
   1. confirm in the scratch worktree: demo passes without the change, full suite green + demo fails with it
   2. apply the change to /repo, run ./check for the listed properties, undo it
   3. store /verif/seeded/<name>/{patch.diff,demo.diff,meta.json}"""
import json, os, re, subprocess, sys, shutil
src, wt, prop, name = sys.argv[1:5]
props = [prop]
if '--props' in sys.argv:
    props = sys.argv[sys.argv.index('--props') + 1].split(',')
V = '/verif'
def sh(cmd, cwd=None, timeout=3000):
    p = subprocess.run(cmd, shell=True, cwd=cwd, capture_output=True, text=True, timeout=timeout)
    return p.returncode, p.stdout + p.stderr
def clean():
    sh('git checkout -- . && git clean -fdq -e target', wt)
meta = {'property': prop, 'name': name, 'source': src}
clean()
rc, out = sh('git apply %s/demo.diff' % src, wt)
if rc: print('demo.diff does not apply', out); sys.exit(1)
rc, out = sh('cargo test --offline 2>&1 | grep -E "^test result|FAILED|panicked|failed" | head -20', wt)
meta['without_change'] = out.strip().split('\n')
ok_without = 'FAILED' not in out and 'test result: ok' in out
rc, out = sh('git apply %s/patch.diff' % src, wt)
if rc: print('patch.diff does not apply', out); sys.exit(1)
rc, out = sh('cargo test --offline 2>&1 | grep -E "^test result|FAILED|^test .* FAILED|failed" | head -20', wt)
meta['with_change'] = out.strip().split('\n')
m = re.search(r'test result: FAILED\. (\d+) passed; (\d+) failed', out)
demo_fails = bool(m) and int(m.group(2)) >= 1
meta['confirmed'] = {'demo_passes_without_change': ok_without, 'suite_with_change': m.group(0) if m else None, 'demo_fails_with_change': demo_fails}
# existing suite alone (without the demo) with the change
clean()
sh('git apply %s/patch.diff' % src, wt)
rc, out = sh('cargo test --offline 2>&1 | grep -E "^test result" | head -3', wt)
meta['existing_suite_with_change'] = out.strip().split('\n')
clean()
# now against /repo
rc, out = sh('git -C /repo status --short | grep -v "^??" | head -3')
if out.strip():
    print('/repo is dirty:', out); sys.exit(1)
rc, out = sh('git -C /repo apply %s/patch.diff' % src)
if rc: print('patch does not apply to /repo', out); sys.exit(1)
res = {}
try:
    for p in props:
        rc, out = sh('VERIF_EVIDENCE_DIR=/tmp/seed_evidence ./check %s' % p, V)
        lines = [l for l in out.split('\n') if l.startswith(('VIOLATION', 'UNDECIDED', 'OK', 'KNOWN'))]
        res[p] = {'exit': rc, 'lines': lines}
        print(p, rc, lines[:4])
finally:
    sh('git -C /repo checkout -- .')
meta['checks'] = res
meta['detected'] = res.get(prop, {}).get('exit') == 1
d = os.path.join(V, 'seeded', name)
os.makedirs(d, exist_ok=True)
shutil.copy(src + '/patch.diff', d + '/patch.diff')
shutil.copy(src + '/demo.diff', d + '/demo.diff')
if os.path.exists(src + '/notes.md'):
    shutil.copy(src + '/notes.md', d + '/notes.md')
json.dump(meta, open(d + '/meta.json', 'w'), indent=1)
print(json.dumps(meta['confirmed']), 'detected=', meta['detected'])
