#!/usr/bin/env python3
"""Generator: /repo/src/**/*.rs (current working tree) + /verif/shim + /verif/spec + /verif/contracts
   -> one single-file Verus input per mode.

   extract (verbatim text)  ->  drop/rewrite rules of DESIGN.md section 4  ->  weave contracts
   Every rule is token based; a rule that matches only partially raises GenError (=> exit 2).
"""
import hashlib
import json
import os
import re
import sys

sys.path.insert(0, os.path.dirname(os.path.abspath(__file__)))
from rustlex import lex, match_close, untok, Tok, CODE_KINDS, LexError  # noqa: E402

REPO = os.environ.get('VERIF_REPO', '/repo')
VERIF = os.path.dirname(os.path.dirname(os.path.abspath(__file__)))


SKIP_RX = re.compile(os.environ['VERIF_SKIP_LABELS']) if os.environ.get('VERIF_SKIP_LABELS') else None


class GenError(Exception):
    pass


# --------------------------------------------------------------------------------------
# helpers over token lists
# --------------------------------------------------------------------------------------
def code_toks(toks):
    return [t for t in toks if t.kind in CODE_KINDS]


def next_code(toks, k):
    k += 1
    while k < len(toks) and toks[k].kind not in CODE_KINDS:
        k += 1
    return k


def prev_code(toks, k):
    k -= 1
    while k >= 0 and toks[k].kind not in CODE_KINDS:
        k -= 1
    return k


def apply_edits(src, edits):
    """edits: list of (start, end, replacement); must not overlap"""
    edits = sorted(edits, key=lambda e: (e[0], e[1]))
    out, pos = [], 0
    for s, e, r in edits:
        if s < pos:
            raise GenError('overlapping edits at %d' % s)
        out.append(src[pos:s])
        out.append(r)
        pos = e
    out.append(src[pos:])
    return ''.join(out)


def seq_match(toks, k, pattern):
    """match a sequence of code-token texts starting at code token index k (index into toks);
    returns index after the last matched token or -1"""
    j = k
    for p in pattern:
        if j >= len(toks):
            return -1
        if toks[j].kind not in CODE_KINDS:
            return -1
        if p is not None and toks[j].text != p:
            return -1
        j = next_code(toks, j)
    return j


def line_of(src, pos):
    return src.count('\n', 0, pos) + 1


# --------------------------------------------------------------------------------------
# module discovery
# --------------------------------------------------------------------------------------
def discover_modules(src_root):
    """follow `pub mod x;` from lib.rs; skip test modules.  Returns list of (modpath, filepath)."""
    out = []

    def visit(modpath, path):
        src = open(path).read()
        toks = lex(src)
        k = 0
        depth = 0
        cfg_test_pending = False
        idx = [i for i, t in enumerate(toks) if t.kind in CODE_KINDS]
        subs = []
        p = 0
        while p < len(idx):
            i = idx[p]
            t = toks[i]
            if t.text in '{([':
                depth += 1
            elif t.text in '})]':
                depth -= 1
            if depth == 0 and t.text == '#':
                j = seq_match(toks, i, ['#', '[', 'cfg', '(', 'test', ')', ']'])
                if j > 0:
                    cfg_test_pending = True
            if depth == 0 and t.kind == 'ident' and t.text == 'mod':
                n = next_code(toks, i)
                semi = next_code(toks, n)
                if toks[semi].text == ';':
                    name = toks[n].text
                    if not cfg_test_pending and name != 'tests':
                        subs.append(name)
                cfg_test_pending = False
            elif depth == 0 and t.kind == 'ident' and t.text in ('fn', 'struct', 'enum', 'impl', 'use', 'const'):
                cfg_test_pending = False
            p += 1
        base = os.path.dirname(path)
        stem = os.path.splitext(os.path.basename(path))[0]
        for name in subs:
            cands = []
            if stem in ('lib', 'mod', 'main'):
                cands = [os.path.join(base, name + '.rs'), os.path.join(base, name, 'mod.rs')]
            else:
                cands = [os.path.join(base, stem, name + '.rs'), os.path.join(base, stem, name, 'mod.rs')]
            f = next((c for c in cands if os.path.exists(c)), None)
            if f is None:
                raise GenError('module file for %s::%s not found' % (modpath, name))
            sub = (modpath + '::' + name) if modpath else name
            out.append((sub, f))
            visit(sub, f)

    visit('', os.path.join(src_root, 'lib.rs'))
    return out


# --------------------------------------------------------------------------------------
# pass 0: strip #[cfg(test)] items and doc comments
# --------------------------------------------------------------------------------------
def strip_tests_and_docs(src):
    toks = lex(src)
    edits = []
    depth = 0
    k = 0
    n = len(toks)
    while k < n:
        t = toks[k]
        if t.kind == 'lcomment' and (t.text.startswith('///') or t.text.startswith('//!')):
            edits.append((t.start, t.end, ''))
        elif t.kind == 'punct':
            if t.text in '{([':
                depth += 1
            elif t.text in '})]':
                depth -= 1
            elif t.text == '#' and depth == 0:
                j = seq_match(toks, k, ['#', '[', 'cfg', '(', 'test', ')', ']'])
                if j > 0:
                    # remove the following item (through ; or matching })
                    m = j
                    while m < n:
                        tm = toks[m]
                        if tm.kind == 'punct' and tm.text == ';':
                            end = tm.end
                            break
                        if tm.kind == 'punct' and tm.text == '{':
                            end = toks[match_close(toks, m)].end
                            m = match_close(toks, m)
                            break
                        m += 1
                    else:
                        raise GenError('unterminated #[cfg(test)] item')
                    edits.append((t.start, end, ''))
                    k = m + 1
                    continue
        k += 1
    return apply_edits(src, edits)


# --------------------------------------------------------------------------------------
# pass 1: attributes and use lines
# --------------------------------------------------------------------------------------
DROP_ATTRS = {'derive', 'serde', 'error', 'deprecated', 'allow', 'entry_point', 'must_use', 'from'}
DROP_USE_CRATES = {'thiserror', 'schemars', 'serde'}


def strip_attrs_and_uses(src, report):
    toks = lex(src)
    edits = []
    n = len(toks)
    k = 0
    depth = 0
    while k < n:
        t = toks[k]
        if t.kind == 'punct' and t.text == '#':
            j = next_code(toks, k)
            if j < n and toks[j].text == '[':
                close = match_close(toks, j)
                name = toks[next_code(toks, j)].text
                if name in ('serde', 'derive'):
                    # the wire format of persisted / message types is an ASSUMED contract (A-SERDE, A-DERIVE): the
                    # attributes that define it are recorded and compared with the audited baseline
                    q = next_code(toks, close)
                    while q < n and toks[q].text == '#':
                        q = next_code(toks, match_close(toks, next_code(toks, q)))
                    while q < n and toks[q].text in ('pub', '(', 'crate', ')'):
                        q = next_code(toks, q)
                    if q < n and toks[q].text in ('struct', 'enum'):
                        q = next_code(toks, q)
                    item = toks[q].text if q < n else '?'
                    atxt = re.sub(r'\s+', '', src[toks[j].end:toks[close].start])
                    if name == 'derive':
                        kept = sorted(x for x in re.findall(r'\w+', atxt[len('derive'):]) if x in ('Serialize', 'Deserialize', 'PartialEq', 'Clone'))
                        atxt = 'derive(%s)' % ','.join(kept)
                    report.setdefault('wire_attrs', []).append('%s|%s|%s' % (report.get('_cur_mod', '?'), item, atxt))
                if name in DROP_ATTRS:
                    end = toks[close].end
                    # swallow one following whitespace run
                    edits.append((t.start, end, ''))
                    report['attrs_dropped'] = report.get('attrs_dropped', 0) + 1
                elif name in ('cfg', 'verifier'):
                    pass
                else:
                    raise GenError('unknown attribute #[%s ..] at byte %d' % (name, t.start))
                k = close + 1
                continue
        if t.kind == 'punct':
            if t.text in '{([':
                depth += 1
            elif t.text in '})]':
                depth -= 1
        if t.kind == 'ident' and t.text == 'use' and depth == 0:
            # find end ;
            m = k
            while toks[m].text != ';':
                m += 1
            j = next_code(toks, k)
            crate_name = toks[j].text
            start = t.start
            p = prev_code(toks, k)
            if p >= 0 and toks[p].text == 'pub':
                start = toks[p].start
            text = src[start:toks[m].end]
            if crate_name in DROP_USE_CRATES:
                edits.append((start, toks[m].end, ''))
                report['uses_dropped'] = report.get('uses_dropped', 0) + 1
            elif 'std::collections::HashSet' in text.replace(' ', ''):
                edits.append((start, toks[m].end, 'use crate::shim::std_collections::HashSet;'))
            elif crate_name == 'std' and 'str::FromStr' in text.replace(' ', ''):
                # std::str::FromStr is the trait rust_decimal implements; the shim re-exports its own
                edits.append((start, toks[m].end, 'use crate::shim::rust_decimal::prelude::FromStr;'))
            k = m + 1
            continue
        if t.kind == 'ident' and t.text == 'mod' and depth == 0:
            # `pub mod x;` declarations: dropped, generated file nests modules itself
            m = next_code(toks, next_code(toks, k))
            if toks[m].text == ';':
                start = t.start
                p = prev_code(toks, k)
                if p >= 0 and toks[p].text == 'pub':
                    start = toks[p].start
                edits.append((start, toks[m].end, ''))
                k = m + 1
                continue
        k += 1
    return apply_edits(src, edits)


# --------------------------------------------------------------------------------------
# pass 2: token rewrites R1..R12
# --------------------------------------------------------------------------------------
def find_receiver_start(toks, k_dot):
    """toks[k_dot] is the '.' before `iter`/`into_iter`/`range`; walk back over a path expression
    a.b.c / a.b.clone() / CONST and return index of its first token"""
    k = prev_code(toks, k_dot)
    while True:
        t = toks[k]
        if t.text == ')':
            # method call like .clone(): find its open paren
            depth = 0
            j = k
            while True:
                if toks[j].kind == 'punct' and toks[j].text == ')':
                    depth += 1
                elif toks[j].kind == 'punct' and toks[j].text == '(':
                    depth -= 1
                    if depth == 0:
                        break
                j -= 1
            k = prev_code(toks, j)  # method name
            if toks[k].kind != 'ident':
                raise GenError('receiver too complex')
        elif t.kind != 'ident':
            raise GenError('receiver too complex at byte %d' % t.start)
        p = prev_code(toks, k)
        if p >= 0 and toks[p].text == '.':
            k = prev_code(toks, p)
            continue
        return k



# --------------------------------------------------------------------------------------
# closure literals in argument position (rules R16 / R17 and the runner's "un-annotated closure" test)
# --------------------------------------------------------------------------------------
BENIGN_CLOSURE_SINKS = ('map_err', 'ok_or_else')   # the closure only builds the *error* value of a refusal
KEYWORDS_IN_BODY = {'if', 'match', 'return', 'while', 'for', 'loop', 'let', 'break', 'continue', 'unsafe', 'move',
                    'as', 'await', 'async', 'else'}


class Closure:
    """a closure literal `|params| body` that is an argument of a call"""
    __slots__ = ('bar0', 'bar1', 'params', 'arrow', 'body_lo', 'body_hi', 'block', 'method', 'open_paren', 'close_paren',
                 'arg_index', 'dot')


def find_arg_closures(toks):
    """closure literals whose first token directly follows `(` or `,` (argument position); returns Closure records
    with token indices"""
    res = []
    n = len(toks)
    for k in range(n):
        t = toks[k]
        if t.kind not in CODE_KINDS or t.text not in ('|', '||'):
            continue
        p = prev_code(toks, k)
        if p >= 0 and toks[p].text == 'move':
            p = prev_code(toks, p)
        if p < 0 or toks[p].text not in ('(', ','):
            continue
        c = Closure()
        c.bar0 = k
        if t.text == '||':
            c.bar1 = k
            c.params = ''
        else:
            j = next_code(toks, k)
            depth = 0
            while j < n:
                x = toks[j].text
                if x in ('(', '[', '<'):
                    depth += 1
                elif x in (')', ']', '>'):
                    depth -= 1
                elif x == '|' and depth == 0:
                    break
                j = next_code(toks, j)
            if j >= n:
                continue
            c.bar1 = j
            c.params = None
        a = next_code(toks, c.bar1)
        c.arrow = toks[a].text == '->'
        # enclosing call: walk back to the unmatched '('
        depth = 0
        j = k - 1
        commas = 0
        while j >= 0:
            if toks[j].kind in CODE_KINDS:
                x = toks[j].text
                if x in (')', ']', '}'):
                    depth += 1
                elif x in ('(', '[', '{'):
                    if depth == 0:
                        break
                    depth -= 1
                elif x == ',' and depth == 0:
                    commas += 1
            j -= 1
        if j < 0 or toks[j].text != '(':
            continue
        c.open_paren = j
        c.arg_index = commas
        try:
            c.close_paren = match_close(toks, j)
        except Exception:  # noqa
            continue
        m = prev_code(toks, j)
        # turbofish `method::<T>(`
        if m >= 0 and toks[m].text in ('>', '>>'):
            d2 = 0
            while m >= 0:
                if toks[m].text in ('>',):
                    d2 += 1
                elif toks[m].text == '>>':
                    d2 += 2
                elif toks[m].text == '<':
                    d2 -= 1
                    if d2 == 0:
                        break
                m = prev_code(toks, m)
            m = prev_code(toks, m)
            if m >= 0 and toks[m].text == '::':
                m = prev_code(toks, m)
        c.method = toks[m].text if m >= 0 and toks[m].kind == 'ident' else None
        d = prev_code(toks, m) if m >= 0 else -1
        c.dot = d if d >= 0 and toks[d].text == '.' else None
        if c.arrow:
            c.block, c.body_lo, c.body_hi = True, None, None
            res.append(c)
            continue
        if toks[a].text == '{':
            c.block = True
            c.body_lo = a
            try:
                c.body_hi = match_close(toks, a)
            except Exception:  # noqa
                continue
        else:
            c.block = False
            c.body_lo = a
            depth = 0
            j = a
            last = a
            while j < n:
                x = toks[j].text
                if x in ('(', '[', '{'):
                    depth += 1
                elif x in (')', ']', '}'):
                    if depth == 0:
                        break
                    depth -= 1
                elif x == ',' and depth == 0:
                    break
                last = j
                j = next_code(toks, j)
            c.body_hi = last
        res.append(c)
    return res


def closure_body_is_projection(toks, lo, hi):
    """the body is built from names, field / tuple projections, paths and struct / variant constructors only - text
    that means the same in a specification as in executable code (no calls of functions or methods, no operators,
    no macros, no control flow)"""
    j = lo
    while j <= hi:
        t = toks[j]
        if t.kind not in CODE_KINDS:
            j += 1
            continue
        x = t.text
        if t.kind == 'ident':
            if x in KEYWORDS_IN_BODY:
                return False
            nx = next_code(toks, j)
            if nx <= hi and toks[nx].text == '(' and not x[:1].isupper():
                return False
            if nx <= hi and toks[nx].text == '!':
                return False
        elif t.kind in ('num', 'int', 'number'):
            pv = prev_code(toks, j)
            if pv < lo or toks[pv].text != '.':
                return False
        elif t.kind == 'punct':
            if x not in ('.', '::', '{', '}', ':', ',', '(', ')', '&'):
                return False
        else:
            return False
        j += 1
    return True



# --------------------------------------------------------------------------------------
# vocabulary of library constructs (for the runner's "unfamiliar construct" test)
# --------------------------------------------------------------------------------------
_OPS = ('==', '!=', '<', '<=', '>', '>=', '+', '-', '*', '/', '%', '+=', '-=', '*=', '/=', '%=')


def _tok_class(t):
    if t is None:
        return '-'
    if t.kind in ('str', 'rawstr'):
        return 'str'
    if t.kind == 'num':
        return 'num'
    if t.kind == 'char':
        return 'chr'
    if t.kind == 'ident':
        return 'id'
    if t.text in ('&', '&&'):
        return '&'
    if t.text in ('|', '||'):
        return 'closure'
    if t.text in ('(', '[', '{', '*', '!', '-'):
        return t.text
    return 'o'


def call_shapes(text):
    """library-level constructs used by a piece of code, type-blind: method / associated-function / function calls with the
    leading token class of every argument, macros, two-segment paths used as values, binary operators with the classes of
    the adjacent tokens. Used only to tell whether changed code speaks a vocabulary the audited tree did not use."""
    toks = [t for t in lex(text) if t.kind in CODE_KINDS]
    n = len(toks)
    out = set()
    for i, t in enumerate(toks):
        if t.kind == 'ident' and i + 1 < n:
            nx = toks[i + 1]
            if nx.text == '!' and i + 2 < n and toks[i + 2].text in ('(', '[', '{'):
                out.add('macro %s!' % t.text)
                continue
            if nx.text == '(' or (nx.text == '::' and i + 2 < n and toks[i + 2].text == '<'):
                # find the opening paren (skip turbofish)
                j = i + 1
                if nx.text == '::':
                    d = 0
                    j = i + 2
                    while j < n:
                        if toks[j].text == '<':
                            d += 1
                        elif toks[j].text == '>':
                            d -= 1
                        elif toks[j].text == '>>':
                            d -= 2
                        if d <= 0:
                            break
                        j += 1
                    j += 1
                    if j >= n or toks[j].text != '(':
                        continue
                pv = toks[i - 1].text if i > 0 else ''
                if pv == 'fn':
                    continue
                if pv == '.':
                    head = '.%s' % t.text
                elif pv == '::' and i >= 2:
                    head = '%s::%s' % (toks[i - 2].text, t.text)
                else:
                    head = t.text
                # arguments
                depth = 0
                args = []
                expect = True
                k = j + 1
                while k < n:
                    x = toks[k].text
                    if x in (')', ']', '}') and depth == 0:
                        break
                    if expect:
                        args.append(_tok_class(toks[k]))
                        expect = False
                    if x in ('(', '[', '{'):
                        depth += 1
                    elif x in (')', ']', '}'):
                        depth -= 1
                    elif x == ',' and depth == 0:
                        expect = True
                    k += 1
                out.add('call %s(%s)' % (head, ','.join(args)))
                continue
            if nx.text == '::' and i + 2 < n and toks[i + 2].kind == 'ident' and t.text[:1].isupper():
                after = toks[i + 3].text if i + 3 < n else ''
                if after not in ('(', '::', '{', '<'):
                    out.add('path %s::%s' % (t.text, toks[i + 2].text))
        if t.kind == 'punct' and t.text in _OPS and 0 < i < n - 1:
            l, r = toks[i - 1], toks[i + 1]
            if t.text in ('<', '>') and (l.kind == 'ident' and l.text[:1].isupper() or r.kind == 'ident' and r.text[:1].isupper()
                                         or l.text == '::' or r.text in ('>', ',', '(')):
                continue          # generics
            if t.text in ('-', '*') and l.text in ('(', ',', '=', 'return', '{', ';', '=>'):
                continue          # unary
            out.add('op %s %s %s' % (_tok_class(l) if l.text != ')' else ')', t.text, _tok_class(r)))
    return out



def shim_vocabulary(shim_text):
    """what the shim declares with a contract: method names (type-blind), (Type, function) pairs and (Type, CONST) pairs"""
    toks = [t for t in lex(shim_text) if t.kind in CODE_KINDS]
    methods, assoc = set(), set()
    # assume_specification [ Type::name ] / [ <T as Trait>::name ] / [ Type::<..>::name ]
    for m in re.finditer(r'assume_specification(?:<[^\[]*>)?\s*\[\s*(.+?)\s*\]\s*\(', shim_text):
        path = re.sub(r'<[^<>]*>', '', re.sub(r'<[^<>]*>', '', m.group(1)))
        segs = [x for x in re.findall(r'[A-Za-z_]\w*', path)]
        if segs:
            methods.add(segs[-1])
            if len(segs) >= 2:
                assoc.add((segs[-2], segs[-1]))
    n = len(toks)
    i = 0
    while i < n:
        t = toks[i]
        if t.kind == 'ident' and t.text == 'impl':
            j = i + 1
            hdr = []
            while j < n and toks[j].text != '{':
                hdr.append(toks[j].text)
                j += 1
            if j >= n:
                break
            # the implementing type: after `for` if present, else first identifier after generics
            if 'for' in hdr:
                tail = hdr[hdr.index('for') + 1:]
            else:
                tail = hdr
                if tail and tail[0] == '<':
                    d = 0
                    for q, x in enumerate(tail):
                        if x == '<':
                            d += 1
                        elif x == '>':
                            d -= 1
                            if d == 0:
                                tail = tail[q + 1:]
                                break
            ty = next((x for x in tail if re.fullmatch(r'[A-Za-z_]\w*', x) and x not in ('dyn', 'mut')), None)
            # body
            depth = 0
            k = j
            while k < n:
                if toks[k].text == '{':
                    depth += 1
                elif toks[k].text == '}':
                    depth -= 1
                    if depth == 0:
                        break
                elif depth == 1 and toks[k].kind == 'ident' and toks[k].text == 'fn' and k + 1 < n:
                    name = toks[k + 1].text
                    # self parameter?
                    q = k + 2
                    while q < n and toks[q].text != '(':
                        q += 1
                    first = [toks[q + 1].text, toks[q + 2].text, toks[q + 3].text] if q + 3 < n else []
                    if 'self' in first:
                        methods.add(name)
                    if ty:
                        assoc.add((ty, name))
                elif depth == 1 and toks[k].kind == 'ident' and toks[k].text == 'const' and k + 1 < n and ty:
                    assoc.add((ty, toks[k + 1].text))
                k += 1
            i = k + 1
            continue
        if t.kind == 'ident' and t.text == 'fn' and i + 1 < n:
            assoc.add((None, toks[i + 1].text))
        i += 1
    return methods, assoc


def familiar_in_shim(shape, methods, assoc):
    m = re.match(r'call \.(\w+)\(', shape)
    if m:
        return m.group(1) in methods
    m = re.match(r'call (\w+)::(\w+)\(', shape)
    if m:
        return (m.group(1), m.group(2)) in assoc or (m.group(1) == 'Map' and ('CwMap', m.group(2)) in assoc)
    m = re.match(r'call (\w+)\(', shape)
    if m:
        return (None, m.group(1)) in assoc
    m = re.match(r'path (\w+)::(\w+)$', shape)
    if m:
        return (m.group(1), m.group(2)) in assoc
    return False


def opaque_format_uses(text):
    """format! invocations whose result is opaque to the verifier and is not a Debug rendering of one value (those feed
    only debug attributes / error fields): `format!("{}-{}", a, b)` and the like"""
    out = []
    for m in re.finditer(r'\bformat!\s*\(\s*("(?:[^"\\]|\\.)*")', text):
        lit = m.group(1)
        if re.fullmatch(r'"\{\w*:#?\?\}"', lit):
            continue
        out.append(lit)
    return out


def unannotated_value_closures(text):
    """(method, snippet) of every un-annotated closure literal whose result the verifier cannot see: argument-position
    closures without `-> (r: T) ensures` that are not the error-building argument of map_err / ok_or_else"""
    toks = lex(text)
    out = []
    for c in find_arg_closures(toks):
        if c.arrow or c.method in BENIGN_CLOSURE_SINKS:
            continue
        out.append((c.method, text[toks[c.bar0].start:toks[c.body_hi].end][:80]))
    return out


def rewrite_closures(src, modpath, report):
    """R16: `X.unwrap_or_else(|| E)`, `X.map_or_else(|| D, |p| E)`, `X.or_else(|| E)` (zero-argument first closure: the
          receiver is an Option) are replaced by the `match` that defines them - the closure body moves into the arm
          verbatim (only if it contains no `?` / `return`, whose meaning would change)
       R17: an un-annotated argument closure whose body is a projection / constructor expression gets the header
          `-> (ret__: _) ensures equal(ret__, BODY)`, BODY verbatim: Verus derives nothing from an un-annotated closure"""
    counts = report.setdefault('rules', {})
    toks = lex(src)
    cls = find_arg_closures(toks)
    edits = []
    taken = []

    def overlaps(a, b):
        return any(not (b <= x or a >= y) for x, y in taken)

    def body_text(c):
        if c.block:
            return src[toks[c.body_lo].start:toks[c.body_hi].end]
        return src[toks[c.body_lo].start:toks[c.body_hi].end]

    def has_escape(c):
        return any(toks[j].kind in CODE_KINDS and toks[j].text in ('?', 'return', 'break', 'continue')
                   for j in range(c.body_lo, c.body_hi + 1))

    by_call = {}
    for c in cls:
        by_call.setdefault(c.open_paren, []).append(c)
    # R16
    for op, group in by_call.items():
        c0 = group[0]
        if c0.method not in ('unwrap_or_else', 'map_or_else', 'or_else') or c0.dot is None or c0.arrow:
            continue
        if c0.arg_index != 0 or c0.params != '' or has_escape(c0):
            continue
        try:
            rs = find_receiver_start(toks, c0.dot)
        except GenError:
            continue
        recv = src[toks[rs].start:toks[c0.dot].start].strip()
        a, b = toks[rs].start, toks[c0.close_paren].end
        if overlaps(a, b):
            continue
        if c0.method == 'unwrap_or_else' and len(group) == 1:
            rep = '(match %s { Some(v__) => v__, None => %s })' % (recv, body_text(c0))
        elif c0.method == 'or_else' and len(group) == 1:
            rep = '(match %s { Some(v__) => Some(v__), None => %s })' % (recv, body_text(c0))
        elif c0.method == 'map_or_else' and len(group) == 2 and not group[1].arrow and not has_escape(group[1]) \
                and group[1].params is None:
            c1 = group[1]
            pat = src[toks[next_code(toks, c1.bar0)].start:toks[prev_code(toks, c1.bar1)].end]
            if ':' in pat:
                continue
            rep = '(match %s { Some(%s) => %s, None => %s })' % (recv, pat, body_text(c1), body_text(c0))
        else:
            continue
        edits.append((a, b, rep))
        taken.append((a, b))
        counts['R16'] = counts.get('R16', 0) + 1
    # R17
    for c in cls:
        if c.arrow or c.block:
            continue
        a, b = toks[c.bar0].start, toks[c.body_hi].end
        if overlaps(a, b):
            continue
        if not closure_body_is_projection(toks, c.body_lo, c.body_hi):
            continue
        body = body_text(c)
        head = src[toks[c.bar0].start:toks[c.bar1].end]
        edits.append((a, b, '%s -> (ret__: _) ensures equal(ret__, %s) { %s }' % (head, body, body)))
        taken.append((a, b))
        counts['R17'] = counts.get('R17', 0) + 1
    return apply_edits(src, edits) if edits else src


def rewrite_isolated(src, modpath, report, force_stub=()):
    """apply the token rules function by function: a body that falls outside the rules (or that the verifier
    could not translate on a previous attempt: force_stub) is replaced by `unimplemented!()`; its contract is then
    *assumed* (external_body) and every property with a clause on it is reported undecided, the others still run"""
    toks = lex(src)
    fns, _ = scan_items(toks, modpath)
    spans = sorted((toks[f.body_open].start, toks[f.body_close].end, f.qname) for f in fns if f.body_open is not None)
    out = []
    pos = 0
    for a, b, q in spans:
        if a < pos:
            continue
        out.append(rewrite_tokens(src[pos:a], modpath, report))
        if q in force_stub:
            report['unextractable'][q] = force_stub[q] if isinstance(force_stub, dict) else 'not translatable by the verifier'
            out.append('{ unimplemented!() }')
        else:
            try:
                out.append(rewrite_closures(rewrite_tokens(src[a:b], modpath, report), modpath, report))
            except GenError as e:
                report['unextractable'][q] = str(e)
                out.append('{ unimplemented!() }')
        pos = b
    out.append(rewrite_tokens(src[pos:], modpath, report))
    return ''.join(out)


def rewrite_tokens(src, modpath, report):
    counts = report.setdefault('rules', {})

    def bump(r):
        counts[r] = counts.get(r, 0) + 1

    toks = lex(src)
    edits = []
    n = len(toks)
    k = 0
    while k < n:
        t = toks[k]
        if t.kind not in CODE_KINDS:
            k += 1
            continue
        # R19  format!("{}", E) / format!("{name}")  ->  (E).to_string(): the definition of Display formatting with an
        #      empty format spec; every other format! stays opaque (D-d)
        if t.kind == 'ident' and t.text == 'format' and toks[next_code(toks, k)].text == '!':
            op = next_code(toks, next_code(toks, k))
            if toks[op].text == '(':
                cl = match_close(toks, op)
                a1 = next_code(toks, op)
                if toks[a1].kind == 'str':
                    lit = toks[a1].text
                    nx = next_code(toks, a1)
                    if lit == '"{}"' and toks[nx].text == ',':
                        arg = src[toks[nx].end:toks[cl].start].strip().rstrip(',').strip()
                        depth0_comma = False
                        d = 0
                        for q in range(nx + 1, cl):
                            x = toks[q].text
                            if x in ('(', '[', '{'):
                                d += 1
                            elif x in (')', ']', '}'):
                                d -= 1
                            elif x == ',' and d == 0 and next_code(toks, q) < cl:
                                depth0_comma = True
                        if not depth0_comma and arg:
                            edits.append((t.start, toks[cl].end, '(%s).to_string()' % arg))
                            bump('R19')
                            k = cl + 1
                            continue
                    m19 = re.fullmatch(r'"\{([A-Za-z_]\w*)\}"', lit)
                    if m19 and nx == cl:
                        edits.append((t.start, toks[cl].end, '(%s).to_string()' % m19.group(1)))
                        bump('R19')
                        k = cl + 1
                        continue
        # R20  X.parse::<T>()  ->  T::from_str(X)   (the definition of str::parse)
        if t.text == '.' and toks[next_code(toks, k)].text == 'parse':
            j20 = seq_match(toks, k, ['.', 'parse', '::', '<', None, '>', '(', ')'])
            if j20 > 0:
                ty = toks[next_code(toks, next_code(toks, next_code(toks, next_code(toks, k))))].text
                try:
                    rs = find_receiver_start(toks, k)
                except GenError:
                    rs = None
                if rs is not None and re.fullmatch(r'[A-Z]\w*', ty):
                    recv = src[toks[rs].start:toks[k].start].strip()
                    p20 = prev_code(toks, rs)
                    amp = ''
                    if p20 >= 0 and toks[p20].text == '&':
                        rs = p20
                        amp = '&'
                    last = prev_code(toks, j20)
                    edits.append((toks[rs].start, toks[last].end, '%s::from_str(&%s)' % (ty, recv)))
                    bump('R20')
                    k = j20
                    continue
        # R1  |_|  ->  |_e|
        j = seq_match(toks, k, ['|', '_', '|'])
        if j > 0:
            u = next_code(toks, k)
            edits.append((toks[u].start, toks[u].end, '_e'))
            bump('R1')
            k = j
            continue
        # R2  .unwrap()  -> .unwrap_abort()
        j = seq_match(toks, k, ['.', 'unwrap', '(', ')'])
        if j > 0:
            u = next_code(toks, k)
            edits.append((toks[u].start, toks[u].end, 'unwrap_abort'))
            bump('R2')
            k = j
            continue
        # R3  .map_err(ContractError::X) -> .map_err(|e| ContractError::X(e))
        j = seq_match(toks, k, ['map_err', '(', 'ContractError', '::', None, ')'])
        if j > 0:
            a = next_code(toks, next_code(toks, k))  # ContractError
            v = next_code(toks, next_code(toks, a))  # variant
            close = next_code(toks, v)
            edits.append((toks[a].start, toks[close].start,
                          '|e| ContractError::%s(e)' % toks[v].text))
            bump('R3')
            k = j
            continue
        # iterator chains:  RECV . iter|into_iter ( ) . map ( |x| BODY ) . sum::<T>() | .collect()
        if t.text == '.' and toks[next_code(toks, k)].text in ('iter', 'into_iter'):
            it_name = toks[next_code(toks, k)].text
            j = seq_match(toks, k, ['.', it_name, '(', ')'])
            if j > 0 and toks[j].text == '.':
                m = next_code(toks, j)
                meth = toks[m].text
                rs = find_receiver_start(toks, k)
                recv = src[toks[rs].start:toks[k].start]
                if meth == 'map':
                    op = next_code(toks, m)
                    cl = match_close(toks, op)
                    # closure |x| BODY
                    b1 = next_code(toks, op)
                    if toks[b1].text != '|':
                        raise GenError('R4/R5: map without closure in %s' % modpath)
                    x = next_code(toks, b1)
                    b2 = next_code(toks, x)
                    if toks[b2].text != '|':
                        raise GenError('R4/R5: closure with several params in %s' % modpath)
                    body = src[toks[b2].end:toks[cl].start].strip()
                    after = next_code(toks, cl)
                    if toks[after].text != '.':
                        raise GenError('R4/R5: map(..) not followed by adapter in %s' % modpath)
                    fin = next_code(toks, after)
                    if toks[fin].text == 'sum':
                        e = seq_match(toks, fin, ['sum', '::', '<', None, '>', '(', ')'])
                        if e < 0:
                            raise GenError('R4: sum pattern partially matched in %s' % modpath)
                        ty = toks[next_code(toks, next_code(toks, next_code(toks, fin)))].text
                        last = prev_code(toks, e)
                        if it_name != 'iter':
                            raise GenError('R4: only .iter() supported')
                        rep = ('{ let mut acc = %s::zero(); for %s in %s.iter() { acc = acc + (%s); } acc }'
                               % (ty, toks[x].text, recv, body))
                        edits.append((toks[rs].start, toks[last].end, rep))
                        bump('R4')
                        k = e
                        continue
                    if toks[fin].text == 'collect':
                        e = seq_match(toks, fin, ['collect', '(', ')'])
                        if e < 0:
                            raise GenError('R5: collect pattern partially matched')
                        last = prev_code(toks, e)
                        xn = toks[x].text
                        b = re.sub(r'\s+', '', body)
                        if it_name == 'into_iter' and b == xn + '.into()':
                            rep = 'collect_strings(%s)' % recv
                        elif it_name == 'into_iter' and b == xn + '.name':
                            rep = 'attr_names(%s)' % recv
                        elif it_name == 'into_iter' and b == xn + '.into_string()':
                            rep = 'addr_string_set(%s)' % recv
                        else:
                            raise GenError('R5: unknown map body %r in %s' % (body, modpath))
                        edits.append((toks[rs].start, toks[last].end, rep))
                        bump('R5')
                        k = e
                        continue
                    raise GenError('iterator chain .map(..).%s not covered by a rule in %s'
                                   % (toks[fin].text, modpath))
                if meth == 'collect' and it_name == 'into_iter':
                    e = seq_match(toks, m, ['collect', '(', ')'])
                    if e < 0:
                        raise GenError('R5: collect pattern partially matched')
                    last = prev_code(toks, e)
                    r2 = re.sub(r'\s+', '', recv)
                    if r2.endswith('.clone()'):
                        # the set of strings of a clone is the set of strings of the original
                        edits.append((toks[rs].start, toks[last].end, 'string_set_ref(&%s)' % r2[:-len('.clone()')]))
                    else:
                        edits.append((toks[rs].start, toks[last].end, 'string_set(%s)' % recv))
                    bump('R5')
                    k = e
                    continue
                if meth == 'any' and it_name == 'iter':
                    # R6  E.iter().any(|item| !S.contains(item))
                    op = next_code(toks, m)
                    cl = match_close(toks, op)
                    inner = re.sub(r'\s+', '', src[toks[op].end:toks[cl].start])
                    mm = re.fullmatch(r'\|(\w+)\|!(\w+)\.contains\(\1\)', inner)
                    if not mm:
                        # R6b  E.iter().any(|x| x == &Y) / x.eq(&Y) / *x == Y   ->  E.contains(&Y)   (definition of
                        #      `contains` for slices of PartialEq elements); Y must not mention x
                        raw_inner = src[toks[op].end:toks[cl].start].strip()
                        m2 = re.fullmatch(r'\|\s*(\w+)\s*\|\s*(?:\1\s*==\s*&\s*(.+)|\1\s*\.\s*eq\s*\(\s*&\s*(.+)\)|\*\s*\1\s*==\s*(.+))', raw_inner, re.S)
                        y = next((g for g in (m2.group(2), m2.group(3), m2.group(4)) if g), None) if m2 else None
                        if y and not re.search(r'\b%s\b' % re.escape(m2.group(1)), y) and not re.search(r'(\|\||&&|==|!=|[<>?;])', y):
                            edits.append((toks[k].start, toks[cl].end, '.contains(&%s)' % y.strip()))
                            bump('R6')
                            k = cl + 1
                            continue
                        raise GenError('R6: any(..) closure shape changed in %s: %s' % (modpath, inner))
                    edits.append((toks[rs].start, toks[cl].end,
                                  'any_missing(&%s, &%s)' % (recv.strip(), mm.group(2))))
                    bump('R6')
                    k = cl + 1
                    continue
                raise GenError('iterator adapter .%s().%s not covered by a rule in %s'
                               % (it_name, meth, modpath))
        # R7  BIDS_V2.range(store, None, None, Order::Ascending).filter_map(..).collect()
        if t.text == '.' and toks[next_code(toks, k)].text == 'range':
            m = next_code(toks, k)
            op = next_code(toks, m)
            cl = match_close(toks, op)
            args = re.sub(r'\s+', '', src[toks[op].end:toks[cl].start])
            rs = find_receiver_start(toks, k)
            recv = src[toks[rs].start:toks[k].start].strip()
            e = seq_match(toks, next_code(toks, cl), ['.', 'filter_map', '('])
            helper = 'keys_that_load'
            if e < 0:
                # same chain with `map_while`: stops at the first record that does not load
                e = seq_match(toks, next_code(toks, cl), ['.', 'map_while', '('])
                helper = 'keys_while_load'
            if e < 0:
                raise GenError('R7: range(..) not followed by filter_map / map_while')
            fop = prev_code(toks, e)
            fcl = match_close(toks, fop)
            inner = re.sub(r'\s+', '', src[toks[fop].end:toks[fcl].start])
            if not (re.fullmatch(r'\|(\w+)\|\1\.ok\(\)\.map\(\|(\w+)\|\2\.0\)', inner)
                    or re.fullmatch(r'\|(\w+)\|\1\.ok\(\)\.map\(\|\((\w+),_\w*\)\|\2\)', inner)):
                raise GenError('R7: filter_map closure shape changed: %s' % inner)
            e2 = seq_match(toks, next_code(toks, fcl), ['.', 'collect', '(', ')'])
            if e2 < 0:
                raise GenError('R7: filter_map not followed by collect()')
            am = re.fullmatch(r'(\w+),None,None,Order::(Ascending|Descending)', args)
            if not am:
                raise GenError('R7: range arguments changed: %s' % args)
            last = prev_code(toks, e2)
            edits.append((toks[rs].start, toks[last].end, '%s.%s(%s)' % (recv, helper, am.group(1))))
            bump('R7')
            k = e2
            continue
        # R13  generic bounds `Into<String>` / `Into<Addr>`  ->  shim traits with the same method and a spec
        j = seq_match(toks, k, [':', 'Into', '<', None])
        if j > 0 and toks[j].text in ('>', '>>'):
            a = next_code(toks, k)
            ty = toks[next_code(toks, next_code(toks, a))].text
            end = toks[j].start + 1       # `>>` closes two generic lists; only the first `>` is ours
            if ty == 'String':
                edits.append((toks[a].start, end, 'crate::shim::flat::conv::IntoStringS'))
            elif ty == 'Addr':
                edits.append((toks[a].start, end, 'crate::shim::flat::conv::IntoAddrS'))
            else:
                raise GenError('R13: bound Into<%s> has no shim trait' % ty)
            bump('R13')
            k = j + 1
            continue
        # R15  `x |= E;` / `x &= E;`  ->  `x = bor(x, E);` / `x = band(x, E);`  (shim trait for bool and the
        #      unsigned integers, both operands evaluated as with the operator; Verus has no `|`/`&` on bool)
        if t.kind == 'punct' and t.text in ('|=', '&='):
            lhs = prev_code(toks, k)
            if toks[lhs].kind == 'ident' and toks[prev_code(toks, lhs)].text in (';', '{', '}'):
                # rhs up to the terminating `;` at bracket depth 0
                j = next_code(toks, k)
                depth = 0
                e = j
                while True:
                    if toks[e].kind == 'punct' and toks[e].text in '([{':
                        depth += 1
                    elif toks[e].kind == 'punct' and toks[e].text in ')]}':
                        depth -= 1
                    elif toks[e].kind == 'punct' and toks[e].text == ';' and depth == 0:
                        break
                    e += 1
                fn = 'bor' if t.text == '|=' else 'band'
                name = toks[lhs].text
                edits.append((t.start, toks[j].start, '= crate::shim::flat::%s(%s, ' % (fn, name)))
                edits.append((toks[e].start, toks[e].start, ')'))
                bump('R15')
                k = k + 1
                continue
            raise GenError('R15: compound bit assignment with a complex left-hand side in %s' % modpath)
        # R14  Decimal::from(E) -> Decimal::from_abort(E): a trait-impl method cannot carry the strict-mode
        #      precondition (E < 2^96); the shim's inherent function is the same conversion with that contract
        j = seq_match(toks, k, ['Decimal', '::', 'from', '('])
        if j > 0:
            f = next_code(toks, next_code(toks, k))
            edits.append((toks[f].start, toks[f].end, 'from_abort'))
            bump('R14')
            k = j
            continue
        # R11  &mut dyn Storage / &dyn Storage / &dyn Api
        if t.text == 'dyn' and toks[next_code(toks, k)].text in ('Storage', 'Api'):
            j = next_code(toks, k)
            edits.append((t.start, toks[j].start, ''))
            bump('R11')
            k = j + 1
            continue
        # R10  Map<&[u8], T>  ->  Map<T>   (type position)
        j = seq_match(toks, k, ['Map', '<', '&', '[', 'u8', ']', ','])
        if j > 0:
            lt = next_code(toks, k)
            edits.append((toks[lt].end, toks[j].start, ''))
            bump('R10')
            k = j
            continue
        # R9/R10 const declarations
        if t.text == 'const' and toks[next_code(toks, k)].kind == 'ident' and \
                toks[next_code(toks, next_code(toks, k))].text == ':':
            name_i = next_code(toks, k)
            colon = next_code(toks, name_i)
            ty = next_code(toks, colon)
            if toks[ty].text in ('Map', 'Item'):
                edits.append((t.start, t.start, 'exec '))
                bump('R10c')
            elif toks[ty].text == '&' and toks[next_code(toks, ty)].text == 'str':
                edits.append((toks[ty].end, toks[ty].end, "'static "))
                bump('R9')
        # D-e env!("CARGO_...")
        j = seq_match(toks, k, ['env', '!', '('])
        if j > 0:
            cl = match_close(toks, prev_code(toks, j))
            key = toks[j].text.strip('"')
            val = report['cargo_env'].get(key)
            if val is None:
                raise GenError('env!(%s) unknown' % key)
            edits.append((t.start, toks[cl].end, json.dumps(val)))
            bump('D-e')
            k = cl + 1
            continue
        k += 1
    return apply_edits(src, edits)


# --------------------------------------------------------------------------------------
# item structure: functions, impls, types
# --------------------------------------------------------------------------------------
class FnInfo:
    def __init__(self):
        self.qname = None
        self.name = None
        self.kw = None        # index of `fn`
        self.params = []
        self.lparen = self.rparen = None
        self.arrow = None     # index of '->' or None
        self.body_open = self.body_close = None
        self.ret_text = None
        self.in_trait_impl = None


def scan_items(toks, modpath):
    """returns (fns, types, impls) found in this module text"""
    fns, types = [], []
    n = len(toks)

    def parse_fn(k, owner, trait_impl):
        f = FnInfo()
        f.kw = k
        nm = next_code(toks, k)
        f.name = toks[nm].text
        j = next_code(toks, nm)
        if toks[j].text == '<':
            # skip generics
            depth = 0
            while True:
                if toks[j].text == '<':
                    depth += 1
                elif toks[j].text == '>':
                    depth -= 1
                    if depth == 0:
                        break
                elif toks[j].text == '>>':
                    depth -= 2
                    if depth <= 0:
                        break
                j = next_code(toks, j)
            j = next_code(toks, j)
        if toks[j].text != '(':
            raise GenError('fn %s: expected ( at byte %d' % (f.name, toks[j].start))
        f.lparen = j
        f.rparen = match_close(toks, j)
        # params
        depth = 0
        cur = []
        parts = []
        for q in range(j + 1, f.rparen):
            tq = toks[q]
            if tq.kind == 'punct' and tq.text in '([{<':
                depth += 1
            elif tq.kind == 'punct' and tq.text in ')]}>':
                depth -= 1
            elif tq.kind == 'punct' and tq.text == '>>':
                depth -= 2
            if tq.kind == 'punct' and tq.text == ',' and depth == 0:
                parts.append(cur)
                cur = []
            else:
                cur.append(tq)
        if any(t.kind in CODE_KINDS for t in cur):
            parts.append(cur)
        for p in parts:
            names = []
            for tq in p:
                if tq.kind == 'punct' and tq.text == ':':
                    break
                if tq.kind == 'ident' and tq.text not in ('mut', 'ref'):
                    names.append(tq.text)
            if not names:
                raise GenError('fn %s: cannot find parameter name' % f.name)
            f.params.append(names[-1])
        j = next_code(toks, f.rparen)
        if toks[j].text == '->':
            f.arrow = j
        # body: first { at depth 0 (skipping where clauses; none have braces)
        while toks[j].text not in ('{', ';'):
            if toks[j].text in '([':
                j = match_close(toks, j)
            j = next_code(toks, j)
        if toks[j].text == ';':
            f.body_open = None
            f.body_close = j
        else:
            f.body_open = j
            f.body_close = match_close(toks, j)
            if f.arrow is not None:
                f.ret_text = untok(toks[f.arrow + 1:f.body_open]).strip()
        f.qname = '::'.join(x for x in (modpath, owner, f.name) if x)
        f.in_trait_impl = trait_impl
        return f

    k = 0
    depth = 0
    while k < n:
        t = toks[k]
        if t.kind == 'punct' and t.text in '{([':
            depth += 1
        elif t.kind == 'punct' and t.text in '})]':
            depth -= 1
        if depth == 0 and t.kind == 'ident':
            if t.text == 'fn':
                f = parse_fn(k, None, None)
                fns.append(f)
                k = f.body_close + 1
                continue
            if t.text in ('struct', 'enum'):
                nm = next_code(toks, k)
                j = next_code(toks, nm)
                while toks[j].text not in ('{', ';', '('):
                    j = next_code(toks, j)
                if toks[j].text in ('{', '('):
                    cl = match_close(toks, j)
                else:
                    cl = j
                types.append((t.text, toks[nm].text, k, j, cl))
                k = cl + 1
                continue
            if t.text in ('impl', 'trait'):
                j = next_code(toks, k)
                hdr = []
                while toks[j].text != '{':
                    hdr.append(toks[j].text)
                    j = next_code(toks, j)
                # drop leading generics of impl<..>
                h = hdr
                if h and h[0] == '<':
                    d = 0
                    for q, x in enumerate(h):
                        if x == '<':
                            d += 1
                        elif x == '>':
                            d -= 1
                            if d == 0:
                                h = h[q + 1:]
                                break
                htxt = ''.join(h)
                if t.text == 'trait':
                    owner, trait_impl = htxt, None
                elif 'for' in h:
                    q = h.index('for')
                    owner = '<%s:%s>' % (''.join(h[:q]), ''.join(h[q + 1:]))
                    trait_impl = ''.join(h[:q])
                else:
                    owner, trait_impl = htxt, None
                cl = match_close(toks, j)
                q = j + 1
                d2 = 0
                while q < cl:
                    tq = toks[q]
                    if tq.kind == 'punct' and tq.text in '{([':
                        d2 += 1
                    elif tq.kind == 'punct' and tq.text in '})]':
                        d2 -= 1
                    if d2 == 0 and tq.kind == 'ident' and tq.text == 'fn':
                        f = parse_fn(q, owner, trait_impl)
                        fns.append(f)
                        q = f.body_close + 1
                        continue
                    q += 1
                k = cl + 1
                continue
        k += 1
    return fns, types


# --------------------------------------------------------------------------------------
# contracts file parsing
# --------------------------------------------------------------------------------------
class Clause:
    def __init__(self, kind, label, props, mode, text, where):
        self.kind, self.label, self.props, self.mode, self.text, self.where = \
            kind, label, props, mode, text, where


class LoopC:
    def __init__(self):
        self.iter = None
        self.clauses = []      # invariant / decreases
        self.entry = ''        # proof text at body entry
        self.exit = ''


class ClosureC:
    def __init__(self):
        self.params = None
        self.ret = None
        self.clauses = []


class FnContract:
    def __init__(self, qname):
        self.qname = qname
        self.params = None
        self.ret = 'r'
        self.clauses = []
        self.entry = ''
        self.final = ''
        self.loops = {}
        self.closures = {}
        self.note = ''
        self.src = None
        self.attrs = []
        self.modes = None
        self.groups = []
        self.strict = False


def parse_kv(rest):
    """label props=C01,C02 mode=strict"""
    parts = rest.split()
    label = parts[0] if parts and '=' not in parts[0] else None
    kv = {}
    for p in parts[(1 if label else 0):]:
        if '=' in p:
            a, b = p.split('=', 1)
            kv[a] = b
    return label, kv


def parse_contracts(paths):
    contracts = {}
    lemma_meta = []
    for path in paths:
        cur = None
        target = None    # object receiving clauses
        clause = None
        textmode = None
        lines = open(path).read().split('\n')

        def flush():
            nonlocal clause, textmode
            clause = None
            textmode = None

        for ln, line in enumerate(lines, 1):
            s = line.strip()
            if s.startswith('@'):
                flush()
                d, _, rest = s[1:].partition(' ')
                rest = rest.strip()
                where = '%s:%d' % (os.path.basename(path), ln)
                if d == 'fn':
                    m = re.fullmatch(r'(\S+)\s+params\(([^)]*)\)(?:\s+ret\((\w+)\))?(?:\s+modes\(([\w,]+)\))?', rest)
                    if not m:
                        raise GenError('%s: bad @fn line' % where)
                    cur = FnContract(m.group(1))
                    cur.params = m.group(2).split()
                    cur.ret = m.group(3) or 'r'
                    cur.modes = m.group(4).split(',') if m.group(4) else None
                    cur.src = where
                    if cur.qname in contracts:
                        raise GenError('%s: duplicate contract for %s' % (where, cur.qname))
                    contracts[cur.qname] = cur
                    target = cur
                elif d == 'end':
                    cur = None
                    target = None
                elif cur is None:
                    raise GenError('%s: directive outside @fn' % where)
                elif d in ('requires', 'ensures', 'invariant', 'decreases', 'invariant_except_break',
                           'ensures_loop'):
                    label, kv = parse_kv(rest)
                    props = [p for p in kv.get('props', '').split(',') if p]
                    clause = Clause(d, label, props, kv.get('mode', 'both'), '', where)
                    target.clauses.append(clause)
                    textmode = 'clause'
                elif d == 'entry':
                    textmode = 'entry'
                elif d == 'final':
                    textmode = 'final'
                elif d == 'loop':
                    m = re.fullmatch(r'(\d+)(?:\s+iter\((\w+)\))?', rest)
                    lc = LoopC()
                    lc.iter = m.group(2)
                    cur.loops[int(m.group(1))] = lc
                    target = lc
                elif d == 'loop_entry':
                    textmode = 'loop_entry'
                elif d == 'loop_exit':
                    textmode = 'loop_exit'
                elif d == 'closure':
                    m = re.fullmatch(r'(\d+)\s+params\((.*?)\)\s+ret\((.*)\)', rest)
                    if not m:
                        raise GenError('%s: bad @closure line' % where)
                    cc = ClosureC()
                    cc.params, cc.ret = m.group(2), m.group(3)
                    cur.closures[int(m.group(1))] = cc
                    target = cc
                elif d == 'group':
                    m = re.fullmatch(r'(\w+)\s+labels\(([^)]*)\)(?:\s+mode=(\w+))?', rest)
                    if not m:
                        raise GenError('%s: bad @group line' % where)
                    cur.groups.append({'name': m.group(1), 'labels': m.group(2).split(), 'atoms': [],
                                       'assume': [], 'mode': m.group(3) or 'both'})
                    textmode = 'atoms'
                elif d == 'strict':
                    cur.strict = True
                elif d == 'fnlevel':
                    target = cur
                elif d == 'attr':
                    cur.attrs.append(rest)
                elif d == 'note':
                    cur.note += rest + '\n'
                else:
                    raise GenError('%s: unknown directive @%s' % (where, d))
                continue
            if s.startswith('#') and textmode is None:
                continue
            if textmode == 'clause':
                clause.text += line + '\n'
            elif textmode == 'atoms':
                if s.startswith('assume '):
                    cur.groups[-1]['assume'].append(s[len('assume '):])
                elif s:
                    cur.groups[-1]['atoms'].append(s)
            elif textmode == 'entry':
                cur.entry += line + '\n'
            elif textmode == 'final':
                cur.final += line + '\n'
            elif textmode == 'loop_entry':
                target.entry += line + '\n'
            elif textmode == 'loop_exit':
                target.exit += line + '\n'
    return contracts


# --------------------------------------------------------------------------------------
# pass 3: weave
# --------------------------------------------------------------------------------------
def rename_params(text, mapping):
    """alpha-rename contract parameter names to the names found in the real signature: identifier tokens only
    (never inside string literals or comments), and not field names (`x.id`) or path segments (`a::id`)"""
    if not mapping:
        return text
    toks = lex(text)
    out = []
    for k, t in enumerate(toks):
        if t.kind == 'ident' and t.text in mapping:
            p = prev_code(toks, k)
            n = next_code(toks, k)
            if (p >= 0 and toks[p].text in ('.', '::')) or (n < len(toks) and toks[n].text == '::'):
                out.append(t.text)
            else:
                out.append(mapping[t.text])
        else:
            out.append(t.text)
    return ''.join(out)


def clause_block(clauses, kind, fq, mode, mapping, indent='    '):
    out = []
    for c in clauses:
        if c.kind != kind:
            continue
        if c.mode not in ('both', mode):
            continue
        if SKIP_RX and c.label and SKIP_RX.search('%s::%s' % (fq, c.label)):
            continue      # development aid only (VERIF_SKIP_LABELS); never set by the checks
        txt = rename_params(c.text.rstrip(), mapping).rstrip().rstrip(',')
        if not txt.strip():
            raise GenError('%s: empty clause %s' % (c.where, c.label))
        lab = '%s::%s' % (fq, c.label) if c.label else '%s::<unlabelled>' % fq
        out.append('%s/*@L %s props=%s*/\n%s%s,\n/*@E*/' % (indent, lab, ','.join(c.props), '', txt))
    return '\n'.join(out)


def find_loops_and_closures(toks, lo, hi):
    loops, closures = [], []
    k = lo
    while k < hi:
        t = toks[k]
        if t.kind == 'ident' and t.text in ('for', 'while', 'loop'):
            if t.text == 'for':
                # skip `for<'a>` (HRTB) – not present; require `in`
                j = k
                in_i = None
                while j < hi:
                    j = next_code(toks, j)
                    if toks[j].kind == 'ident' and toks[j].text == 'in':
                        in_i = j
                        break
                    if toks[j].text in ('{', ';'):
                        break
                if in_i is None:
                    k += 1
                    continue
                j = in_i
            else:
                j = k
            # body: first `{` at bracket depth 0
            while True:
                j = next_code(toks, j)
                if toks[j].text in '([':
                    j = match_close(toks, j)
                    continue
                if toks[j].text == '{':
                    break
            loops.append((t.text, k, in_i if t.text == 'for' else None, j, match_close(toks, j)))
        elif t.kind == 'punct' and t.text == '|':
            p = prev_code(toks, k)
            if toks[p].text in ('(', ',', '=') or (toks[p].kind == 'ident' and toks[p].text in ('return', 'move')):
                # closure params up to next '|'
                j = next_code(toks, k)
                while toks[j].text != '|':
                    j = next_code(toks, j)
                after = next_code(toks, j)
                arrow = after if toks[after].text == '->' else None
                b = after
                if arrow is not None:
                    while toks[b].text != '{':
                        b = next_code(toks, b)
                # only closures with an explicit return type and a block body take a contract (rule R8);
                # ordinals count those only
                r17 = arrow is not None and toks[next_code(toks, next_code(toks, arrow))].text == 'ret__'
                if arrow is not None and toks[b].text == '{' and not r17:
                    closures.append((k, j, arrow, b))
                k = j + 1
                continue
        k += 1
    return loops, closures



def make_role_resolver(src, toks, f, loops):
    """contract text names the locals a loop invariant / closure contract has to talk about by their ROLE in the code,
    so that renaming a local is not a lost anchor:  $iterN  = the collection loop N iterates (`for x in [&]E[.iter()]`),
    $pushN = the vector that receives `.push(..)` in the body of loop N,  $let{INIT} = the variable bound by
    `let [mut] v[: T] = INIT...;` (INIT compared without white space, as a prefix)"""
    def strip_ws(x):
        return re.sub(r'\s+', '', x)

    def iter_of(n):
        if n >= len(loops):
            raise GenError('%s: $iter%d but the body has %d loops (lost anchor)' % (f.qname, n, len(loops)))
        kind, kw, in_i, bopen, bclose = loops[n]
        if kind != 'for' or in_i is None:
            raise GenError('%s: $iter%d: loop is not a for loop (lost anchor)' % (f.qname, n))
        e = strip_ws(src[toks[in_i].end:toks[bopen].start])
        e = re.sub(r'^\w+:', '', e)          # ghost iterator name already woven
        e = re.sub(r'^&(mut)?', '', e)
        e = re.sub(r'(\.iter\(\)|\.into_iter\(\)|\.clone\(\)|\.iter_mut\(\))+$', '', e)
        if not re.fullmatch(r'[A-Za-z_][\w.]*', e):
            raise GenError('%s: $iter%d: iterated expression %r is not a path (lost anchor)' % (f.qname, n, e))
        return e

    def push_of(n):
        if n >= len(loops):
            raise GenError('%s: $push%d but the body has %d loops (lost anchor)' % (f.qname, n, len(loops)))
        kind, kw, in_i, bopen, bclose = loops[n]
        k = bopen
        while k < bclose:
            if toks[k].kind in CODE_KINDS and toks[k].text == '.' and seq_match(toks, k, ['.', 'push', '(']) > 0:
                rs = find_receiver_start(toks, k)
                return strip_ws(src[toks[rs].start:toks[k].start])
            k += 1
        raise GenError('%s: $push%d: no push in loop %d (lost anchor)' % (f.qname, n, n))

    def let_of(prefix):
        want = strip_ws(prefix)
        found = []
        k = f.body_open
        while k < f.body_close:
            t = toks[k]
            if t.kind == 'ident' and t.text == 'let':
                j = next_code(toks, k)
                if toks[j].text == 'mut':
                    j = next_code(toks, j)
                name = toks[j]
                e = next_code(toks, j)
                # optional type annotation up to '=' at depth 0
                depth = 0
                while e < f.body_close and not (toks[e].text == '=' and depth == 0):
                    if toks[e].text in ('<', '(', '['):
                        depth += 1
                    elif toks[e].text in ('>', ')', ']'):
                        depth -= 1
                    elif toks[e].text == '>>':
                        depth -= 2
                    elif toks[e].text == ';':
                        break
                    e = next_code(toks, e)
                if e < f.body_close and toks[e].text == '=' and name.kind == 'ident':
                    init = strip_ws(src[toks[e].end:toks[e].end + 4 * len(prefix) + 200])
                    if init.startswith(want):
                        found.append(name.text)
            k += 1
        found = sorted(set(found))
        if len(found) != 1:
            raise GenError('%s: $let{%s}: %d matching let statements (lost anchor)' % (f.qname, prefix, len(found)))
        return found[0]

    def resolve(text):
        if '$' not in text:
            return text
        text = re.sub(r'\$iter(\d+)', lambda m: iter_of(int(m.group(1))), text)
        text = re.sub(r'\$push(\d+)', lambda m: push_of(int(m.group(1))), text)
        text = re.sub(r'\$let\{([^}]*)\}', lambda m: let_of(m.group(1)), text)
        return text
    return resolve


def fn_edits(src, toks, f, c, mode, mapping, variant):
    """edits (absolute positions in src) that weave contract c into function f.
    variant: {'suffix': str|None, 'labels': set|None (ensures labels kept), 'extra_requires': [str],
              'external_body': bool, 'marker': str}"""
    edits = []
    clauses = c.clauses
    if variant['labels'] is not None:
        clauses = [x for x in clauses if x.kind != 'ensures' or x.label in variant['labels']]
    req = clause_block(clauses, 'requires', f.qname, mode, mapping)
    ens = clause_block(clauses, 'ensures', f.qname, mode, mapping)
    extra = ''.join('    %s,\n' % rename_params(x, mapping) for x in variant['extra_requires'])
    spec = ''
    if req or extra:
        spec += '\n    requires\n' + extra + req
    if ens:
        spec += '\n    ensures\n' + ens
    pre = '/*@F %s*/ ' % variant['marker']
    attrs = ''.join('#[%s]\n' % a for a in c.attrs)
    if variant['external_body']:
        if variant.get('note') == 'UNEXTRACTABLE':
            attrs += '#[verifier::external_body] /*@UNEXTRACTABLE: body outside the extraction rules; contract assumed, properties on it undecided*/\n'
        elif variant.get('note') == 'VACUITY-ORIGINAL':
            attrs += '#[verifier::external_body] /*@VACUITY-ORIGINAL: not verified in the vacuity file*/\n'
        elif variant.get('note') == 'NOT-IN-STRICT':
            attrs += '#[verifier::external_body] /*@NOT-IN-STRICT: contract proved in lenient mode, assumed here*/\n'
        else:
            attrs += '#[verifier::external_body] /*@SPLIT-ORIGINAL: every ensures clause is proved on the copies below*/\n'
    p = prev_code(toks, f.kw)
    item_start = toks[p].start if p >= 0 and toks[p].text == 'pub' else toks[f.kw].start
    if attrs:
        edits.append((item_start, item_start, attrs))
    edits.append((toks[f.kw].start, toks[f.kw].start, pre))
    if variant['suffix']:
        nm = next_code(toks, f.kw)
        edits.append((toks[nm].end, toks[nm].end, variant['suffix']))
    if f.arrow is not None:
        edits.append((toks[f.arrow].end, toks[f.body_open].start,
                      ' (%s: %s)%s\n' % (c.ret, f.ret_text, spec)))
    else:
        edits.append((toks[f.rparen].end, toks[f.body_open].start, '%s\n' % spec))
    entry = rename_params(c.entry, mapping)
    loops, closures = find_loops_and_closures(toks, f.body_open + 1, f.body_close)
    if variant['external_body']:
        # the body is not verified: no proof text, invariants or closure contracts are woven into it
        return edits, item_start, len(loops), len(closures)
    resolve = make_role_resolver(src, toks, f, loops)
    if entry.strip():
        edits.append((toks[f.body_open].end, toks[f.body_open].end, '\n' + resolve(entry)))
    for ordinal, lc in c.loops.items():
        if ordinal >= len(loops):
            raise GenError('%s: contract names loop#%d but the body has %d loops (lost anchor)'
                           % (f.qname, ordinal, len(loops)))
        kind, kw, in_i, bopen, bclose = loops[ordinal]
        lab = '%s::loop#%d' % (f.qname, ordinal)
        inv = clause_block(lc.clauses, 'invariant', lab, mode, mapping, indent='        ')
        dec = [rename_params(x.text.strip().rstrip(','), mapping) for x in lc.clauses if x.kind == 'decreases']
        txt = ''
        if inv:
            txt += '\n        invariant\n' + inv
        if dec:
            txt += '\n        decreases ' + ', '.join(dec) + ','
        if kind == 'for' and lc.iter:
            edits.append((toks[in_i].end, toks[in_i].end, ' %s:' % lc.iter))
        edits.append((toks[bopen].start, toks[bopen].start, resolve(txt) + '\n    '))
        if lc.entry.strip():
            edits.append((toks[bopen].end, toks[bopen].end, '\n' + resolve(rename_params(lc.entry, mapping))))
        if lc.exit.strip():
            edits.append((toks[bclose].start, toks[bclose].start, resolve(rename_params(lc.exit, mapping)) + '\n'))
    for ordinal, cc in c.closures.items():
        if ordinal >= len(closures):
            raise GenError('%s: contract names closure#%d but the body has %d closures (lost anchor)'
                           % (f.qname, ordinal, len(closures)))
        b1, b2, arrow, bopen = closures[ordinal]
        lab = '%s::closure#%d' % (f.qname, ordinal)
        creq = clause_block(cc.clauses, 'requires', lab, mode, mapping, indent='            ')
        cens = clause_block(cc.clauses, 'ensures', lab, mode, mapping, indent='            ')
        hdr = '|%s| -> (%s)' % (rename_params(cc.params, mapping), cc.ret)
        if creq:
            hdr += '\n            requires\n' + creq
        if cens:
            hdr += '\n            ensures\n' + cens
        edits.append((toks[b1].start, toks[bopen].start, resolve(hdr) + '\n        '))
    return edits, item_start, len(loops), len(closures)


def weave(src, modpath, contracts, mode, report, used, vacuity_props=None):
    toks = lex(src)
    fns, types = scan_items(toks, modpath)
    edits = []
    for f in fns:
        if f.body_open is None:
            continue
        c = contracts.get(f.qname)
        body_text = src[toks[f.body_open].start:toks[f.body_close].end]
        finfo = {'qname': f.qname, 'params': f.params,
                 'body_sha256': hashlib.sha256(body_text.encode()).hexdigest(),
                 'contracted': c is not None}
        try:
            finfo['shapes'] = sorted(call_shapes(body_text))
        except Exception:  # noqa
            finfo['shapes'] = ['<unreadable>']
        report['functions'].append(finfo)
        if c is None:
            edits.append((toks[f.kw].start, toks[f.kw].start, '/*@F %s*/ ' % f.qname))
            continue
        used.add(f.qname)
        if len(c.params) != len(f.params):
            raise GenError('signature of %s changed: contract has %d params, code has %d'
                           % (f.qname, len(c.params), len(f.params)))
        mapping = {a: b for a, b in zip(c.params, f.params) if a != b}
        groups = [g for g in c.groups if g['mode'] in ('both', mode)]
        # an anchor of the contract that the body no longer has (a loop or closure that was refactored away) takes this
        # function out of reach only: it is stubbed (contract assumed) and its properties are reported undecided
        for attempt in (0, 1):
            mark = len(edits)
            try:
                if f.qname in report.get('unextractable', {}):
                    e, _, nl, nc = fn_edits(src, toks, f, c, mode, mapping,
                                            {'suffix': None, 'labels': None, 'extra_requires': [],
                                             'external_body': True, 'marker': f.qname, 'note': 'UNEXTRACTABLE'})
                    edits.extend(e)
                    finfo['unextractable'] = report['unextractable'][f.qname]
                elif vacuity_props is not None:
                    # vacuity file: nothing is re-verified; for every function carrying a clause of the property a twin
                    # claims the opposite of reachability (`r is Err` / `false`) under the same preconditions - it MUST fail
                    e, item_start, nl, nc = fn_edits(src, toks, f, c, mode, mapping,
                                                     {'suffix': None, 'labels': None, 'extra_requires': [],
                                                      'external_body': True, 'marker': f.qname, 'note': 'VACUITY-ORIGINAL'})
                    edits.extend(e)
                    relevant = any((set(x.props) & set(vacuity_props)) or '*' in x.props
                                   for x in c.clauses if x.kind == 'ensures' and x.mode in ('both', mode) and x.label != 'inv.wf')
                    takes_part = (mode != 'strict' or c.strict)
                    if relevant and takes_part and not f.in_trait_impl:
                        is_result = f.ret_text is not None and re.match(r'(Result|StdResult)\b', f.ret_text or '')
                        variants = []
                        gl = [g for g in groups if g.get('assume')]
                        if gl:
                            for g in gl:
                                if any(a.strip() == 'false' for a in g['assume']):
                                    continue
                                variants.append((g['name'], list(g['assume'])))
                        else:
                            variants.append(('all', []))
                        end = toks[f.body_close].end
                        copies = []
                        for vname, extra in variants:
                            vc = FnContract(c.qname)
                            vc.params, vc.ret, vc.entry, vc.loops, vc.closures, vc.attrs = c.params, c.ret, c.entry, c.loops, c.closures, c.attrs
                            vc.clauses = [x for x in c.clauses if x.kind == 'requires'] + [
                                Clause('ensures', 'vacuity.%s' % vname, ['*'], 'both',
                                       ('%s is Err' % c.ret) if is_result else 'false', 'generated')]
                            ce, cstart, _, _ = fn_edits(src, toks, f, vc, mode, mapping,
                                                        {'suffix': '__vac_%s' % vname, 'labels': None, 'extra_requires': extra,
                                                         'external_body': False, 'marker': '%s#vac#%s' % (f.qname, vname)})
                            rel = [(a - cstart, b - cstart, t) for a, b, t in ce]
                            txt = apply_edits(src[cstart:end], rel)
                            if txt.startswith('pub '):
                                txt = txt[4:]
                            copies.append(txt)
                        edits.append((end, end, '\n' + '\n'.join(copies) + '\n'))
                        finfo['vacuity_twins'] = [v[0] for v in variants]
                elif mode == 'strict' and not c.strict:
                    e, _, nl, nc = fn_edits(src, toks, f, c, mode, mapping,
                                            {'suffix': None, 'labels': None, 'extra_requires': [],
                                             'external_body': True, 'marker': f.qname, 'note': 'NOT-IN-STRICT'})
                    edits.extend(e)
                    finfo['strict'] = False
                elif not groups:
                    e, _, nl, nc = fn_edits(src, toks, f, c, mode, mapping,
                                            {'suffix': None, 'labels': None, 'extra_requires': [],
                                             'external_body': False, 'marker': f.qname})
                    edits.extend(e)
                else:
                    # split verification: the original keeps the whole contract but is not verified itself;
                    # each copy re-verifies the same body against one group of ensures clauses (x one sign
                    # assignment of the group's atoms); together the copies cover every clause and every case
                    e, item_start, nl, nc = fn_edits(src, toks, f, c, mode, mapping,
                                                     {'suffix': None, 'labels': None, 'extra_requires': [],
                                                      'external_body': True, 'marker': f.qname})
                    edits.extend(e)
                    # strict file: clauses proved in the lenient file (mode both) stay on the unverified original - every strict
                    # execution is also a lenient one, so partial-correctness clauses carry over; only strict clauses are re-proved
                    ens_labels = [x.label for x in c.clauses if x.kind == 'ensures'
                                  and (x.mode == 'strict' if mode == 'strict' else x.mode in ('both', mode))]
                    covered = set()
                    for g in groups:
                        covered |= set(g['labels'])
                    rest = [l for l in ens_labels if l not in covered]
                    allgroups = list(groups)
                    if rest:
                        allgroups.append({'name': 'rest', 'labels': rest, 'atoms': [], 'assume': [], 'mode': 'both'})
                    all_labels = set(x.label for x in c.clauses if x.kind == 'ensures')
                    unknown = covered - all_labels
                    allgroups = [dict(g, labels=[l for l in g['labels'] if l in ens_labels]) for g in allgroups]
                    allgroups = [g for g in allgroups if g['labels']]
                    if unknown:
                        raise GenError('%s: @group names unknown clause(s) %s' % (f.qname, sorted(unknown)))
                    end = toks[f.body_close].end
                    fn_src_start = item_start
                    copies = []
                    splitinfo = []
                    for g in allgroups:
                        k = len(g['atoms'])
                        for bits in range(1 << k):
                            extra = list(g.get('assume', []))
                            for i, a in enumerate(g['atoms']):
                                extra.append(('(%s)' % a) if (bits >> i) & 1 else ('!(%s)' % a))
                            suffix = '__%s__%d' % (g['name'], bits)
                            marker = '%s#%s#%d' % (f.qname, g['name'], bits)
                            ce, cstart, _, _ = fn_edits(src, toks, f, c, mode, mapping,
                                                        {'suffix': suffix, 'labels': set(g['labels']),
                                                         'extra_requires': extra, 'external_body': False,
                                                         'marker': marker})
                            rel = [(a - cstart, b - cstart, t) for a, b, t in ce]
                            txt = apply_edits(src[cstart:end], rel)
                            if txt.startswith('pub '):
                                txt = txt[4:]
                            copies.append(txt)
                            splitinfo.append({'copy': marker, 'labels': g['labels'], 'case': extra})
                    edits.append((end, end, '\n' + '\n'.join(copies) + '\n'))
                    finfo['split'] = splitinfo
                finfo['loops'] = nl
                finfo['closures'] = nc
                break
            except GenError as ex:
                if attempt == 0 and 'lost anchor' in str(ex) and f.qname not in report.get('unextractable', {}):
                    del edits[mark:]
                    report.setdefault('unextractable', {})[f.qname] = str(ex)
                    continue
                raise
    tnames = []
    for kind, name, k, j, cl in types:
        tnames.append(name)
        report['types'].append('%s::%s' % (modpath, name))
    text = apply_edits(src, edits)
    return text, tnames



# --------------------------------------------------------------------------------------
# R18: un-contracted same-module helper functions are inlined at their call sites
# --------------------------------------------------------------------------------------
def _result_err_type(ret_text):
    """error type of a `Result<T, E>` / `StdResult<T>` return type text, or None"""
    if ret_text is None:
        return None
    t = re.sub(r'\s+', '', ret_text)
    if t.startswith('StdResult<'):
        return 'StdError'
    if not t.startswith('Result<') or not t.endswith('>'):
        return None
    inner = t[len('Result<'):-1]
    depth = 0
    for i, ch in enumerate(inner):
        if ch in '<([':
            depth += 1
        elif ch in '>)]':
            depth -= 1
        elif ch == ',' and depth == 0:
            return inner[i + 1:]
    return None


def inline_helpers(src, modpath, contracts, report):
    """A free function of /repo that has no contract in /verif/contracts (a helper added after the contracts were
    written) is inlined, verbatim, into the functions that call it, when the call has one of the two shapes for which
    beta-reduction is exact:
        helper(ARGS)?                    ->  ({ let (P1, ..) = (ARGS); BODY })?      [same error type; BODY has no
                                                                                   `return` other than `return Err(..)`]
        return helper(ARGS) / tail call  ->  { let (P1, ..) = (ARGS); BODY }        [same return type]
    (`?` and `return Err(..)` inside BODY then leave the caller exactly as the helper's error would have through `?`).
    The caller is thereby verified against the helper's real code instead of against nothing. Helpers of other shapes
    (generic, methods, recursive, other call forms) stay as they are: callers are then undecided (runner)."""
    counts = report.setdefault('rules', {})
    for _round in range(3):
        toks = lex(src)
        fns, _ = scan_items(toks, modpath)
        helpers = {}
        for f in fns:
            if f.qname in contracts or f.body_open is None or f.in_trait_impl:
                continue
            if f.qname.count('::') != modpath.count('::') + 1:
                continue          # methods / nested items
            after_name = next_code(toks, next_code(toks, f.kw))
            if toks[after_name].text == '<':
                continue          # generic
            ptxt = src[toks[f.lparen].end:toks[f.rparen].start]
            if 'impl ' in ptxt or 'self' in re.findall(r'\b\w+\b', ptxt)[:2]:
                continue
            # parameters: `[mut] name: Type`
            pats = []
            ok = True
            depth = 0
            cur = ''
            parts = []
            for ch in ptxt:
                if ch in '<([':
                    depth += 1
                elif ch in '>)]':
                    depth -= 1
                if ch == ',' and depth == 0:
                    parts.append(cur)
                    cur = ''
                else:
                    cur += ch
            if cur.strip():
                parts.append(cur)
            for part in parts:
                m = re.match(r'\s*((?:mut\s+)?[A-Za-z_]\w*)\s*:\s*(.+?)\s*$', part, re.S)
                if not m:
                    ok = False
                    break
                pats.append((m.group(1), re.sub(r'\s+', ' ', m.group(2))))
            if not ok or f.ret_text is None:
                continue
            body = src[toks[f.body_open].end:toks[f.body_close].start]
            # recursion / early Ok-return
            if re.search(r'(?<![\w.:])%s\s*\(' % re.escape(f.name), body):
                continue
            early_other = False
            for k in range(f.body_open, f.body_close):
                if toks[k].kind == 'ident' and toks[k].text == 'return':
                    nx = next_code(toks, k)
                    if toks[nx].text != 'Err':
                        early_other = True
            helpers[f.name] = {'f': f, 'pats': pats, 'body': body, 'err': _result_err_type(f.ret_text),
                               'ret': re.sub(r'\s+', '', f.ret_text), 'early_other': early_other,
                               'sites': 0, 'inlined': 0}
        if not helpers:
            return src
        edits = []
        for g in fns:
            if g.body_open is None:
                continue
            g_err = _result_err_type(g.ret_text)
            g_ret = re.sub(r'\s+', '', g.ret_text) if g.ret_text else None
            k = g.body_open
            while k < g.body_close:
                t = toks[k]
                if t.kind == 'ident' and t.text in helpers and t.text != g.name:
                    pv = prev_code(toks, k)
                    nx = next_code(toks, k)
                    if toks[nx].text == '(' and toks[pv].text not in ('.', '::', 'fn'):
                        h = helpers[t.text]
                        h['sites'] += 1
                        cl = match_close(toks, nx)
                        after = next_code(toks, cl)
                        # arguments split at top-level commas
                        arg_list, depth, cur_a = [], 0, []
                        q = next_code(toks, nx)
                        a_start = None
                        while q < cl:
                            x = toks[q].text
                            if a_start is None:
                                a_start = toks[q].start
                            if x in ('(', '[', '{'):
                                depth += 1
                            elif x in (')', ']', '}'):
                                depth -= 1
                            elif x == ',' and depth == 0:
                                arg_list.append(src[a_start:toks[q].start].strip())
                                a_start = None
                            q = next_code(toks, q)
                        if a_start is not None and src[a_start:toks[cl].start].strip():
                            arg_list.append(src[a_start:toks[cl].start].strip())
                        if len(arg_list) != len(h['pats']):
                            k = cl + 1
                            continue
                        # all arguments are evaluated (and coerced to the parameter types) before any parameter name is bound
                        bind = ''.join('let a18__%d: %s = %s; ' % (i, h['pats'][i][1], a) for i, a in enumerate(arg_list))
                        bind += ''.join('let %s = a18__%d; ' % (h['pats'][i][0], i) for i in range(len(arg_list)))
                        block = ('{ /*R18 inlined %s*/ let r18__: %s = { %s %s }; r18__ }'
                                 % (t.text, h['f'].ret_text, bind, h['body']))
                        if toks[after].text == '?' and h['err'] is not None and h['err'] == g_err and not h['early_other']:
                            edits.append((t.start, toks[cl].end, '(' + block + ')'))
                            h['inlined'] += 1
                            k = cl + 1
                            continue
                        is_ret = toks[pv].text == 'return'
                        is_tail = toks[after].text == '}' and after == g.body_close
                        if (is_ret or is_tail) and g_ret is not None and g_ret == h['ret']:
                            edits.append((t.start, toks[cl].end, block))
                            h['inlined'] += 1
                            k = cl + 1
                            continue
                k += 1
        if not edits:
            return src
        # nested call sites (a helper calling a helper) are handled by the next round: drop overlapping edits
        edits.sort()
        clean, last_end = [], -1
        for e in edits:
            if e[0] >= last_end:
                clean.append(e)
                last_end = e[1]
        # a helper all of whose call sites were inlined is no longer part of what is verified
        all_kept = len(clean) == len(edits)
        for name, h in helpers.items():
            if h['sites'] and h['sites'] == h['inlined'] and all_kept:
                f = h['f']
                pk = prev_code(toks, f.kw)
                start = toks[pk].start if pk >= 0 and toks[pk].text == 'pub' else toks[f.kw].start
                clean.append((start, start, '#[verifier::external_body] /*@R18-INLINED: every call site carries the body*/ '))
                report.setdefault('inlined_helpers', []).append('%s::%s' % (modpath, name))
        counts['R18'] = counts.get('R18', 0) + sum(1 for e in clean if 'R18 inlined' in e[2])
        src = apply_edits(src, clean)
        if all_kept:
            # one more round only if something may remain nested
            if not any(h['inlined'] for h in helpers.values()):
                break
    return src


# --------------------------------------------------------------------------------------
# assembly
# --------------------------------------------------------------------------------------
HEAD = '''#![feature(allocator_api)]
#![allow(unused_imports, dead_code, unused_variables, unused_mut, deprecated, unused_parens, non_snake_case, unused_braces, unreachable_patterns)]
use vstd::prelude::*;
use vstd::std_specs::cmp::*;
use vstd::std_specs::ops::*;
use vstd::std_specs::convert::*;
use core::cmp::Ordering;
macro_rules! format { ($($t:tt)*) => { crate::shim::flat::fmt_opaque() } }
verus! {
'''

MOD_PRELUDE = '''#[allow(unused_imports)] use vstd::prelude::*;
use crate::shim::{cosmwasm_std, provwasm_std, rust_decimal, cw_storage_plus, semver, uuid, serde_json};
#[allow(unused_imports)] use crate::shim::flat::*;
#[allow(unused_imports)] use crate::spec::*;
#[allow(unused_imports)] use vstd::std_specs::cmp::*;
#[allow(unused_imports)] use vstd::std_specs::ops::*;
#[allow(unused_imports)] use vstd::std_specs::convert::*;
#[allow(unused_imports)] use core::cmp::Ordering as CoreOrdering;
broadcast use crate::spec::enc_axioms;
'''

NO_EQ_TYPES = {'ContractError'}


def derive_standins(modpath, tnames):
    out = []
    for name in tnames:
        if name in NO_EQ_TYPES:
            continue
        out.append('''
impl Clone for {n} {{ #[verifier::external_body] fn clone(&self) -> (r: Self) ensures r == *self {{ unimplemented!() }} }}
impl PartialEqSpecImpl for {n} {{
    open spec fn obeys_eq_spec() -> bool {{ true }}
    open spec fn eq_spec(&self, other: &{n}) -> bool {{ *self == *other }}
}}
impl PartialEq for {n} {{ #[verifier::external_body] fn eq(&self, other: &{n}) -> (r: bool) {{ unimplemented!() }} }}
'''.format(n=name))
    return ''.join(out)


def snake(name):
    return re.sub(r'(?<!^)(?=[A-Z])', '_', name).lower()


def serde_variant_name(name, style):
    """serde's `rename_all` for enum variants (variants are PascalCase in the source)"""
    sn = snake(name)
    if style is None or style == 'PascalCase':
        return name
    if style == 'snake_case':
        return sn
    if style == 'lowercase':
        return name.lower()
    if style == 'UPPERCASE':
        return name.upper()
    if style == 'camelCase':
        return name[:1].lower() + name[1:]
    if style == 'SCREAMING_SNAKE_CASE':
        return sn.upper()
    if style == 'kebab-case':
        return sn.replace('_', '-')
    if style == 'SCREAMING-KEBAB-CASE':
        return sn.upper().replace('_', '-')
    raise GenError('unknown serde rename_all style %r on ContractAction' % style)


def special_impls(text, modpath, report):
    """D-f: bodies of `impl ToString for ContractAction` and `impl From<ContractError> for StdError`"""
    toks = lex(text)
    edits = []
    k = 0
    n = len(toks)
    while k < n:
        t = toks[k]
        if t.kind == 'ident' and t.text == 'impl':
            j = seq_match(toks, k, ['impl', 'ToString', 'for', 'ContractAction', '{'])
            if j > 0:
                op = prev_code(toks, j)
                cl = match_close(toks, op)
                # variants of the enum, for the snake_case table
                m = re.search(r'pub enum ContractAction\s*\{(.*?)\n\}', text, re.S)
                if not m:
                    raise GenError('ContractAction enum not found')
                body = re.sub(r'//[^\n]*', '', m.group(1))
                # the names are what serde writes: the enum's `rename_all` style (read from the attribute in the real
                # source on this run) and per-variant `rename`
                am = re.search(r'((?:#\[[^\]]*\]\s*)*)pub enum ContractAction\b', report['raw_common'])
                style = None
                if am:
                    sm = re.search(r'rename_all\s*=\s*"([^"]+)"', am.group(1))
                    style = sm.group(1) if sm else None
                raw_enum = re.search(r'pub enum ContractAction\s*\{(.*?)\n\}', report['raw_common'], re.S)
                renames = {}
                if raw_enum:
                    for rm in re.finditer(r'#\[serde\([^\]]*rename\s*=\s*"([^"]+)"[^\]]*\)\]\s*(\w+)', raw_enum.group(1)):
                        renames[rm.group(2)] = rm.group(1)
                variants = [re.sub(r'#\[[^\]]*\]', '', v).strip() for v in body.split(',')]
                variants = [v for v in variants if v]
                arms = '\n'.join('            ContractAction::%s => "%s"@,'
                                 % (v, renames.get(v, serde_variant_name(v, style))) for v in variants)
                rep = ('impl ContractAction {\n'
                       '    pub open spec fn name_spec(self) -> Seq<char> {\n        match self {\n%s\n        }\n    }\n'
                       '    #[verifier::external_body]\n'
                       '    pub fn to_string(&self) -> (r: String) ensures r@ == self.name_spec() { unimplemented!() }\n}'
                       % arms)
                edits.append((t.start, toks[cl].end, rep))
                report['rules']['D-f'] = report['rules'].get('D-f', 0) + 1
                k = cl + 1
                continue
            j = seq_match(toks, k, ['impl', 'From', '<', 'ContractError', '>', 'for', 'StdError', '{'])
            if j > 0:
                op = prev_code(toks, j)
                cl = match_close(toks, op)
                rep = ('impl FromSpecImpl<ContractError> for StdError {\n'
                       '    open spec fn obeys_from_spec() -> bool { false }\n'
                       '    open spec fn from_spec(e: ContractError) -> StdError { arbitrary() }\n}\n'
                       'impl From<ContractError> for StdError { #[verifier::external_body] '
                       'fn from(error: ContractError) -> (r: StdError) { unimplemented!() } }')
                edits.append((t.start, toks[cl].end, rep))
                report['rules']['D-f'] = report['rules'].get('D-f', 0) + 1
                k = cl + 1
                continue
        k += 1
    return apply_edits(text, edits)


def mark_lemmas(text, vacuity_props=None):
    """`//@lemma props=..` + following proof fn  ->  /*@L spec::name props=..*/ <fn item> /*@E*/
    vacuity file: the lemma itself is not re-proved; a twin with `ensures false` must fail (its premises are satisfiable)"""
    out = []
    pos = 0
    for m in re.finditer(r'//@(lemma|probe) props=(\S+)\n', text):
        out.append(text[pos:m.start()])
        rest = text[m.end():]
        mm = re.match(r'\s*(?:#\[[^\]]*\]\s*)*pub (?:broadcast )?proof fn (\w+)', rest)
        if not mm:
            raise GenError('//@lemma marker not followed by a proof fn near: %r' % rest[:60])
        toks = lex(rest)
        k = 0
        while not (toks[k].kind == 'punct' and toks[k].text == '{' and _depth0(toks, k)):
            k += 1
        end = toks[match_close(toks, k)].end
        item = rest[:end]
        props = m.group(2)
        if vacuity_props is None:
            if m.group(1) == 'lemma':
                out.append('/*@L spec::%s props=%s*/\n%s\n/*@E*/' % (mm.group(1), props, item))
        else:
            pl = props.split(',')
            rel = '*' in pl or bool(set(pl) & set(vacuity_props)) or m.group(1) == 'probe'
            if m.group(1) == 'lemma':
                out.append('#[verifier::external_body] /*@VACUITY-ORIGINAL*/\n' + item)
            if rel:
                # twin: same premises, `ensures false`
                e = None
                for q in range(k - 1, -1, -1):
                    if toks[q].kind == 'ident' and toks[q].text == 'ensures' and _depth0(toks, q):
                        e = q
                        break
                if e is None:
                    raise GenError('lemma %s has no ensures' % mm.group(1))
                name_tok = next(q for q, t in enumerate(toks) if t.kind == 'ident' and t.text == mm.group(1))
                twin = (rest[:toks[name_tok].end] + '__vac' + rest[toks[name_tok].end:toks[e].start]
                        + 'ensures\n/*@L spec::%s::vacuity props=*/\n false,\n/*@E*/\n' % mm.group(1)
                        + rest[toks[k].start:end])
                twin = twin.replace('pub broadcast proof fn', 'pub proof fn')
                twin = twin.replace('proof fn ', '/*@F spec::%s#vac#lemma*/ proof fn ' % mm.group(1), 1)
                twin = re.sub(r'#!?\[trigger[^\]]*\]', '', twin)
                out.append('\n#[verifier::spinoff_prover]\n' + twin.lstrip())
        pos = m.end() + end
    out.append(text[pos:])
    return ''.join(out)


def _depth0(toks, k):
    d = 0
    for t in toks[:k]:
        if t.kind == 'punct' and t.text in '([':
            d += 1
        elif t.kind == 'punct' and t.text in ')]':
            d -= 1
    return d == 0


def cargo_env():
    txt = open(os.path.join(REPO, 'Cargo.toml')).read()
    name = re.search(r'^\s*name\s*=\s*"([^"]+)"', txt, re.M).group(1)
    ver = re.search(r'^\s*version\s*=\s*"([^"]+)"', txt, re.M).group(1)
    return {'CARGO_CRATE_NAME': name.replace('-', '_'), 'CARGO_PKG_VERSION': ver}


def read_dir_rs(d):
    out = []
    for fn in sorted(os.listdir(d)):
        if fn.endswith('.rs'):
            out.append('// ---- %s/%s\n' % (os.path.basename(d), fn) + open(os.path.join(d, fn)).read())
    return '\n'.join(out)


def generate(mode, out_path, vacuity_props=None, force_stub=()):
    report = {'mode': mode, 'functions': [], 'types': [], 'rules': {}, 'files': [], 'unextractable': {},
              'cargo_env': cargo_env()}
    src_root = os.path.join(REPO, 'src')
    mods = discover_modules(src_root)
    report['raw_common'] = ''
    for mp, f in mods:
        if mp == 'common':
            report['raw_common'] = open(f).read()
    cdir = os.path.join(VERIF, 'contracts')
    contracts = parse_contracts(sorted(os.path.join(cdir, f) for f in os.listdir(cdir) if f.endswith('.vc')))
    used = set()
    # nest modules
    tree = {}
    texts = {}
    for mp, f in mods:
        raw = open(f).read()
        s = strip_tests_and_docs(raw)
        report['_cur_mod'] = mp
        s = strip_attrs_and_uses(s, report)
        s = rewrite_isolated(s, mp, report, force_stub)
        s = special_impls(s, mp, report)
        s = inline_helpers(s, mp, contracts, report)
        s, tnames = weave(s, mp, contracts, mode, report, used, vacuity_props)
        s = s + derive_standins(mp, tnames)
        texts[mp] = s
        report['files'].append({'module': mp, 'path': os.path.relpath(f, REPO),
                                'sha256': hashlib.sha256(raw.encode()).hexdigest(),
                                'lines': raw.count('\n')})
    # a contracted function that no longer exists (renamed / folded into another one): its clauses cannot be checked; the
    # properties they carry are undecided by the proof (the runner then explores the real code), everything else is verified
    missing = sorted(set(contracts) - used)
    report['missing_contracted'] = {q: sorted(set(pp for cl in contracts[q].clauses for pp in cl.props)
                                              | set(pp for lc in contracts[q].loops.values() for cl in lc.clauses for pp in cl.props))
                                    for q in missing}

    def emit(mp):
        children = [m for m, _ in mods if m.startswith(mp + '::') and '::' not in m[len(mp) + 2:]]
        name = mp.split('::')[-1]
        inner = MOD_PRELUDE + texts[mp] + '\n' + '\n'.join(emit(c) for c in children)
        return 'pub mod %s {\n%s\n}\n' % (name, inner)

    tops = [m for m, _ in mods if '::' not in m]
    shim = read_dir_rs(os.path.join(VERIF, 'shim'))
    spec = read_dir_rs(os.path.join(VERIF, 'spec'))
    spec = mark_lemmas(spec, vacuity_props)
    if vacuity_props is not None:
        # helper lemmas are not re-proved in the vacuity file
        spec = re.sub(r'(?m)^(pub (?:broadcast )?proof fn (?!\w+__vac\b)(?!probe_))',
                      r'#[verifier::external_body] /*@VACUITY-ORIGINAL*/ \1', spec)
        spec = spec.replace('#[verifier::external_body] /*@VACUITY-ORIGINAL*/\n#[verifier::external_body] /*@VACUITY-ORIGINAL*/ ',
                            '#[verifier::external_body] /*@VACUITY-ORIGINAL*/ ')
        spec = re.sub(r'#\[verifier::external_body\]\s*\n#\[verifier::external_body\] /\*@VACUITY-ORIGINAL\*/ ',
                      '#[verifier::external_body] ', spec)
    if vacuity_props is None:
        spec = re.sub(r'//@probe-begin.*?//@probe-end', '', spec, flags=re.S)
    strict_def = 'pub open spec fn strict() -> bool { %s }\n' % ('true' if mode == 'strict' else 'false')
    out = (HEAD + 'pub mod shim {\n' + strict_def + shim + '\n}\n'
           + 'pub mod spec {\n' + MOD_PRELUDE.replace('#[allow(unused_imports)] use crate::spec::*;\n', '').replace('broadcast use crate::spec::enc_axioms;\n', '')
           + spec + '\n}\n'
           + '\n'.join(emit(m) for m in tops) + '\n} // verus!\nfn main() {}\n')
    os.makedirs(os.path.dirname(out_path), exist_ok=True)
    open(out_path, 'w').write(out)
    del report['raw_common']
    report.pop('_cur_mod', None)
    # wire-format premise: serde attributes and the Serialize/Deserialize/PartialEq/Clone derives of every type, against
    # the baseline audited with the assumptions A-SERDE / A-DERIVE
    bp = os.path.join(VERIF, 'contracts', 'wire_baseline.json')
    cur = sorted(report.get('wire_attrs', []))
    if os.path.exists(bp):
        base = sorted(json.load(open(bp)))
        # ContractAction's rename style is modelled (D-f reads it), not assumed
        cur = [x for x in cur if not x.startswith('common|ContractAction|serde(')]
        base = [x for x in base if not x.startswith('common|ContractAction|serde(')]
        report['wire_premise_changed'] = (['+ ' + x for x in cur if x not in base] + ['- ' + x for x in base if x not in cur])
    else:
        report['wire_premise_changed'] = ['no baseline file contracts/wire_baseline.json']
    # vocabulary premise: constructs a function uses that no function of the audited tree used
    ap = os.path.join(VERIF, 'contracts', 'api_baseline.json')
    known = set(json.load(open(ap))) if os.path.exists(ap) else None
    sm, sa = shim_vocabulary(shim)
    for fi in report['functions']:
        if known is None:
            fi['novel_constructs'] = ['<no api baseline>']
        else:
            # neither used by the audited tree nor declared (with a contract) by the shim
            fi['novel_constructs'] = sorted(x for x in set(fi.get('shapes', [])) - known if not familiar_in_shim(x, sm, sa))
    # line map
    linemap = build_linemap(out)
    report['uncontracted'] = [f['qname'] for f in report['functions'] if not f['contracted']]
    return report, linemap


def build_linemap(text):
    """scan markers: /*@L label props=..*/ ... /*@E*/  and /*@F qname*/"""
    labels = []
    for m in re.finditer(r'/\*@L (\S+) props=(\S*?)\*/(.*?)/\*@E\*/', text, re.S):
        l0 = text.count('\n', 0, m.start()) + 1
        l1 = text.count('\n', 0, m.end()) + 1
        labels.append({'label': m.group(1), 'props': [p for p in m.group(2).split(',') if p],
                       'line_start': l0, 'line_end': l1, 'text': m.group(3).strip()})
    funcs = []
    toks = None
    for m in re.finditer(r'/\*@F (\S+)\*/', text):
        funcs.append({'qname': m.group(1), 'pos': m.start(), 'line_start': text.count('\n', 0, m.start()) + 1})
    # function end: next function marker or matching brace — computed by brace matching on tokens
    toks = lex(text)
    starts = {t.start: i for i, t in enumerate(toks)}
    for f in funcs:
        i = starts[f['pos']]
        j = i
        # find the body `{` : first '{' at paren depth 0 after the marker that is not inside a spec clause
        # (spec clauses contain `({ ... })` blocks, always within parentheses or after ==>; we rely on
        # the /*@E*/ markers: skip ahead to the last marker before the body)
        while True:
            j += 1
            t = toks[j]
            if t.kind == 'punct' and t.text in '([':
                j = match_close(toks, j)
                continue
            if t.kind == 'bcomment' and t.text.startswith('/*@L'):
                # jump to its end marker
                while not (toks[j].kind == 'bcomment' and toks[j].text == '/*@E*/'):
                    j += 1
                continue
            if t.kind == 'punct' and t.text == '{':
                break
            if t.kind == 'punct' and t.text == ';':
                break
        end = match_close(toks, j) if toks[j].text == '{' else j
        f['line_end'] = text.count('\n', 0, toks[end].end) + 1
        f['body_line_start'] = text.count('\n', 0, toks[j].start) + 1
        del f['pos']
    return {'labels': labels, 'functions': funcs}


def main():
    import argparse
    ap = argparse.ArgumentParser()
    ap.add_argument('--mode', default='lenient', choices=['lenient', 'strict'])
    ap.add_argument('--out', default=None)
    a = ap.parse_args()
    out = a.out or os.path.join(VERIF, 'gen', 'ats_%s.rs' % a.mode)
    try:
        report, linemap = generate(a.mode, out)
    except (GenError, LexError) as e:
        print('GEN-ERROR: %s' % e, file=sys.stderr)
        sys.exit(2)
    json.dump(report, open(out + '.report.json', 'w'), indent=1)
    json.dump(linemap, open(out + '.linemap.json', 'w'), indent=1)
    print('generated %s: %d functions (%d contracted), %d labelled clauses'
          % (out, len(report['functions']), sum(1 for f in report['functions'] if f['contracted']),
             len(linemap['labels'])))


if __name__ == '__main__':
    main()
