#!/usr/bin/env python3
"""writes /verif/MANIFEST.json (kept under version control; re-run after changing the set of claimed properties)"""
import json, os
V = os.path.dirname(os.path.dirname(os.path.abspath(__file__)))
TRUST = ("Trusted: Verus/Z3; the mechanical extraction rules (DESIGN.md 4); assumed contracts on cosmwasm-std, cw-storage-plus, "
         "rust_decimal, semver, uuid, provwasm (every external_body / assume_specification / axiom is listed in the evidence file; "
         "Uint128 arithmetic, unwrap and the cw-storage-plus Map::load/may_load/save/remove/update bodies are verified in the shim against one abort primitive and the Path primitives, not assumed); "
         "chain semantics (rollback on Err/abort, messages executed exactly). ")
P = {
 'C01': ("Per-operation ledger/state postconditions on every handler (real bodies) + lemma_C01_step / lemma_C01_base / lemma_C01_migrate: "
         "holdings and owed_total change by the same amount for every request kind, for all inputs and states; ",
         "Induction over histories is machine-checked (lemma_history, lemma_C01_history). Assumes the contract address is no party of the initial state, never sends a request and is never named as fee account (self_free); that it then never becomes a party is proved (lemma_not_party_step). Funds attached to instantiate are outside the ledger."),
 'C02': ("execute_match (real body, split into clause-group copies) proved against the full per-(account,denomination) settlement formula, the remaining-amount updates and lemma_match_fee_share.", ""),
 'C03': ("execute_match::C03.only_if (all eligibility conditions implied by Ok) + lemma_C03_limits; ExecuteMsg::validate proved as an equivalence; converse direction proved in strict mode (execute_match::C03.if).",
         "Converse direction under the arithmetic range premise A-RANGE."),
 'C04': ("cancel_ask / reverse_ask / reverse_bid ledger (all accounts, all denominations), shrink/removal and partial-size clauses on the real bodies.", ""),
 'C05': ("One authorization clause per guarded handler evaluated on the pre-state role lists + the verified dispatch table of execute (exec_post).", ""),
 'C06': ("Strict-mode (no-abort) proof that every exit request on a well-formed book returns Ok, removes the order and returns the whole remaining escrow, at the API level (execute::C06.exit_api) and per handler; "
         "wf is inductive (lemma_exec_preserves_wf).", "Legacy V2-format bids must be migrated first (C15)."),
 'C07': ("create_ask / create_bid only_if + exact-escrow + recorded clauses on the real bodies; validate equivalence; converse in strict mode.", "Converse under A-RANGE."),
 'C08': ("approve_ask closure contract woven into the real closure, only_if/escrow/recorded clauses; W4 (approver amount == size) is part of the inductive invariant wf and of every ask-writing handler's state clause.", ""),
 'C09': ("create_bid entry fee == fee_of(rate, total); ask fee in match_q; W7 (held fee == prorata of unspent quote) inductive; lemma_C09_closes, lemma_match_fee_share.",
         "Nearest-unit exactness of the pro-rata fee is proved (lemma_C09_nearest) from the accuracy axioms of the 28-digit quotient/product for 3*fee*quote < 10^28; above that bound it can be one unit off (known finding K1, replayed on every run)."),
 'C10': ("Call-site preconditions on add_transfer (flag == restricted(denom), amount > 0, from == contract) at every call in the real code; payouts_ok / escrowed_exactly on every handler; util.rs verified verbatim.", ""),
 'C11': ("State clauses are whole-map equalities (only the named key changes; other side, info, version equal); immutable terms in ask_reduced / bid_advanced; wf (W2-W7) inductive.", ""),
 'C12': ("modify_contract sides/approver-superset/fieldwise clauses, check_fee_rate / check_required_attributes contracts, every other handler's frame leaves info unchanged.", ""),
 'C13': ("InstantiateMsg::validate equivalence, instantiate only_if/stored clauses, lemma_C13_integrality, lemma_wf_instantiate; converse in strict mode.", "addr_validate modelled as valid_addr."),
 'C14': ("Functional contracts on migrate and its four callees, lemma_C14_idempotent, lemma_wf_migrate, lemma_C01_migrate.", "semver requirement literals assumed (A-SEMVER)."),
 'C15': ("sum_base/sum_quote/sum_fee (rule R4 loops) against recursive sums, From<BidOrderV2> == conv_bid, migrate_bid_orders window clause with loop invariant, lemma_C15_remaining.",
         "That historic event logs describe consistent bids (legacy_bids_ok) is an assumption."),
 'C16': ("query takes immutable Deps (Rust typing); faithful / answers_when_present clauses; accessor contracts.", "to_binary is an injective uninterpreted serialisation."),
 'C17': ("Attribute membership clauses on every handler tie reported action, ids, sizes, price, fees and order_open to the quantities of the ledger/state clauses; lemma_C17_shadow (shadow book).",
         "lemma_C17_shadow: a record updated from the reported attribute values alone equals the projection of the real book after every request."),
}
checks = []
for pid in sorted(P):
    text, note = P[pid]
    checks.append({
        "property_id": pid,
        "quick_cmd": "./check %s --tier quick" % pid,
        "thorough_cmd": "./check %s --tier thorough" % pid,
        "evidence_file": "/verif/evidence/%s.json" % pid,
        "replay_cmd_template": "./check %s --replay {path}" % pid,
        "engine": "verus-contracts",
        "level_claimed": {"category": "proof", "text": text + " Unbounded: for all inputs, states and marker assignments.", "design_ref": "DESIGN.md section 6 (%s)" % pid},
        "level_note": TRUST + note,
        "technique": "contract-based deductive verification (Verus) of the mechanically extracted real function bodies",
    })
m = {
 "version": 1,
 "setup_cmd": "cd /verif/replay && cp -n /repo/Cargo.lock Cargo.lock 2>/dev/null; CARGO_NET_OFFLINE=true cargo build --release --offline -q || true; cd /verif/audit && cp -n /repo/Cargo.lock Cargo.lock 2>/dev/null; CARGO_NET_OFFLINE=true cargo build --release --offline -q || true",
 "hooks": {"guard": "none: no source hook is needed (contracts, shim and lemmas live in /verif and are woven into a generated copy)",
           "enable": "n/a (checks read /repo/src and /repo/Cargo.toml as they are)",
           "baseline_off_cmd": "cd /repo && cargo test --workspace --no-fail-fast --offline",
           "source_commits": [], "add_only": True},
 "engines": [{"name": "verus-contracts", "path": "/verif/tools", "serves_properties": sorted(P),
              "kind_free_text": "extract real function bodies -> weave contracts -> Verus (Z3) -> attribute failed obligations to labelled clauses"},
             {"name": "ats-replay", "path": "/verif/replay", "serves_properties": sorted(P),
              "kind_free_text": "replays JSON histories on the real contract code with 16 executable oracles and an independent reader of the stored byte formats; used for (i) a concrete failing history next to a failed obligation, (ii) golden-state histories replayed by the C13-C16 checks, (iii) the thorough tier's exploration, (iv) the bounded stand-in when a function is out of the verifier's reach on the current tree (a hit is a VIOLATION with the history as replay; no hit leaves exit 2). Never counted as proof"}],
 "checks": checks,
 "not_applicable": [],
 "notes": "See DESIGN.md. Exit 2 of a check means undecided (tool limit / code out of the verifier's reach and the bounded stand-in found nothing), never an alarm. Genuine defects found and repaired: known_findings.json.",
}
json.dump(m, open(os.path.join(V, 'MANIFEST.json'), 'w'), indent=1)
print('wrote MANIFEST.json with %d checks' % len(checks))
