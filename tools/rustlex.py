"""Small Rust lexer: enough to find items, match braces and rewrite code tokens without
touching comments or literals.  Tokens are (kind, text, start, end) with kinds
ws, lcomment, bcomment, str, rawstr, char, lifetime, ident, num, punct."""
import re

IDENT = re.compile(r'[A-Za-z_][A-Za-z0-9_]*')
NUM = re.compile(r'[0-9][0-9A-Za-z_]*(\.[0-9][0-9A-Za-z_]*)?')
WS = re.compile(r'\s+')
PUNCT3 = ('<<=', '>>=', '...', '..=')
PUNCT2 = ('->', '=>', '::', '==', '!=', '<=', '>=', '&&', '||', '+=', '-=', '*=', '/=', '%=',
          '^=', '&=', '|=', '<<', '>>', '..')


class Tok:
    __slots__ = ('kind', 'text', 'start', 'end')

    def __init__(self, kind, text, start, end):
        self.kind, self.text, self.start, self.end = kind, text, start, end

    def __repr__(self):
        return 'Tok(%s,%r,%d)' % (self.kind, self.text, self.start)


class LexError(Exception):
    pass


def lex(src):
    toks = []
    i, n = 0, len(src)
    while i < n:
        c = src[i]
        m = WS.match(src, i)
        if m:
            toks.append(Tok('ws', m.group(), i, m.end()))
            i = m.end()
            continue
        if src.startswith('//', i):
            j = src.find('\n', i)
            j = n if j < 0 else j
            toks.append(Tok('lcomment', src[i:j], i, j))
            i = j
            continue
        if src.startswith('/*', i):
            depth, j = 1, i + 2
            while j < n and depth:
                if src.startswith('/*', j):
                    depth += 1
                    j += 2
                elif src.startswith('*/', j):
                    depth -= 1
                    j += 2
                else:
                    j += 1
            if depth:
                raise LexError('unterminated block comment at %d' % i)
            toks.append(Tok('bcomment', src[i:j], i, j))
            i = j
            continue
        # raw strings r"..", r#".."#, br".."
        m = re.match(r'b?r(#*)"', src[i:i + 40])
        if m:
            hashes = m.group(1)
            close = '"' + hashes
            j = src.find(close, i + m.end())
            if j < 0:
                raise LexError('unterminated raw string at %d' % i)
            j += len(close)
            toks.append(Tok('rawstr', src[i:j], i, j))
            i = j
            continue
        if c == '"' or (c == 'b' and src.startswith('b"', i)):
            j = i + (2 if c == 'b' else 1)
            while j < n and src[j] != '"':
                j += 2 if src[j] == '\\' else 1
            if j >= n:
                raise LexError('unterminated string at %d' % i)
            j += 1
            toks.append(Tok('str', src[i:j], i, j))
            i = j
            continue
        if c == "'":
            # char literal or lifetime
            m = re.match(r"'(\\.[^']*|[^'\\])'", src[i:i + 16])
            if m:
                toks.append(Tok('char', m.group(), i, i + m.end()))
                i += m.end()
                continue
            m = re.match(r"'[A-Za-z_][A-Za-z0-9_]*", src[i:i + 64])
            if m:
                toks.append(Tok('lifetime', m.group(), i, i + m.end()))
                i += m.end()
                continue
            raise LexError('stray quote at %d' % i)
        m = IDENT.match(src, i)
        if m:
            toks.append(Tok('ident', m.group(), i, m.end()))
            i = m.end()
            continue
        m = NUM.match(src, i)
        if m:
            toks.append(Tok('num', m.group(), i, m.end()))
            i = m.end()
            continue
        for p in PUNCT3:
            if src.startswith(p, i):
                toks.append(Tok('punct', p, i, i + 3))
                i += 3
                break
        else:
            for p in PUNCT2:
                if src.startswith(p, i):
                    toks.append(Tok('punct', p, i, i + 2))
                    i += 2
                    break
            else:
                toks.append(Tok('punct', c, i, i + 1))
                i += 1
    return toks


CODE_KINDS = ('ident', 'num', 'punct', 'str', 'rawstr', 'char', 'lifetime')


def code_indices(toks):
    """indices of tokens that are code (not whitespace/comments)"""
    return [k for k, t in enumerate(toks) if t.kind in CODE_KINDS]


OPEN = {'(': ')', '[': ']', '{': '}'}
CLOSE = {')': '(', ']': '[', '}': '{'}


def match_close(toks, k):
    """toks[k] is an opening bracket; return the index of its matching close"""
    o = toks[k].text
    stack = []
    for j in range(k, len(toks)):
        t = toks[j]
        if t.kind != 'punct':
            continue
        if t.text in OPEN:
            stack.append(t.text)
        elif t.text in CLOSE:
            if not stack or stack[-1] != CLOSE[t.text]:
                raise LexError('bracket mismatch at %d' % t.start)
            stack.pop()
            if not stack:
                return j
    raise LexError('no matching close for %s at %d' % (o, toks[k].start))


def untok(toks):
    return ''.join(t.text for t in toks)
