#!/usr/bin/env python3
"""check <Cxx> [--tier quick|thorough] [--replay <file>]

extract -> weave -> verus -> attribute failed obligations to labelled clauses -> evidence / replay files.
Exit 0: every labelled obligation of the property discharged (known findings are printed, not alarmed).
Exit 1: "VIOLATION property=<id> replay=<path>[ no-failing-input-found]" per failed label not listed as known.
Exit 2: undecided (tool limit, unsupported construct, lost anchor, solver resource limit) - never an alarm.
"""
import hashlib
import json
import os
import re
import subprocess
import sys
import time

VERIF = os.path.dirname(os.path.dirname(os.path.abspath(__file__)))
sys.path.insert(0, os.path.join(VERIF, 'tools'))
import gen  # noqa: E402

REPO = gen.REPO
GEN_DIR = os.path.join(VERIF, 'gen')
# development aid (tools/seedtest.py): keep the committed evidence untouched while checks run against a modified tree
EVIDENCE_DIR = os.environ.get('VERIF_EVIDENCE_DIR', os.path.join(VERIF, 'evidence'))
ALL_PROPS = ['C%02d' % i for i in range(1, 18)]

# which witness-search oracle of /verif/replay corresponds to a property (best effort, never decides)
# executable oracles of the replay tool (real code) per property: used for (i) a concrete failing history next to a failed
# obligation, (ii) the thorough tier's randomized exploration, (iii) the bounded stand-in when a function is out of the
# verifier's reach
ORACLES = {'C01': ['solvency', 'migration'], 'C02': ['settlement', 'solvency'], 'C03': ['match_eligibility'],
           'C04': ['solvency', 'exit_liveness', 'migration', 'mechanism'], 'C05': ['authorization', 'config_change'], 'C06': ['exit_liveness', 'migration', 'mechanism'], 'C07': ['admission'],
           'C08': ['approver_tracks_size', 'solvency', 'mechanism'], 'C09': ['solvency', 'settlement', 'admission', 'migration'], 'C10': ['mechanism'],
           'C11': ['bid_consistency', 'ask_consistency', 'exit_liveness', 'attributes'], 'C12': ['config_change'], 'C13': ['instantiate_coherence', 'storage_format'],
           'C14': ['migration', 'storage_format'], 'C15': ['migration', 'storage_format'], 'C16': ['queries', 'storage_format'],
           'C17': ['attributes']}
# properties with strict-mode (liveness) clauses
CALLER_PROPS = {'contract::cancel_ask': ['C04', 'C06'], 'contract::reverse_ask': ['C04', 'C06'], 'contract::reverse_bid': ['C04', 'C06'],
                'contract::execute_match': ['C02', 'C03'], 'contract::create_ask': ['C07'], 'contract::create_bid': ['C07'],
                'contract::approve_ask': ['C08']}
STRICT_PROPS = {'C03', 'C06', 'C07', 'C13'}


def log(msg):
    print(msg, flush=True)


def sha(path):
    return hashlib.sha256(open(path, 'rb').read()).hexdigest()


def run_verus(path, extra=None, timeout=1500):
    cmd = ['verus', path, '--rlimit', os.environ.get('VERIF_RLIMIT', '100'), '--num-threads', '16',
           '--multiple-errors', '40', '--output-json', '--time-expanded', '--error-format=json'] + (extra or [])
    t0 = time.time()
    try:
        p = subprocess.run(cmd, capture_output=True, text=True, timeout=timeout)
    except subprocess.TimeoutExpired:
        return {'cmd': ' '.join(cmd), 'timeout': True, 'diags': [], 'json': None, 'wall_s': time.time() - t0, 'rc': None}
    diags = []
    for line in p.stderr.split('\n'):
        line = line.strip()
        if line.startswith('{') and '"$message_type"' in line:
            try:
                diags.append(json.loads(line))
            except ValueError:
                pass
    js = None
    try:
        js = json.loads(p.stdout)
    except ValueError:
        pass
    return {'cmd': ' '.join(cmd), 'timeout': False, 'diags': diags, 'json': js, 'wall_s': time.time() - t0,
            'rc': p.returncode, 'stderr_tail': p.stderr[-2000:]}


class LineMap:
    def __init__(self, lm):
        self.labels = lm['labels']
        self.functions = lm['functions']

    def label_at(self, line):
        for l in self.labels:
            if l['line_start'] <= line <= l['line_end']:
                return l
        return None

    def func_at(self, line):
        best = None
        for f in self.functions:
            if f['line_start'] <= line <= f['line_end']:
                if best is None or f['line_start'] >= best['line_start']:
                    best = f
        return best


def classify(diags, lm, gen_path):
    """-> (failures, undecided, compile_errors)
    failure: {label, props, function, message, rendered, kind}"""
    failures, undecided, compile_errors = [], [], []
    base = os.path.basename(gen_path)
    for d in diags:
        if d.get('level') != 'error':
            continue
        msg = d.get('message', '')
        if msg.startswith('aborting due to'):
            continue
        spans = [s for s in d.get('spans', []) if s.get('file_name', '').endswith(base)]
        rendered = d.get('rendered', '')
        if d.get('code') is not None or not spans and 'verus' not in rendered.lower():
            # rustc error (type error, unresolved name ...): the tree no longer fits the subset / shim
            compile_errors.append({'message': msg, 'rendered': rendered[:3000],
                                   'lines': [sp['line_start'] for sp in spans]})
            continue
        prim = [s for s in spans if s.get('is_primary')]
        sec = [s for s in spans if not s.get('is_primary')]
        entry = {'message': msg, 'rendered': rendered[:6000], 'label': None, 'props': [], 'function': None,
                 'call_site': None}
        if 'rlimit' in msg.lower() or 'resource limit' in msg.lower() or 'timeout' in msg.lower():
            f = None
            for s in prim + sec:
                f = lm.func_at(s['line_start']) or f
            entry['function'] = f['qname'] if f else None
            entry['kind'] = 'rlimit'
            undecided.append(entry)
            continue
        if re.search(r'not supported|unsupported|not yet support|does not support|Verus does not|is not allowed', msg, re.I):
            entry['kind'] = 'unsupported'
            entry['lines'] = [sp['line_start'] for sp in spans]
            compile_errors.append(entry)
            continue
        lab = None
        if msg.startswith('postcondition not satisfied') or msg.startswith('invariant not satisfied') \
                or 'assertion failed' in msg or 'loop invariant' in msg or 'decreases' in msg:
            for s in prim:
                lab = lm.label_at(s['line_start']) or lab
            for s in sec:
                lab = lab or lm.label_at(s['line_start'])
            f = None
            for s in sec + prim:
                g = lm.func_at(s['line_start'])
                if g is not None:
                    f = g
            entry['function'] = f['qname'] if f else None
        elif msg.startswith('precondition not satisfied'):
            for s in sec:
                if s.get('label') == 'failed precondition':
                    lab = lm.label_at(s['line_start']) or lab
            f = None
            for s in prim:
                f = lm.func_at(s['line_start']) or f
            entry['function'] = f['qname'] if f else None
            entry['call_site'] = entry['function']
        else:
            f = None
            for s in prim + sec:
                f = lm.func_at(s['line_start']) or f
            entry['function'] = f['qname'] if f else None
            for s in prim:
                lab = lm.label_at(s['line_start']) or lab
        if lab is not None:
            name = lab['label']
            props = list(lab['props'])
            if entry['call_site']:
                caller = entry['call_site'].split('#')[0]
                name = '%s@%s' % (name, caller)
                # a call-site obligation also serves the properties of the operation it occurs in: a payout the chain
                # would reject (wrong mechanism, zero amount) makes that operation fail as a whole
                props += CALLER_PROPS.get(caller, [])
            entry['label'] = name
            entry['props'] = props
            entry['kind'] = 'labelled'
            failures.append(entry)
        else:
            entry['kind'] = 'unlabelled'
            undecided.append(entry)
    return failures, undecided, compile_errors


def cheat_scan(text):
    """count trusted constructs per top-level module of the generated file"""
    out = {}
    mod = None
    depth = 0
    pats = {'external_body': re.compile(r'verifier::external_body'),
            'assume_specification': re.compile(r'\bassume_specification\b'),
            'assume': re.compile(r'\bassume\s*\('),
            'admit': re.compile(r'\badmit\s*\('),
            'external': re.compile(r'verifier::external(?!_body)')}
    for line in text.split('\n'):
        m = re.match(r'^pub mod (\w+) \{', line)
        if m and depth_of(line, 0) and mod is None or re.match(r'^pub mod (\w+) \{', line) and line.startswith('pub mod'):
            mod = m.group(1) if m else mod
        for k, rx in pats.items():
            n = len(rx.findall(line))
            if n:
                split_orig = '@SPLIT-ORIGINAL' in line
                key = (mod or '?', k if not split_orig else 'split_original')
                out[key] = out.get(key, 0) + n
    return {'%s:%s' % k: v for k, v in sorted(out.items())}


def depth_of(line, _):
    return True


def trusted_base_list(text):
    """names of every assumed item of the shim/spec (external_body fns, assume_specifications, axioms), qualified by the
    enclosing impl where there is one"""
    items = []
    for m in re.finditer(r'pub assume_specification(?:<[^\[]*>)?\s*\[\s*(.+?)\s*\]\s*\(', text):
        items.append('assume_specification ' + re.sub(r'\s+', ' ', m.group(1)))
    lines = text.split('\n')
    starts = [0]
    for l in lines:
        starts.append(starts[-1] + len(l) + 1)
    import bisect
    for m in re.finditer(r'#\[verifier::external_body\]\s*(?:/\*.*?\*/\s*)?(?:#\[[^\]]*\]\s*)*(?:pub )?(?:broadcast )?(proof fn|fn|const fn)\s+(\w+)', text, re.S):
        ln = bisect.bisect_right(starts, m.start(2)) - 1
        ind = len(lines[ln]) - len(lines[ln].lstrip())
        owner = ''
        for k in range(ln - 1, max(ln - 400, -1), -1):
            l = lines[k]
            if not l.strip():
                continue
            i2 = len(l) - len(l.lstrip())
            if i2 < ind:
                mm = re.match(r'\s*(?:pub )?(?:unsafe )?impl(?:<.*?>)?\s+(.*?)\s*\{', l)
                if mm:
                    owner = re.sub(r'\s+', ' ', mm.group(1))
                    owner = re.sub(r'^.*? for ', '', owner) if ' for ' in owner and m.group(2) not in ('from',) else owner
                    owner += '::'
                break
        items.append(('axiom ' if m.group(1) == 'proof fn' else 'external_body ') + owner + m.group(2))
    return sorted(set(items))


ASSUMPTION_IDS = [
    'A-VERUS: Verus 0.2026.09.13 + Z3 are sound',
    'A-EXTRACT: the mechanical rewrites R1-R20 / drops D-a..D-f of DESIGN.md section 4 preserve semantics (counts in coverage.extraction)',
    'A-ROLLBACK: a request that returns Err or aborts leaves no state or balance change (chain semantics); all safety clauses are phrased on Ok',
    'A-CHAIN: the chain executes each message of an Ok response exactly once and credits attached funds before execute',
    'A-STORE: cw-storage-plus save/load/remove/update/is_empty as specified in shim (namespaces disjoint, keys are raw id bytes)',
    'A-SERDE: JSON (de)serialisation faithful; V2/V3 bid formats do not cross-load; ContractAction names are serde snake_case',
    'A-DEC: rust_decimal checked_mul/checked_sub exact or None within the 96-bit mantissa (scale-reduction rounding above it is not modelled); half-away rounding; value comparison',
    'A-DEC-DIV: checked_div: 0/b=0, b/b=1, monotone in the numerator',
    'A-UINT: cosmwasm Uint128 = u128 with abort on overflow; release profile has overflow-checks = true',
    'A-STD: std functions given specs by assume_specification; String/&str extensionality and equality by content',
    'A-DERIVE: derived Clone/PartialEq on repository types are structural',
    'A-UUID: Uuid::parse_str(hyphenated(u)) == u',
    'A-SEMVER: VersionReq::matches for the four requirement literals used; pre-release versions never match',
    'A-API/A-CHAINQ: addr_validate returns its input for valid addresses; marker/attribute queries are functions of chain state fixed during a call',
]


def load_known():
    p = os.path.join(VERIF, 'known_findings.json')
    if not os.path.exists(p):
        return []
    return json.load(open(p)).get('findings', [])


_PROFILES = {}


def oracle_profiles(binp):
    """search profiles registered for each oracle (asked of the tool, so that the two cannot drift apart)"""
    if not _PROFILES:
        try:
            p = subprocess.run([binp, 'oracles', '--profiles'], capture_output=True, text=True, timeout=60)
            for l in p.stdout.split('\n'):
                if ':' in l:
                    k, v = l.split(':', 1)
                    _PROFILES[k.strip()] = v.split()
        except Exception:  # noqa
            pass
    return _PROFILES


def run_searches(prop, seed, iters, outdir, tag, max_profiles=None):
    """randomized history search on the real code with this property's oracles: every (oracle, profile) pair as its own
    process, in parallel. Returns (hits [(path, note)], runs [report rows], note)"""
    oracles = ORACLES.get(prop) or []
    if not oracles:
        return [], [], 'no executable oracle registered for this property'
    binp, err = replay_bin()
    if binp is None:
        return [], [], 'replay tool does not build against the current tree: %s' % err
    os.makedirs(outdir, exist_ok=True)
    profs = oracle_profiles(binp)
    jobs = []
    for o in oracles:
        pl = profs.get(o) or ['default']
        if max_profiles:
            pl = pl[:max_profiles]
        for pr in pl:
            jobs.append((o, pr, os.path.join(outdir, '%s_%s_%s.json' % (tag, o, pr))))

    def one(job):
        o, pr, out = job
        try:
            if os.path.exists(out):
                os.remove(out)
            p = subprocess.run([binp, 'search', '--oracle', o, '--seed', str(seed), '--iters', str(iters),
                                '--profile', pr, '--out', out], capture_output=True, text=True, timeout=1500)
        except subprocess.TimeoutExpired:
            return (o, pr, out, None, 'timeout')
        last = (p.stdout.strip().split('\n') or [''])[-1]
        return (o, pr, out, p.returncode, last)
    from concurrent.futures import ThreadPoolExecutor
    with ThreadPoolExecutor(max_workers=14) as ex:
        done = list(ex.map(one, jobs))
    hits, runs = [], []
    for o, pr, out, rc, last in done:
        runs.append({'oracle': o, 'profile': pr, 'iterations': iters, 'result': last})
        if rc == 1 and os.path.exists(out):
            hits.append((out, 'oracle=%s profile=%s: %s' % (o, pr, last)))
    return hits, runs, ('%d (oracle, profile) searches of %d iterations each: %d with a failing history'
                        % (len(jobs), iters, len(hits)))


def witness_search(prop, seed, outdir, budget_iters):
    """best-effort search for a concrete failing history on the real code (never decides a proved property)"""
    hits, runs, note = run_searches(prop, seed, budget_iters, outdir, 'witness')
    if hits:
        return hits[0][0], hits[0][1]
    return None, 'witness search (%s) found no failing history' % note


def main():
    global EVIDENCE_DIR
    import argparse
    ap = argparse.ArgumentParser()
    ap.add_argument('prop')
    ap.add_argument('--tier', default=os.environ.get('VERIF_TIER', 'quick'), choices=['quick', 'thorough'])
    ap.add_argument('--replay', default=None)
    a = ap.parse_args()
    prop = a.prop
    seed = int(os.environ.get('VERIF_SEED', '0') or 0)
    t_start = time.time()
    if a.replay:
        return do_replay(a.replay)
    if prop not in ALL_PROPS and prop != 'ALL':
        log('unknown property %s' % prop)
        return 2
    os.makedirs(GEN_DIR, exist_ok=True)
    os.makedirs(EVIDENCE_DIR, exist_ok=True)
    modes = ['lenient'] + (['strict'] if prop in STRICT_PROPS else [])
    if a.tier == 'thorough' or prop == 'ALL':
        modes = ['lenient', 'strict']
    results = {}
    tag = '%s_%d' % (prop, os.getpid())
    for mode in modes:
        out = os.path.join(GEN_DIR, 'ats_%s_%s.rs' % (mode, tag))
        force = {}
        for attempt in range(4):
            try:
                report, linemap = gen.generate(mode, out, None, force)
            except (gen.GenError, gen.LexError) as e:
                log('UNDECIDED property=%s: extraction failed (%s): %s' % (prop, mode, e))
                return global_stand_in(prop, a.tier, seed, 'extraction failed (%s): %s' % (mode, e)) if prop != 'ALL' else 2
            lm = LineMap(linemap)
            extra = []
            if a.tier == 'thorough' and seed:
                extra = ['--smt-option', 'smt.random_seed=%d' % (seed % 1000)]
            res = run_verus(out, extra)
            if res['timeout']:
                log('UNDECIDED property=%s: verifier timed out (%s)' % (prop, mode))
                return global_stand_in(prop, a.tier, seed, 'verifier timed out (%s)' % mode) if prop != 'ALL' else 2
            failures, undecided, compile_errors = classify(res['diags'], lm, out)
            # a repository function the verifier cannot translate (new std call, unsupported construct): stub that
            # function only (contract assumed, its properties undecided) and decide the rest
            culprits = {}
            for ce in compile_errors:
                for ln in ce.get('lines', []):
                    f = lm.func_at(ln)
                    if f and not f['qname'].startswith(('shim', 'spec')):
                        culprits[f['qname'].split('#')[0]] = ce['message'][:200]
            culprits = {q: m for q, m in culprits.items() if q not in force}
            if not compile_errors or not culprits:
                break
            force.update(culprits)
        # retry once with a larger resource limit when the only problem is the solver budget
        if not failures and not compile_errors and any(u['kind'] == 'rlimit' for u in undecided):
            os.environ['VERIF_RLIMIT'] = '400'
            res = run_verus(out, extra + ['--smt-option', 'smt.random_seed=7'])
            os.environ.pop('VERIF_RLIMIT')
            failures, undecided, compile_errors = classify(res['diags'], lm, out)
        if prop == 'ALL':
            vac = {'skipped': 'development sweep (ALL)'}
        else:
            vac = vacuity_run(mode, prop, tag, force) if not failures and not compile_errors else {'skipped': 'main run has failures'}
        failures, downgraded = downgrade_uncontracted(failures, report, lm, open(out).read())
        undecided += downgraded
        results[mode] = {'report': report, 'lm': lm, 'res': res, 'failures': failures, 'undecided': undecided,
                         'compile_errors': compile_errors, 'path': out, 'text': open(out).read(), 'vacuity': vac}
    if prop == 'ALL':
        # development sweep: one verifier run per mode, every property classified from it (no vacuity twins, no witness
        # search, evidence to a scratch directory); not registered in MANIFEST.json
        EVIDENCE_DIR = os.environ.get('VERIF_EVIDENCE_DIR', '/tmp/verif_all_evidence')
        os.makedirs(EVIDENCE_DIR, exist_ok=True)
        os.environ['VERIF_NO_WITNESS'] = '1'
        codes = {}
        for pr in ALL_PROPS:
            sub = {m: r for m, r in results.items() if m == 'lenient' or pr in STRICT_PROPS}
            codes[pr] = finish(pr, 'quick', seed, sub, t_start, None)
        log('SUMMARY ' + ' '.join('%s=%d' % (k, v) for k, v in codes.items()))
        code = max(codes.values()) if codes else 2
        if 1 in codes.values():
            code = 1
    else:
        extra = thorough_extras(prop, seed, results) if a.tier == 'thorough' else None
        code = finish(prop, a.tier, seed, results, t_start, extra)
    for mode in results:
        for ext in ('', '.report.json', '.linemap.json'):
            try:
                os.remove(results[mode]['path'] + ext)
            except OSError:
                pass
    return code


def global_stand_in(prop, tier, seed, why):
    """the whole generated file is out of the verifier's reach on this tree: bounded stand-in on the real code"""
    ev = {'property_id': prop, 'tier': tier, 'seed': seed, 'level': 'proof',
          'coverage': {'obligations': 0, 'discharged': 0, 'checker_cmd': 'none: ' + why, 'undecided': [why], 'bounded': []},
          'assumptions': ASSUMPTION_IDS, 'wall_s': 0, 'violations': 0}
    if ORACLES.get(prop) and not os.environ.get('VERIF_NO_WITNESS'):
        rdir = os.path.join(VERIF, 'replays', prop)
        hits, runs, note = run_searches(prop, seed or 1, 5000 if tier == 'quick' else 12000, rdir, 'bounded')
        ev['coverage']['bounded'] = [{'functions': ['<whole crate>'], 'stand_in': 'randomized search over histories of the real contract with the oracle(s) %s' % ', '.join(ORACLES[prop]),
                                      'bound': '%s; histories of at most 10 generated steps (migration 14, instantiate 2), seed %d' % (note, seed or 1),
                                      'counts_as': 'bounded exploration only - the property stays undecided when nothing is found', 'runs': runs}]
        ev['violations'] = len(hits)
        json.dump(ev, open(os.path.join(EVIDENCE_DIR, '%s.json' % prop), 'w'), indent=1)
        if hits:
            path = os.path.join(rdir, 'bounded_stand_in.json')
            json.dump({'property': prop, 'failed_obligation': None, 'mode': 'bounded stand-in', 'functions_out_of_reach': ['<whole crate>'],
                       'why_out_of_reach': [why], 'witness_history': hits[0][0], 'witness_note': hits[0][1],
                       'how_to_replay': './check %s --replay %s' % (prop, path)}, open(path, 'w'), indent=1)
            log('VIOLATION property=%s replay=%s' % (prop, path))
            return 1
        log('UNDECIDED property=%s: bounded stand-in on the real code found no failing history (%s)' % (prop, note))
    else:
        json.dump(ev, open(os.path.join(EVIDENCE_DIR, '%s.json' % prop), 'w'), indent=1)
    return 2


def downgrade_uncontracted(failures, report, lm, text):
    """a failed obligation is *undecided*, not a violation, when the verifier had no specification to go by:
       (a) the function calls a repository function without a contract (a helper that is new to this framework);
       (b) the function contains an un-annotated closure whose result matters (Verus derives nothing from such a
           closure; rules R16/R17 remove the common shapes, the error-building closures of map_err/ok_or_else are
           irrelevant to every clause)."""
    unknown = [f['qname'].split('::')[-1] for f in report['functions']
               if not f['contracted'] and not f['qname'].startswith(('common::ContractAction', 'error::', 'common::<From'))]
    lines = text.split('\n')
    keep, down = [], []
    cache = {}
    for f in failures:
        fn = next((x for x in lm.functions if x['qname'] == f.get('function')), None)
        body = '\n'.join(lines[fn['line_start'] - 1:fn['line_end']]) if fn else ''
        hit = [u for u in unknown if re.search(r'(?<![\w.])%s\s*\(' % re.escape(u), body)]
        key = f.get('function')
        if key not in cache:
            try:
                cache[key] = gen.unannotated_value_closures(body) if body else []
            except Exception:  # noqa
                cache[key] = []
        if hit:
            g = dict(f)
            g['kind'] = 'uncontracted-callee'
            g['message'] = 'calls %s, which has no contract in /verif/contracts; %s' % (', '.join(hit), f['message'])
            down.append(g)
        elif '/*R18 inlined' in body:
            # (c) the function carries the inlined body of an un-contracted helper (rule R18): a proof that goes through
            # counts, a proof that fails may fail for lack of specifications on what the helper uses - undecided
            g = dict(f)
            g['kind'] = 'uncontracted-callee'
            g['message'] = 'carries the inlined body of an un-contracted helper (R18); %s' % f['message']
            down.append(g)
        elif gen.opaque_format_uses(body):
            # (d) a string built by format! with a non-trivial format string is opaque to the verifier
            g = dict(f)
            g['kind'] = 'unannotated-closure'
            g['message'] = 'builds a string with format!(%s ..), whose content the verifier does not see; %s' % (gen.opaque_format_uses(body)[0], f['message'])
            down.append(g)
        elif cache[key]:
            g = dict(f)
            g['kind'] = 'unannotated-closure'
            g['message'] = ('contains a closure the verifier derives nothing from (%s); %s'
                            % ('; '.join('.%s(%s)' % (m, sn.replace('\n', ' ')) for m, sn in cache[key][:2]), f['message']))
            down.append(g)
        else:
            keep.append(f)
    return keep, down


def vacuity_run(mode, prop, tag, force=None):
    """twins that claim `r is Err` / `false` under the same preconditions, and the consistency probes: each must FAIL"""
    out = os.path.join(GEN_DIR, 'vac_%s_%s.rs' % (mode, tag))
    try:
        report, linemap = gen.generate(mode, out, [prop], force or {})
    except (gen.GenError, gen.LexError) as e:
        return {'error': 'generation failed: %s' % e}
    lm = LineMap(linemap)
    os.environ['VERIF_RLIMIT'] = '10'
    res = run_verus(out, timeout=600)
    os.environ.pop('VERIF_RLIMIT')
    twins = [f for f in lm.functions if '#vac#' in f['qname']]
    refuted = set()
    compile_err = None
    for d in res['diags']:
        if d.get('level') != 'error':
            continue
        msg = d.get('message', '')
        if d.get('code') is not None or re.search(r'not supported|unsupported|not yet support|does not support', msg, re.I):
            compile_err = msg
        for sp in d.get('spans', []):
            for f in twins:
                if f['line_start'] <= sp['line_start'] <= f['line_end']:
                    refuted.add(f['qname'])
    for ext in ('', '.report.json', '.linemap.json'):
        try:
            os.remove(out + ext)
        except OSError:
            pass
    vr = (res['json'] or {}).get('verification-results') or {}
    if compile_err or res['json'] is None or (vr.get('verified', 0) + vr.get('errors', 0)) == 0:
        return {'error': 'vacuity file did not compile / was not verified: %s' % (compile_err or res.get('stderr_tail', '')[-300:])}
    not_refuted = sorted(f['qname'] for f in twins if f['qname'] not in refuted)
    return {'twins': len(twins), 'refuted_as_required': len(refuted), 'verified_but_must_fail': not_refuted,
            'wall_s': round(res['wall_s'], 1)}


def replay_bin():
    b = subprocess.run(['cargo', 'build', '--release', '--offline', '-q'], cwd=os.path.join(VERIF, 'replay'),
                       capture_output=True, text=True, timeout=1800, env=dict(os.environ, CARGO_NET_OFFLINE='true'))
    if b.returncode != 0:
        return None, b.stderr[-400:]
    return os.path.join(VERIF, 'replay', 'target', 'release', 'ats-replay'), None


def thorough_extras(prop, seed, results):
    """thorough tier only: (a) a second solver seed (stability note), (b) the histories of every fixed finding of this
    property replayed on the real code (a history that fails again is a concrete violation), (c) a longer randomized
    witness search with the property's executable oracle on the real code (exploration, labelled as such),
    (d) the assumption audit of the trusted base against the real dependency crates (a mismatch is exit 2)."""
    rep = {}
    undecided, hits = [], []
    # (a) other solver seed on the lenient file
    r = results.get('lenient')
    if r and not r['failures'] and not r['compile_errors']:
        res2 = run_verus(r['path'], ['--smt-option', 'smt.random_seed=%d' % ((seed or 1) * 7919 % 100000)])
        f2, u2, c2 = classify(res2['diags'], r['lm'], r['path'])
        vj = (res2['json'] or {}).get('verification-results', {})
        rep['second_seed'] = {'verified': vj.get('verified'), 'errors': vj.get('errors'), 'wall_s': round(res2['wall_s'], 1),
                              'note': 'failures on the extra seed are a stability note, not a verdict',
                              'unstable': sorted(set((x.get('label') or x.get('function') or '?') for x in f2 + u2))}
    # (b) + (c) need the replay tool built against the current tree
    binp, err = replay_bin()
    if binp is None:
        rep['replay'] = {'skipped': 'replay tool does not build against the current tree: %s' % err}
    else:
        hist = []
        for k in load_known():
            if k.get('status') == 'fixed' and (k.get('property') == prop or prop in k.get('also', [])):
                h = os.path.join(VERIF, k['history'])
                p = subprocess.run([binp, 'run', h, '--quiet'], capture_output=True, text=True, timeout=600)
                hist.append({'finding': k['id'], 'history': k['history'], 'exit': p.returncode})
                if p.returncode == 3:
                    hits.append(h)
                elif p.returncode != 0:
                    undecided.append('replay of %s could not run (exit %d)' % (k['history'], p.returncode))
        rep['fixed_histories_replayed'] = hist
        if ORACLES.get(prop):
            rdir = os.path.join(VERIF, 'replays', prop)
            h2, runs, note = run_searches(prop, seed or 1, 20000, rdir, 'search')
            hits += [h for h, _ in h2]
            rep['witness_search_on_real_code'] = {'oracles': ORACLES.get(prop), 'kind': 'randomized exploration, not proof',
                                                  'bound': 'histories of at most 10 generated steps (migration profile 14, instantiate 2); value ranges in replay/ORACLES.md',
                                                  'summary': note, 'runs': runs}
    # (d) assumption audit
    audit = os.path.join(VERIF, 'audit', 'run.sh')
    if os.path.exists(audit):
        try:
            p = subprocess.run(['bash', audit, str(seed or 1), '20000'], capture_output=True, text=True, timeout=3000)
            tail = [l for l in p.stdout.split('\n') if l.strip()][-25:]
            rep['assumption_audit'] = {'exit': p.returncode, 'summary': tail,
                                       'kind': 'testing of the trusted base against the real crates, never counted as proof'}
            if p.returncode == 1:
                undecided.append('assumption audit: an assumed dependency contract disagrees with the real crate (see coverage.thorough.assumption_audit)')
            elif p.returncode != 0:
                rep['assumption_audit']['note'] = 'audit could not run: ' + p.stderr[-300:]
        except subprocess.TimeoutExpired:
            rep['assumption_audit'] = {'skipped': 'timeout'}
    return {'report': rep, 'undecided': undecided, 'real_hits': hits}


def relevant(props, prop):
    return prop in props or '*' in props


def explicit(props, prop):
    return prop in props


def finish(prop, tier, seed, results, t_start, extra=None):
    known = [k for k in load_known() if k.get('property') == prop]
    known_labels = {k['label']: k for k in known if k.get('status') == 'known' and k.get('label')}
    violations, known_hits, undecided_msgs = [], [], []
    out_of_reach = []      # functions with a clause of this property that the verifier could not be given / could not decide
    obligations = 0
    discharged = 0
    samples = []
    fn_contracted = set()
    per_mode = {}
    for mode, r in results.items():
        lm = r['lm']
        failed_labels = {}
        for f in r['failures']:
            if explicit(f['props'], prop):
                failed_labels.setdefault(f['label'], []).append(f)
            elif '*' in f['props']:
                # a clause every proof leans on (invariant precondition, accessor, induction lemma) failed: the proofs
                # of this property are unsupported, which is undecided, not a violation of this property
                undecided_msgs.append('%s: supporting obligation %s failed (%s); proofs that depend on it are not decided'
                                      % (mode, f['label'], f['message'][:120]))
        labels_here = [l for l in lm.labels if relevant(l['props'], prop)]
        # an obligation = one labelled clause instance in the generated text (copies count separately)
        obligations += len(labels_here)
        failed_base = set(x.split('@')[0] for x in failed_labels)
        discharged += sum(1 for l in labels_here if l['label'] not in failed_base)
        for l in labels_here[:3]:
            samples.append({'mode': mode, 'label': l['label'], 'clause': l['text'][:400]})
        # functions that carry a clause of this property
        fns = set()
        for l in labels_here:
            fns.add(l['label'].split('::closure#')[0].split('::loop#')[0].rsplit('::', 1)[0])
        fn_contracted |= fns
        fns_explicit = set(l['label'].split('::closure#')[0].split('::loop#')[0].rsplit('::', 1)[0]
                           for l in lm.labels if prop in l['props'] or ('*' in l['props'] and not l['label'].endswith('::inv.wf')))
        for q, why in (r['report'].get('unextractable') or {}).items():
            if q in fns_explicit:
                undecided_msgs.append('%s: %s is outside the extraction rules / verifier subset (%s); its clauses are not decided'
                                      % (mode, q, why[:160]))
                out_of_reach.append(q)
        per_mode_unx = r['report'].get('unextractable') or {}
        wp = r['report'].get('wire_premise_changed') or []
        if wp and mode == 'lenient':
            undecided_msgs.append('the wire format of a repository type changed (serde attribute / Serialize, Deserialize, PartialEq, '
                                  'Clone derive) against the baseline the assumptions A-SERDE / A-DERIVE were audited with: %s; '
                                  'the proofs model storage as typed values and do not see the byte format' % '; '.join(wp[:4]))
            out_of_reach.append('<persisted / message formats>')
        if r['compile_errors']:
            undecided_msgs.append('%s: the generated file does not compile / uses an unsupported construct: %s'
                                  % (mode, r['compile_errors'][0]['message'][:300]))
            out_of_reach.append('<whole file>')
        for q, pp in (r['report'].get('missing_contracted') or {}).items():
            if prop in pp or '*' in pp:
                undecided_msgs.append('%s: the contracted function %s no longer exists in /repo (renamed or folded into another '
                                      'function): its clauses cannot be checked' % (mode, q))
                out_of_reach.append(q)
        for u in r['undecided']:
            fq = (u.get('function') or '').split('#')[0]
            if fq in fns or u['kind'] == 'rlimit' and (not fq or fq in fns) or \
                    (u['kind'] in ('uncontracted-callee', 'unannotated-closure') and relevant(u.get('props', []), prop)):
                undecided_msgs.append('%s: %s in %s: %s' % (mode, u['kind'], u.get('function'), u['message'][:200]))
                if u['kind'] in ('uncontracted-callee', 'unannotated-closure') and fq:
                    out_of_reach.append(fq)
        vj = (r['res']['json'] or {}).get('verification-results', {})
        per_mode[mode] = {'verified': vj.get('verified'), 'errors': vj.get('errors'),
                          'wall_s': round(r['res']['wall_s'], 1),
                          'smt_ms': ((r['res']['json'] or {}).get('times-ms', {}).get('smt', {}) or {}).get('smt-run'),
                          'functions_total': len(r['report']['functions']),
                          'functions_contracted': sum(1 for f in r['report']['functions'] if f['contracted']),
                          'uncontracted': r['report'].get('uncontracted'),
                          'rules': r['report']['rules'],
                          'unextractable_functions_assumed': r['report'].get('unextractable') or {},
                          'cheat_scan': cheat_scan(r['text'])}
        # solver time per verified function (Verus --time-expanded): the functions that carry this property, and
        # the slowest queries of the whole file (a slow query is the unstable one)
        fb = []
        for m in (((r['res']['json'] or {}).get('times-ms', {}).get('smt', {}) or {}).get('smt-run-module-times') or []):
            for x in m.get('function-breakdown') or []:
                q = x.get('function', '').split('::', 1)[-1]
                fb.append({'function': q, 'smt_ms': x.get('time'), 'rlimit': x.get('rlimit'), 'success': x.get('success')})
        mine = [x for x in fb if any(x['function'].split('__')[0] == f or x['function'] == f for f in fns)]
        per_mode[mode]['solver_time_by_function'] = sorted(mine, key=lambda x: -(x['smt_ms'] or 0))[:40]
        per_mode[mode]['slowest_queries'] = sorted(fb, key=lambda x: -(x['smt_ms'] or 0))[:8]
        per_mode[mode]['queries'] = len(fb)
        vac = r.get('vacuity') or {}
        per_mode[mode]['vacuity'] = vac
        if vac.get('error'):
            undecided_msgs.append('%s: vacuity guard could not run: %s' % (mode, vac['error']))
        elif vac.get('verified_but_must_fail'):
            undecided_msgs.append('%s: contradictory precondition or unreachable Ok exit (vacuous proof) in %s'
                                  % (mode, ', '.join(vac['verified_but_must_fail'])))
        elif 'twins' in vac and vac['twins'] == 0:
            undecided_msgs.append('%s: vacuity guard generated no twin' % mode)
        if r['res']['json'] is None and not r['compile_errors']:
            undecided_msgs.append('%s: verifier produced no result (%s)' % (mode, r['res'].get('stderr_tail', '')[-300:]))
        novel_by_fn = {f['qname']: f.get('novel_constructs') or [] for f in r['report']['functions']}
        for label, fs in failed_labels.items():
            base = label
            if base in known_labels:
                known_hits.append((base, known_labels[base]))
                continue
            fq = (fs[0].get('function') or '').split('#')[0]
            violations.append({'mode': mode, 'label': label, 'failures': fs, 'result': r,
                               'novel': novel_by_fn.get(fq, [])})
    # vacuity: zero obligations means the check decides nothing
    if obligations == 0:
        undecided_msgs.append('no labelled obligation carries property %s (vacuous check)' % prop)
    wall = time.time() - t_start
    ev = {
        'property_id': prop, 'tier': tier, 'seed': seed, 'level': 'proof',
        'coverage': {
            'obligations': obligations, 'discharged': discharged,
            'checker_cmd': 'verus gen/ats_<mode>.rs --rlimit 100 --num-threads 16 --multiple-errors 40 --output-json --time-expanded --error-format=json',
            'trusted_base': trusted_base_list(next(iter(results.values()))['text']) if results else [],
            'functions_under_contract': sorted(fn_contracted),
            'modes': per_mode,
            'samples': samples,
            'back_end': 'Verus 0.2026.09.13 / Z3 (SMT, function-modular)',
            'bounded': [],
            'extraction': {'source_files': next(iter(results.values()))['report']['files'] if results else [],
                           'dropped': 'derive/serde/error/deprecated/allow/entry_point attributes; thiserror/schemars/serde use lines; #[cfg(test)] modules; doc comments; format! contents; bodies of ToString for ContractAction and From<ContractError> for StdError'},
        },
        'assumptions': ASSUMPTION_IDS,
        'wall_s': round(wall, 1),
        'violations': len(violations),
    }
    real_hits = []
    # golden-state histories (C13-C16): a realistic book in the raw byte format released versions wrote, queried, migrated,
    # matched and cancelled with hand-computed expectations. They pin the persisted formats, which the proofs do not see
    # (storage is modelled as typed values). A history that stops holding is a concrete violation on the real code.
    if prop in ('C13', 'C14', 'C15', 'C16') and not os.environ.get('VERIF_NO_WITNESS'):
        binp, err = replay_bin()
        gold = sorted(x for x in os.listdir(os.path.join(VERIF, 'replay', 'histories')) if x.startswith('golden_state_') and x.endswith('.json'))
        rows = []
        for g in gold:
            h = os.path.join(VERIF, 'replay', 'histories', g)
            if binp is None:
                rows.append({'history': g, 'ran': False, 'note': 'replay tool does not build: %s' % (err or '')[:200]})
                continue
            p = subprocess.run([binp, 'run', h, '--quiet'], capture_output=True, text=True, timeout=600)
            rows.append({'history': g, 'exit': p.returncode, 'holds': p.returncode == 0})
            if p.returncode == 3:
                real_hits.append(h)
        ev['coverage']['golden_state_histories'] = {'kind': 'fixed histories on the real code (raw released storage formats), not proof', 'runs': rows}
        ev['violations'] = len(violations) + len(real_hits)
        json.dump(ev, open(os.path.join(EVIDENCE_DIR, '%s.json' % prop), 'w'), indent=1)
    if extra:
        ev['coverage']['thorough'] = extra['report']
        undecided_msgs += extra['undecided']
        real_hits = real_hits + extra['real_hits']
        ev['violations'] = len(violations) + len(real_hits)
    if undecided_msgs and not violations:
        ev['coverage']['undecided'] = undecided_msgs[:10]
    json.dump(ev, open(os.path.join(EVIDENCE_DIR, '%s.json' % prop), 'w'), indent=1)
    for base, k in known_hits:
        log('KNOWN-FINDING: property=%s %s %s' % (prop, base, k.get('what_fails', '')))
    # findings recorded by a concrete history on the real code (no failing obligation: the proof holds only inside a
    # stated range and the history lies outside it): replayed on every run; printed while they still reproduce
    hist_known = [k for k in known if k.get('status') == 'known' and k.get('history') and not k.get('label')]
    if hist_known:
        binp, err = replay_bin()
        rk = []
        for k in hist_known:
            if binp is None:
                rk.append({'finding': k.get('id'), 'replayed': False, 'note': 'replay tool does not build: %s' % err})
                log('KNOWN-FINDING: property=%s %s %s (not replayed: tool does not build)' % (prop, k.get('id'), k.get('what_fails', '')))
                continue
            p = subprocess.run([binp, 'run', os.path.join(VERIF, k['history']), '--quiet'], capture_output=True, text=True, timeout=600)
            rk.append({'finding': k.get('id'), 'history': k['history'], 'exit': p.returncode,
                       'reproduces': p.returncode == 3})
            if p.returncode == 3:
                log('KNOWN-FINDING: property=%s %s %s' % (prop, k.get('id'), k.get('what_fails', '')))
        ev['coverage']['known_findings_replayed'] = rk
        json.dump(ev, open(os.path.join(EVIDENCE_DIR, '%s.json' % prop), 'w'), indent=1)
    for hit in real_hits:
        log('VIOLATION property=%s replay=%s' % (prop, hit))
    if real_hits and not violations:
        return 1
    if violations:
        rdir = os.path.join(VERIF, 'replays', prop)
        os.makedirs(rdir, exist_ok=True)
        seen = set()
        witness_cache = {}
        reported = 0
        for v in violations:
            if v['label'] in seen:
                continue
            seen.add(v['label'])
            safe = re.sub(r'[^A-Za-z0-9_.#@-]', '_', v['label'])
            path = os.path.join(rdir, safe + '.json')
            if 'w' not in witness_cache:
                if os.environ.get('VERIF_NO_WITNESS'):
                    witness_cache['w'] = (None, 'witness search skipped')
                else:
                    witness_cache['w'] = witness_search(prop, seed or 1, rdir, 5000 if tier == 'quick' else 20000)
            witness, note = witness_cache['w']
            if v.get('novel') and not witness:
                # the failing function uses library constructs no function of the audited tree used: the obligation may
                # fail for lack of a specification of those constructs rather than because the property is broken, and
                # the bounded search on the real code found no failing history -> undecided, not a violation
                undecided_msgs.append('%s: obligation %s is not discharged, but its function uses constructs the audited tree '
                                      'did not (%s): the verifier may simply lack their specification; %s'
                                      % (v['mode'], v['label'], '; '.join(v['novel'][:4]), note))
                continue
            reported += 1
            rep = {'property': prop, 'failed_obligation': v['label'], 'mode': v['mode'],
                   'function': v['failures'][0].get('function'),
                   'verifier_output': [f['rendered'] for f in v['failures']][:3],
                   'clause': next((l['text'] for l in v['result']['lm'].labels if l['label'] == v['label'].split('@')[0]), None),
                   'witness_history': witness, 'witness_note': note,
                   'how_to_replay': ('./check %s --replay %s' % (prop, path))}
            json.dump(rep, open(path, 'w'), indent=1)
            log('VIOLATION property=%s replay=%s%s' % (prop, path, '' if witness else ' no-failing-input-found'))
        if reported:
            return 1
        ev['violations'] = 0
        ev['coverage']['undecided'] = undecided_msgs[:10]
        json.dump(ev, open(os.path.join(EVIDENCE_DIR, '%s.json' % prop), 'w'), indent=1)
    if undecided_msgs:
        # BOUNDED STAND-IN (never counted as proved): a function carrying a clause of this property is out of the verifier's
        # reach on this tree; explore the real code with the property's executable oracle. A failing history is a real
        # violation (replayable input); finding none leaves the property undecided.
        if out_of_reach and ORACLES.get(prop) and not os.environ.get('VERIF_NO_WITNESS'):
            rdir = os.path.join(VERIF, 'replays', prop)
            iters = 5000 if tier == 'quick' else 12000
            hits, runs, note = run_searches(prop, seed or 1, iters, rdir, 'bounded')
            ev['coverage']['bounded'] = [{'functions': sorted(set(out_of_reach)), 'stand_in': 'randomized search over histories of the real contract with the oracle(s) %s' % ', '.join(ORACLES[prop]),
                                          'bound': '%s; histories of at most 10 generated steps (migration 14, instantiate 2), seed %d' % (note, seed or 1),
                                          'counts_as': 'bounded exploration only - the property stays undecided when nothing is found',
                                          'runs': runs}]
            ev['violations'] = len(hits)
            json.dump(ev, open(os.path.join(EVIDENCE_DIR, '%s.json' % prop), 'w'), indent=1)
            if hits:
                path = os.path.join(rdir, 'bounded_stand_in.json')
                rep = {'property': prop, 'failed_obligation': None, 'mode': 'bounded stand-in',
                       'functions_out_of_reach': sorted(set(out_of_reach)), 'why_out_of_reach': undecided_msgs[:5],
                       'witness_history': hits[0][0], 'witness_note': hits[0][1],
                       'how_to_replay': './check %s --replay %s' % (prop, path)}
                json.dump(rep, open(path, 'w'), indent=1)
                log('VIOLATION property=%s replay=%s' % (prop, path))
                return 1
            undecided_msgs.append('bounded stand-in on the real code found no failing history (%s)' % note)
        for m in undecided_msgs[:10]:
            log('UNDECIDED property=%s: %s' % (prop, m))
        return 2
    # every obligation carrying this property is discharged. If obligations of OTHER properties failed on this tree (the
    # code changed and broke something), additionally explore the real code with this property's oracle: the clause ->
    # property tags are a hand-made dependency cone and a change may reach this property through a clause not tagged
    # with it. A failing history is a real violation; finding none leaves the proof's verdict (OK) in place.
    foreign = sorted(set(f.get('label') or '?' for r in results.values() for f in r['failures']))
    if foreign and ORACLES.get(prop) and not os.environ.get('VERIF_NO_WITNESS'):
        rdir = os.path.join(VERIF, 'replays', prop)
        hits, runs, note = run_searches(prop, seed or 1, 2500 if tier == 'quick' else 10000, rdir, 'extra')
        ev['coverage']['extra_exploration'] = {'why': 'obligations of other properties fail on this tree: %s' % ', '.join(foreign[:6]),
                                               'kind': 'randomized search on the real code, not proof', 'summary': note, 'runs': runs}
        ev['violations'] = len(hits)
        json.dump(ev, open(os.path.join(EVIDENCE_DIR, '%s.json' % prop), 'w'), indent=1)
        if hits:
            path = os.path.join(rdir, 'extra_exploration.json')
            json.dump({'property': prop, 'failed_obligation': None, 'mode': 'exploration of the real code (other obligations fail on this tree)',
                       'functions_out_of_reach': [], 'failed_obligations_of_other_properties': foreign[:20],
                       'witness_history': hits[0][0], 'witness_note': hits[0][1],
                       'how_to_replay': './check %s --replay %s' % (prop, path)}, open(path, 'w'), indent=1)
            log('VIOLATION property=%s replay=%s' % (prop, path))
            return 1
    log('OK property=%s tier=%s obligations=%d discharged=%d wall=%.1fs' % (prop, tier, obligations, discharged, wall))
    return 0


def do_replay(path):
    rep = json.load(open(path))
    if 'steps' in rep and 'failed_obligation' not in rep:
        # the replay file IS a history (golden-state histories, thorough-tier hits): run it on the real code
        binp, err = replay_bin()
        if binp is None:
            log('replay tool does not build against the current tree: %s' % err)
            return 2
        p = subprocess.run([binp, 'run', path])
        log('history %s on the real code: exit %d (0 = every recorded expectation holds, 3 = an expectation or oracle fails)' % (path, p.returncode))
        return 0
    if rep.get('failed_obligation'):
        log('failed obligation: %s (%s mode) in %s' % (rep.get('failed_obligation'), rep.get('mode'), rep.get('function')))
    else:
        log('bounded stand-in: %s out of the verifier\'s reach; failing history found on the real code' % ', '.join(rep.get('functions_out_of_reach', [])))
    for o in rep.get('verifier_output', []):
        log(o)
    w = rep.get('witness_history')
    if w and os.path.exists(w):
        binp = os.path.join(VERIF, 'replay', 'target', 'release', 'ats-replay')
        subprocess.run(['cargo', 'build', '--release', '--offline', '-q'], cwd=os.path.join(VERIF, 'replay'),
                       env=dict(os.environ, CARGO_NET_OFFLINE='true'))
        p = subprocess.run([binp, 'run', w])
        log('replay of witness history on the real code: exit %d (0 = the recorded failure reproduces)' % p.returncode)
        return 0
    log('no concrete input: re-run the obligation with ./check %s' % rep.get('property'))
    return 0


if __name__ == '__main__':
    sys.exit(main())
