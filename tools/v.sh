#!/bin/bash
# dev helper: tools/v.sh <mode> <module> [function] [extra verus args]
mode=$1; mod=$2; fn=$3; shift 3
python3 /verif/tools/gen.py --mode $mode >/dev/null || exit 2
args="--verify-only-module $mod"
[ -n "$fn" ] && [ "$fn" != "-" ] && args="$args --verify-function $fn"
verus /verif/gen/ats_$mode.rs --rlimit ${RL:-50} --num-threads 16 $args "$@" 2>&1 | grep -v "^WARNING conda"
