//! History execution against the real contract code (`ats_smart_contract`),
//! with a token ledger, chain-like rollback, and assert evaluation.

use crate::format::{
    self, AskRec, BidRec, ConfigRec, LegacyBidRec, StoredBid, VersionRec, NS_ASK, NS_BID,
};
use crate::oracles::{self, OracleResult, OracleSel, StepCtx};
use ats_smart_contract::contract::{execute, instantiate, migrate, query};
use ats_smart_contract::msg::{ExecuteMsg, InstantiateMsg, MigrateMsg, QueryMsg};
use ats_smart_contract::version_info::CRATE_NAME;
use cosmwasm_std::testing::{mock_env, MockApi, MockStorage, MOCK_CONTRACT_ADDR};
use cosmwasm_std::{
    from_slice, to_binary, Addr, BankMsg, Binary, Coin, ContractResult, CosmosMsg, Deps, DepsMut,
    Empty, Env, MessageInfo, Order, OwnedDeps, QuerierWrapper, Response, Storage, SystemError,
    SystemResult,
};
use prost::Message;
use provwasm_common::MockableQuerier;
use provwasm_mocks::{mock_provenance_dependencies, MockProvenanceQuerier};
use provwasm_std::shim::Any;
use provwasm_std::types::cosmos::auth::v1beta1::BaseAccount;
use provwasm_std::types::provenance::attribute::v1::{
    Attribute, AttributeType, QueryAttributesRequest, QueryAttributesResponse,
};
use provwasm_std::types::provenance::marker::v1::{
    MarkerAccount, MarkerStatus, MarkerType, MsgTransferRequest, QueryMarkerRequest,
    QueryMarkerResponse,
};
use serde_json::{json, Map, Value};
use std::cell::RefCell;
use std::collections::BTreeMap;
use std::panic::{catch_unwind, AssertUnwindSafe};

pub const MARKER_QUERY_PATH: &str = "/provenance.marker.v1.Query/Marker";
pub const ATTRIBUTE_QUERY_PATH: &str = "/provenance.attribute.v1.Query/Attributes";
pub const MARKER_TRANSFER_TYPE_URL: &str = "/provenance.marker.v1.MsgTransferRequest";

/// account -> denom -> signed net balance change since instantiation
pub type Ledger = BTreeMap<String, BTreeMap<String, i128>>;

pub fn ledger_get(l: &Ledger, account: &str, denom: &str) -> i128 {
    l.get(account)
        .and_then(|m| m.get(denom))
        .copied()
        .unwrap_or(0)
}

fn ledger_add(l: &mut Ledger, account: &str, denom: &str, delta: i128) {
    let e = l
        .entry(account.to_string())
        .or_default()
        .entry(denom.to_string())
        .or_insert(0);
    *e = e.saturating_add(delta);
}

fn ledger_move(l: &mut Ledger, from: &str, to: &str, denom: &str, amount: u128) {
    let a = i128::try_from(amount).unwrap_or(i128::MAX);
    ledger_add(l, from, denom, -a);
    ledger_add(l, to, denom, a);
}

pub fn ledger_json(l: &Ledger) -> Value {
    let mut o = Map::new();
    for (acct, m) in l {
        let mut d = Map::new();
        for (denom, v) in m {
            d.insert(denom.clone(), Value::String(v.to_string()));
        }
        o.insert(acct.clone(), Value::Object(d));
    }
    Value::Object(o)
}

// ---------------------------------------------------------------------------
// panic capture
// ---------------------------------------------------------------------------

thread_local! {
    static LAST_PANIC: RefCell<Option<String>> = const { RefCell::new(None) };
}

/// Silences the default panic printer and records the panic message instead
/// (contract panics are an expected, reported outcome of a step).
pub fn install_panic_hook() {
    std::panic::set_hook(Box::new(|info| {
        let msg = if let Some(s) = info.payload().downcast_ref::<&str>() {
            s.to_string()
        } else if let Some(s) = info.payload().downcast_ref::<String>() {
            s.clone()
        } else {
            "non-string panic payload".to_string()
        };
        let loc = info
            .location()
            .map(|l| format!(" at {}:{}", l.file(), l.line()))
            .unwrap_or_default();
        LAST_PANIC.with(|p| *p.borrow_mut() = Some(format!("{msg}{loc}")));
    }));
}

pub fn take_panic_message() -> String {
    LAST_PANIC
        .with(|p| p.borrow_mut().take())
        .unwrap_or_else(|| "panic (no message captured)".to_string())
}

pub enum CallResult<T> {
    Ok(T),
    Err(String),
    Panic(String),
}

fn guarded<T, E: std::fmt::Debug + std::fmt::Display>(
    f: impl FnOnce() -> Result<T, E>,
) -> CallResult<T> {
    match catch_unwind(AssertUnwindSafe(f)) {
        Ok(Ok(v)) => CallResult::Ok(v),
        Ok(Err(e)) => CallResult::Err(format!("{e} [{e:?}]")),
        Err(_) => CallResult::Panic(take_panic_message()),
    }
}

// ---------------------------------------------------------------------------
// storage helpers
// ---------------------------------------------------------------------------

pub fn clone_storage(s: &MockStorage) -> MockStorage {
    let mut n = MockStorage::new();
    for (k, v) in s.range(None, None, Order::Ascending) {
        n.set(&k, &v);
    }
    n
}

/// Raw scan of a cw-storage-plus `Map` namespace (single-component keys):
/// storage key = be16(len(ns)) ++ ns ++ key.
pub fn scan_namespace(storage: &dyn Storage, ns: &str) -> Vec<(Vec<u8>, Vec<u8>)> {
    let prefix = format::map_prefix(ns);
    let mut end = prefix.clone();
    // namespaces are ascii, so the last byte never overflows
    if let Some(b) = end.last_mut() {
        *b = b.wrapping_add(1);
    }
    storage
        .range(Some(&prefix), Some(&end), Order::Ascending)
        .filter(|(k, _)| k.starts_with(&prefix))
        .map(|(k, v)| (k[prefix.len()..].to_vec(), v))
        .collect()
}

/// Complete raw copy of the contract storage at one moment (the "state" the step-level
/// oracles compare before / after a request).
#[derive(Clone, Debug, Default)]
pub struct Snap {
    pub raw: Vec<(Vec<u8>, Vec<u8>)>,
}

pub const ASK_PREFIX: &[u8] = b"\x00\x03ask";
pub const BID_PREFIX: &[u8] = b"\x00\x03bid";
pub const CONTRACT_INFO_KEY: &[u8] = format::ITEM_CONTRACT_INFO.as_bytes();
pub const VERSION_INFO_KEY: &[u8] = format::ITEM_VERSION_INFO.as_bytes();

impl Snap {
    pub fn take(storage: &dyn Storage) -> Snap {
        Snap {
            raw: storage.range(None, None, Order::Ascending).collect(),
        }
    }
    pub fn get(&self, key: &[u8]) -> Option<&[u8]> {
        self.raw
            .iter()
            .find(|(k, _)| k.as_slice() == key)
            .map(|(_, v)| v.as_slice())
    }
    /// (id bytes, stored bytes) of every record of a `Map` namespace
    pub fn namespace(&self, prefix: &[u8]) -> Vec<(&[u8], &[u8])> {
        self.raw
            .iter()
            .filter(|(k, _)| k.starts_with(prefix))
            .map(|(k, v)| (&k[prefix.len()..], v.as_slice()))
            .collect()
    }
    pub fn asks(&self) -> Vec<(&[u8], &[u8])> {
        self.namespace(ASK_PREFIX)
    }
    pub fn bids(&self) -> Vec<(&[u8], &[u8])> {
        self.namespace(BID_PREFIX)
    }
    pub fn ask_raw(&self, id: &str) -> Option<&[u8]> {
        let mut k = ASK_PREFIX.to_vec();
        k.extend_from_slice(id.as_bytes());
        self.get(&k)
    }
    pub fn bid_raw(&self, id: &str) -> Option<&[u8]> {
        let mut k = BID_PREFIX.to_vec();
        k.extend_from_slice(id.as_bytes());
        self.get(&k)
    }
    /// the golden-shape ask stored under `id`, read with the hand-written reader
    pub fn ask(&self, id: &str) -> Option<AskRec> {
        self.ask_raw(id).and_then(|b| format::ask_of(b).ok())
    }
    /// the golden current-format bid stored under `id`, if any
    pub fn bid(&self, id: &str) -> Option<BidRec> {
        self.bid_raw(id).and_then(format::current_bid_of)
    }
    pub fn contract_info(&self) -> Option<ConfigRec> {
        self.get(CONTRACT_INFO_KEY).and_then(|b| format::config_of(b).ok())
    }
    pub fn version(&self) -> Option<VersionRec> {
        self.get(VERSION_INFO_KEY).and_then(|b| format::version_of(b).ok())
    }
    /// every storage entry except the listed keys / prefixes is the same in both snapshots
    pub fn same_except(&self, other: &Snap, except: &[&[u8]]) -> bool {
        let keep = |k: &Vec<u8>| !except.iter().any(|e| k.starts_with(e));
        let a: Vec<&(Vec<u8>, Vec<u8>)> = self.raw.iter().filter(|(k, _)| keep(k)).collect();
        let b: Vec<&(Vec<u8>, Vec<u8>)> = other.raw.iter().filter(|(k, _)| keep(k)).collect();
        a == b
    }
}

// ---------------------------------------------------------------------------
// messages
// ---------------------------------------------------------------------------

#[derive(Clone, Debug)]
pub enum Msg {
    Bank {
        to: String,
        coins: Vec<(String, u128)>,
    },
    MarkerTransfer {
        from: String,
        to: String,
        admin: String,
        denom: String,
        amount: u128,
    },
    Other {
        debug: String,
    },
}

impl Msg {
    pub fn to_json(&self) -> Value {
        match self {
            Msg::Bank { to, coins } if coins.len() == 1 => json!({
                "kind": "bank", "to": to, "denom": coins[0].0, "amount": coins[0].1.to_string()
            }),
            Msg::Bank { to, coins } => json!({
                "kind": "bank", "to": to,
                "coins": coins.iter().map(|(d, a)| json!({"denom": d, "amount": a.to_string()})).collect::<Vec<_>>()
            }),
            Msg::MarkerTransfer {
                from,
                to,
                admin,
                denom,
                amount,
            } => json!({
                "kind": "marker_transfer", "from": from, "to": to, "admin": admin,
                "denom": denom, "amount": amount.to_string()
            }),
            Msg::Other { debug } => json!({"kind": "other", "debug": debug}),
        }
    }

    /// (from, to, denom, amount) token movements implied by the message
    pub fn transfers(&self, contract: &str) -> Vec<(String, String, String, u128)> {
        match self {
            Msg::Bank { to, coins } => coins
                .iter()
                .map(|(d, a)| (contract.to_string(), to.clone(), d.clone(), *a))
                .collect(),
            Msg::MarkerTransfer {
                from,
                to,
                denom,
                amount,
                ..
            } => vec![(from.clone(), to.clone(), denom.clone(), *amount)],
            Msg::Other { .. } => vec![],
        }
    }
}

pub fn parse_msg(m: &CosmosMsg) -> Msg {
    match m {
        CosmosMsg::Bank(BankMsg::Send { to_address, amount }) => Msg::Bank {
            to: to_address.clone(),
            coins: amount
                .iter()
                .map(|c| (c.denom.clone(), c.amount.u128()))
                .collect(),
        },
        CosmosMsg::Stargate { type_url, value } if type_url == MARKER_TRANSFER_TYPE_URL => {
            match MsgTransferRequest::decode(value.as_slice()) {
                Ok(req) => {
                    let (denom, amount) = match &req.amount {
                        Some(c) => (c.denom.clone(), c.amount.parse::<u128>()),
                        None => (String::new(), Ok(0)),
                    };
                    match (amount, req.amount.is_some()) {
                        (Ok(amount), true) => Msg::MarkerTransfer {
                            from: req.from_address,
                            to: req.to_address,
                            admin: req.administrator,
                            denom,
                            amount,
                        },
                        _ => Msg::Other {
                            debug: format!("undecodable MsgTransferRequest amount: {req:?}"),
                        },
                    }
                }
                Err(e) => Msg::Other {
                    debug: format!("MsgTransferRequest decode error: {e}"),
                },
            }
        }
        other => Msg::Other {
            debug: format!("{other:?}"),
        },
    }
}

// ---------------------------------------------------------------------------
// book
// ---------------------------------------------------------------------------

#[derive(Clone, Debug)]
pub enum AskEntry {
    /// a record in the golden ask format
    V1(AskRec),
    Raw { key: String, value: Value },
}

#[derive(Clone, Debug)]
pub enum BidEntry {
    /// a record in the golden current format
    V3(BidRec),
    /// a record in the golden legacy (event log) format
    V2 {
        key: String,
        value: Value,
        order: LegacyBidRec,
    },
    Unknown {
        key: String,
        value: Value,
    },
}

/// The order book as the hand-written reader (`format.rs`) sees the raw storage: records are
/// classified by shape and read field by field; no type of the contract is involved.
#[derive(Clone, Debug, Default)]
pub struct Book {
    pub asks: Vec<AskEntry>,
    pub bids: Vec<BidEntry>,
    /// storage keys, parallel to `asks` / `bids` (an order is addressed by its key, which a defect may
    /// let drift from the order's own `id` field)
    pub ask_keys: Vec<String>,
    pub bid_keys: Vec<String>,
    /// the stored JSON, parallel to `asks` / `bids`
    pub ask_values: Vec<Value>,
    pub bid_values: Vec<Value>,
}

fn raw_value(bytes: &[u8]) -> Value {
    serde_json::from_slice::<Value>(bytes)
        .unwrap_or_else(|_| Value::String(String::from_utf8_lossy(bytes).to_string()))
}

impl Book {
    pub fn read(storage: &dyn Storage) -> Book {
        let mut book = Book::default();
        for (k, v) in scan_namespace(storage, NS_ASK) {
            let key = String::from_utf8_lossy(&k).to_string();
            book.ask_keys.push(key.clone());
            book.ask_values.push(raw_value(&v));
            match format::ask_of(&v) {
                Ok(a) => book.asks.push(AskEntry::V1(a)),
                Err(_) => book.asks.push(AskEntry::Raw {
                    key,
                    value: raw_value(&v),
                }),
            }
        }
        for (k, v) in scan_namespace(storage, NS_BID) {
            let key = String::from_utf8_lossy(&k).to_string();
            book.bid_keys.push(key.clone());
            book.bid_values.push(raw_value(&v));
            match format::classify_bid(&v) {
                StoredBid::Current(b) => book.bids.push(BidEntry::V3(b)),
                StoredBid::Legacy(b) => book.bids.push(BidEntry::V2 {
                    key,
                    value: raw_value(&v),
                    order: b,
                }),
                StoredBid::Malformed { .. } => book.bids.push(BidEntry::Unknown {
                    key,
                    value: raw_value(&v),
                }),
            }
        }
        book
    }

    pub fn to_json(&self) -> Value {
        let asks: Vec<Value> = self
            .asks
            .iter()
            .zip(self.ask_values.iter())
            .map(|(a, raw)| match a {
                AskEntry::V1(_) => raw.clone(),
                AskEntry::Raw { key, value } => {
                    json!({"raw": value, "format": "unknown", "key": key})
                }
            })
            .collect();
        let bids: Vec<Value> = self
            .bids
            .iter()
            .zip(self.bid_values.iter())
            .map(|(b, raw)| match b {
                BidEntry::V3(_) => raw.clone(),
                BidEntry::V2 { key, value, .. } => {
                    json!({"raw": value, "format": "v2", "key": key})
                }
                BidEntry::Unknown { key, value } => {
                    json!({"raw": value, "format": "unknown", "key": key})
                }
            })
            .collect();
        json!({"asks": asks, "bids": bids})
    }

    pub fn v1_asks(&self) -> impl Iterator<Item = &AskRec> {
        self.asks.iter().filter_map(|a| match a {
            AskEntry::V1(a) => Some(a),
            _ => None,
        })
    }

    /// current-format orders as a requester sees them: named by their storage key
    pub fn v1_asks_by_key(&self) -> Vec<AskRec> {
        self.asks
            .iter()
            .zip(self.ask_keys.iter())
            .filter_map(|(a, k)| match a {
                AskEntry::V1(a) => {
                    let mut a = a.clone();
                    a.id = k.clone();
                    Some(a)
                }
                _ => None,
            })
            .collect()
    }

    pub fn v3_bids_by_key(&self) -> Vec<BidRec> {
        self.bids
            .iter()
            .zip(self.bid_keys.iter())
            .filter_map(|(b, k)| match b {
                BidEntry::V3(b) => {
                    let mut b = b.clone();
                    b.id = k.clone();
                    Some(b)
                }
                _ => None,
            })
            .collect()
    }

    pub fn v3_bids(&self) -> impl Iterator<Item = &BidRec> {
        self.bids.iter().filter_map(|b| match b {
            BidEntry::V3(b) => Some(b),
            _ => None,
        })
    }

    pub fn has_ask(&self, id: &str) -> bool {
        self.asks.iter().any(|a| match a {
            AskEntry::V1(a) => a.id == id,
            AskEntry::Raw { key, .. } => key == id,
        })
    }

    pub fn has_bid(&self, id: &str) -> bool {
        self.bids.iter().any(|b| match b {
            BidEntry::V3(b) => b.id == id,
            BidEntry::V2 { key, .. } | BidEntry::Unknown { key, .. } => key == id,
        })
    }
}

// ---------------------------------------------------------------------------
// world
// ---------------------------------------------------------------------------

pub type MockDeps = OwnedDeps<MockStorage, MockApi, MockProvenanceQuerier, Empty>;

pub struct World {
    pub deps: MockDeps,
    pub contract: String,
    pub markers: BTreeMap<String, String>,
    pub attributes: BTreeMap<String, Vec<String>>,
    pub ledger: Ledger,
}

fn marker_response(denom: &str, t: MarkerType) -> QueryMarkerResponse {
    let m = MarkerAccount {
        base_account: Some(BaseAccount {
            address: format!("marker_{denom}"),
            pub_key: None,
            account_number: 1,
            sequence: 0,
        }),
        manager: "".into(),
        access_control: vec![],
        status: MarkerStatus::Active.into(),
        denom: denom.into(),
        supply: "1000000000".into(),
        marker_type: t.into(),
        supply_fixed: false,
        allow_governance_control: true,
        allow_forced_transfer: false,
        required_attributes: vec![],
    };
    QueryMarkerResponse {
        marker: Some(Any {
            type_url: "/provenance.marker.v1.MarkerAccount".into(),
            value: m.encode_to_vec(),
        }),
    }
}

fn string_map(v: Option<&Value>, what: &str) -> Result<BTreeMap<String, Value>, String> {
    match v {
        None | Some(Value::Null) => Ok(BTreeMap::new()),
        Some(Value::Object(o)) => Ok(o.iter().map(|(k, v)| (k.clone(), v.clone())).collect()),
        Some(_) => Err(format!("\"{what}\" must be an object")),
    }
}

impl World {
    /// Builds the mock dependencies from the history header (`contract`, `markers`, `attributes`).
    pub fn new(history: &Value) -> Result<World, String> {
        if !history.is_object() {
            return Err("history must be a JSON object".into());
        }
        let contract = match history.get("contract") {
            None | Some(Value::Null) => MOCK_CONTRACT_ADDR.to_string(),
            Some(Value::String(s)) if !s.is_empty() => s.clone(),
            Some(_) => return Err("\"contract\" must be a non-empty string".into()),
        };

        let mut markers = BTreeMap::new();
        for (denom, v) in string_map(history.get("markers"), "markers")? {
            let t = v
                .as_str()
                .ok_or_else(|| format!("markers.{denom} must be a string"))?;
            match t {
                "restricted" | "coin" | "none" => {
                    markers.insert(denom, t.to_string());
                }
                _ => {
                    return Err(format!(
                        "markers.{denom}: unknown marker type \"{t}\" (restricted|coin|none)"
                    ))
                }
            }
        }

        let mut attributes: BTreeMap<String, Vec<String>> = BTreeMap::new();
        for (acct, v) in string_map(history.get("attributes"), "attributes")? {
            let arr = v
                .as_array()
                .ok_or_else(|| format!("attributes.{acct} must be an array of strings"))?;
            let mut names = vec![];
            for n in arr {
                names.push(
                    n.as_str()
                        .ok_or_else(|| format!("attributes.{acct} must be an array of strings"))?
                        .to_string(),
                );
            }
            attributes.insert(acct, names);
        }

        let mut deps = mock_provenance_dependencies();
        let mk = markers.clone();
        deps.querier.register_custom_query(
            MARKER_QUERY_PATH.to_string(),
            Box::new(move |data| {
                let req = match QueryMarkerRequest::decode(data.as_slice()) {
                    Ok(r) => r,
                    Err(e) => {
                        return SystemResult::Err(SystemError::InvalidRequest {
                            error: format!("QueryMarkerRequest decode: {e}"),
                            request: data.clone(),
                        })
                    }
                };
                let resp = match mk.get(&req.id).map(|s| s.as_str()) {
                    Some("restricted") => marker_response(&req.id, MarkerType::Restricted),
                    Some("coin") => marker_response(&req.id, MarkerType::Coin),
                    _ => QueryMarkerResponse { marker: None },
                };
                match to_binary(&resp) {
                    Ok(b) => SystemResult::Ok(ContractResult::Ok(b)),
                    Err(e) => SystemResult::Ok(ContractResult::Err(e.to_string())),
                }
            }),
        );
        let at = attributes.clone();
        deps.querier.register_custom_query(
            ATTRIBUTE_QUERY_PATH.to_string(),
            Box::new(move |data| {
                let req = match QueryAttributesRequest::decode(data.as_slice()) {
                    Ok(r) => r,
                    Err(e) => {
                        return SystemResult::Err(SystemError::InvalidRequest {
                            error: format!("QueryAttributesRequest decode: {e}"),
                            request: data.clone(),
                        })
                    }
                };
                let names = at.get(&req.account).cloned().unwrap_or_default();
                let resp = QueryAttributesResponse {
                    account: req.account.clone(),
                    attributes: names
                        .into_iter()
                        .map(|name| Attribute {
                            name,
                            value: b"value".to_vec(),
                            attribute_type: AttributeType::String.into(),
                            address: req.account.clone(),
                        })
                        .collect(),
                    pagination: None,
                };
                match to_binary(&resp) {
                    Ok(b) => SystemResult::Ok(ContractResult::Ok(b)),
                    Err(e) => SystemResult::Ok(ContractResult::Err(e.to_string())),
                }
            }),
        );

        Ok(World {
            deps,
            contract,
            markers,
            attributes,
            ledger: Ledger::new(),
        })
    }

    pub fn env(&self) -> Env {
        let mut env = mock_env();
        env.contract.address = Addr::unchecked(self.contract.clone());
        env
    }

    pub fn marker_type(&self, denom: &str) -> &str {
        self.markers.get(denom).map(|s| s.as_str()).unwrap_or("none")
    }

    pub fn book(&self) -> Book {
        Book::read(&self.deps.storage)
    }

    /// the stored configuration, read from the raw item with the hand-written reader
    pub fn contract_info(&self) -> Option<ConfigRec> {
        self.deps
            .storage
            .get(CONTRACT_INFO_KEY)
            .and_then(|b| format::config_of(&b).ok())
    }

    pub fn version_info(&self) -> Option<VersionRec> {
        self.deps
            .storage
            .get(VERSION_INFO_KEY)
            .and_then(|b| format::version_of(&b).ok())
    }

    /// Runs `execute` on an arbitrary storage (used with clones by the liveness oracle).
    pub fn execute_on(
        &self,
        storage: &mut MockStorage,
        sender: &str,
        funds: &[Coin],
        msg: ExecuteMsg,
    ) -> CallResult<Response> {
        let env = self.env();
        let info = MessageInfo {
            sender: Addr::unchecked(sender),
            funds: funds.to_vec(),
        };
        let api = &self.deps.api;
        let querier = &self.deps.querier;
        guarded(move || {
            let deps = DepsMut {
                storage,
                api,
                querier: QuerierWrapper::new(querier),
            };
            execute(deps, env, info, msg)
        })
    }

    fn resolve(&self, account: &str) -> String {
        if account == "contract" {
            self.contract.clone()
        } else {
            account.to_string()
        }
    }

    pub fn resolve_account(&self, account: &str) -> String {
        self.resolve(account)
    }

    fn apply_messages(&mut self, msgs: &[Msg]) {
        let contract = self.contract.clone();
        for m in msgs {
            for (from, to, denom, amount) in m.transfers(&contract) {
                ledger_move(&mut self.ledger, &from, &to, &denom, amount);
            }
        }
    }

    fn snapshot(&self, out: &mut StepOutcome) {
        out.ledger = self.ledger.clone();
        out.book = self.book();
        // the stored records as they are (raw JSON), not through a type of the contract
        let raw_item = |key: &[u8]| -> Value {
            self.deps
                .storage
                .get(key)
                .and_then(|b| serde_json::from_slice::<Value>(&b).ok())
                .unwrap_or(Value::Null)
        };
        out.contract_info = raw_item(CONTRACT_INFO_KEY);
        out.version_info = raw_item(VERSION_INFO_KEY);
        out.snap = Snap::take(&self.deps.storage);
    }

    fn run_oracles(
        &self,
        out: &mut StepOutcome,
        sel: &OracleSel,
        pre: &Snap,
        request: &Request,
        funds: &[Coin],
    ) {
        if matches!(sel, OracleSel::Nothing) {
            return;
        }
        let post = out.snap.clone();
        let ctx = StepCtx {
            kind: &out.kind,
            exec_kind: out.exec_kind.as_deref(),
            sender: out.sender.as_deref(),
            request,
            funds,
            ok: out.ok,
            panicked: out.panicked,
            error: out.error.as_deref(),
            messages: &out.messages,
            attributes: &out.attributes,
            pre,
            post: &post,
        };
        let res = oracles::evaluate(self, &out.book, &ctx, sel);
        if out.ok || !res.is_empty() {
            out.oracles = Some(res);
        }
    }

    /// Runs `query` on an arbitrary storage.
    pub fn query_on(&self, storage: &MockStorage, msg: QueryMsg) -> CallResult<Binary> {
        let env = self.env();
        let api = &self.deps.api;
        let querier = &self.deps.querier;
        guarded(move || {
            let deps = Deps {
                storage,
                api,
                querier: QuerierWrapper::new(querier),
            };
            query(deps, env, msg)
        })
    }

    /// Runs `migrate` on an arbitrary storage.
    pub fn migrate_on(&self, storage: &mut MockStorage, msg: MigrateMsg) -> CallResult<Response> {
        let env = self.env();
        let api = &self.deps.api;
        let querier = &self.deps.querier;
        guarded(move || {
            let deps = DepsMut {
                storage,
                api,
                querier: QuerierWrapper::new(querier),
            };
            migrate(deps, env, msg)
        })
    }

    pub fn instantiate(&mut self, v: Option<&Value>, sel: &OracleSel) -> StepOutcome {
        let mut out = StepOutcome::new(0, "instantiate");
        let v = match v {
            Some(v) => v,
            None => {
                out.error = Some("history has no \"instantiate\" entry".into());
                self.snapshot(&mut out);
                return out;
            }
        };
        let sender = v
            .get("sender")
            .and_then(|s| s.as_str())
            .unwrap_or("admin")
            .to_string();
        out.sender = Some(sender.clone());
        let msg: InstantiateMsg = match v
            .get("msg")
            .ok_or_else(|| "instantiate.msg missing".to_string())
            .and_then(|m| parse_contract_json(m))
        {
            Ok(m) => m,
            Err(e) => {
                out.error = Some(format!("malformed message: {e}"));
                self.snapshot(&mut out);
                return out;
            }
        };
        let env = self.env();
        let info = MessageInfo {
            sender: Addr::unchecked(sender),
            funds: vec![],
        };
        let backup = clone_storage(&self.deps.storage);
        let pre = Snap::take(&self.deps.storage);
        let request = Request::Instantiate(msg.clone());
        let r = {
            let deps = &mut self.deps;
            guarded(move || instantiate(deps.as_mut(), env, info, msg))
        };
        self.finish_call(&mut out, r, backup, &[], sel, &pre, &request);
        out
    }

    /// Common tail of instantiate/execute/migrate: rollback on failure, ledger on success.
    fn finish_call(
        &mut self,
        out: &mut StepOutcome,
        r: CallResult<Response>,
        backup: MockStorage,
        funds: &[Coin],
        sel: &OracleSel,
        pre: &Snap,
        request: &Request,
    ) {
        match r {
            CallResult::Ok(resp) => {
                out.ok = true;
                out.messages = resp.messages.iter().map(|m| parse_msg(&m.msg)).collect();
                out.attributes = resp
                    .attributes
                    .iter()
                    .map(|a| (a.key.clone(), a.value.clone()))
                    .collect();
                if let Some(sender) = out.sender.clone() {
                    let contract = self.contract.clone();
                    for c in funds {
                        ledger_move(
                            &mut self.ledger,
                            &sender,
                            &contract,
                            &c.denom,
                            c.amount.u128(),
                        );
                    }
                }
                let msgs = out.messages.clone();
                self.apply_messages(&msgs);
                self.snapshot(out);
                self.run_oracles(out, sel, pre, request, funds);
            }
            CallResult::Err(e) => {
                self.deps.storage = backup;
                out.error = Some(e);
                self.snapshot(out);
                // the oracles with a "must be accepted" direction also judge refusals
                self.run_oracles(out, sel, pre, request, funds);
            }
            CallResult::Panic(e) => {
                self.deps.storage = backup;
                out.panicked = true;
                out.error = Some(format!("panic: {e}"));
                self.snapshot(out);
                self.run_oracles(out, sel, pre, request, funds);
            }
        }
    }

    /// Executes one step of a history. `Err` means the step itself is malformed
    /// (unknown kind); a contract-level failure is reported in the outcome.
    #[allow(deprecated)]
    pub fn step(
        &mut self,
        index: usize,
        step: &Value,
        sel: &OracleSel,
    ) -> Result<StepOutcome, String> {
        let obj = step
            .as_object()
            .ok_or_else(|| format!("step {index}: must be an object"))?;

        if let Some(m) = obj.get("execute") {
            let mut out = StepOutcome::new(index, "execute");
            out.exec_kind = m
                .as_object()
                .and_then(|o| o.keys().next().cloned())
                .or_else(|| m.as_str().map(|s| s.to_string()));
            let sender = match obj.get("sender").and_then(|s| s.as_str()) {
                Some(s) => s.to_string(),
                None => return Err(format!("step {index}: execute needs a \"sender\" string")),
            };
            out.sender = Some(sender.clone());
            let funds = parse_funds(obj.get("funds")).map_err(|e| format!("step {index}: {e}"))?;
            let msg: ExecuteMsg = match parse_contract_json(m) {
                Ok(m) => m,
                Err(e) => {
                    out.error = Some(format!("malformed message: {e}"));
                    self.snapshot(&mut out);
                    return Ok(out);
                }
            };
            let backup = clone_storage(&self.deps.storage);
            let pre = Snap::take(&self.deps.storage);
            let request = Request::Execute(msg.clone());
            let env = self.env();
            let info = MessageInfo {
                sender: Addr::unchecked(sender),
                funds: funds.clone(),
            };
            let r = {
                let deps = &mut self.deps;
                guarded(move || execute(deps.as_mut(), env, info, msg))
            };
            self.finish_call(&mut out, r, backup, &funds, sel, &pre, &request);
            return Ok(out);
        }

        if let Some(m) = obj.get("query") {
            let mut out = StepOutcome::new(index, "query");
            let msg: QueryMsg = match parse_contract_json(m) {
                Ok(m) => m,
                Err(e) => {
                    out.error = Some(format!("malformed message: {e}"));
                    self.snapshot(&mut out);
                    return Ok(out);
                }
            };
            let env = self.env();
            let r = {
                let deps = &self.deps;
                guarded(move || {
                    let d: Deps = deps.as_ref();
                    query(d, env, msg)
                })
            };
            match r {
                CallResult::Ok(bin) => {
                    out.ok = true;
                    out.query_result = Some(raw_value(bin.as_slice()));
                }
                CallResult::Err(e) => out.error = Some(e),
                CallResult::Panic(e) => {
                    out.panicked = true;
                    out.error = Some(format!("panic: {e}"));
                }
            }
            self.snapshot(&mut out);
            return Ok(out);
        }

        if let Some(m) = obj.get("migrate") {
            let mut out = StepOutcome::new(index, "migrate");
            let msg: MigrateMsg = match parse_contract_json(m) {
                Ok(m) => m,
                Err(e) => {
                    out.error = Some(format!("malformed message: {e}"));
                    self.snapshot(&mut out);
                    return Ok(out);
                }
            };
            let backup = clone_storage(&self.deps.storage);
            let pre = Snap::take(&self.deps.storage);
            let request = Request::Migrate(msg.clone());
            let env = self.env();
            let r = {
                let deps = &mut self.deps;
                guarded(move || migrate(deps.as_mut(), env, msg))
            };
            self.finish_call(&mut out, r, backup, &[], sel, &pre, &request);
            return Ok(out);
        }

        let credit = obj.get("credit").and_then(|c| c.as_bool()).unwrap_or(true);
        let pre = Snap::take(&self.deps.storage);

        if let Some(v) = obj.get("set_version") {
            let mut out = StepOutcome::new(index, "set_version");
            match v.as_str() {
                Some(version) => {
                    // raw write of the golden version record; the definition stays what it was
                    let definition = self
                        .version_info()
                        .map(|vi| vi.definition)
                        .unwrap_or_else(|| CRATE_NAME.to_string());
                    let rec = VersionRec {
                        definition,
                        version: version.to_string(),
                    };
                    self.deps
                        .storage
                        .set(VERSION_INFO_KEY, &format::bytes_of(&format::version_value(&rec)));
                    out.ok = true;
                }
                None => out.error = Some("set_version needs a string".into()),
            }
            self.snapshot(&mut out);
            if out.ok {
                self.run_oracles(&mut out, sel, &pre, &Request::None, &[]);
            }
            return Ok(out);
        }

        // Direct writes of orders: the JSON is validated against the golden shape of
        // `format.rs` (not parsed by a type of the contract) and stored exactly as given under
        // the raw storage key of its `id`.
        if let Some(v) = obj.get("put_bid_v2") {
            let mut out = StepOutcome::new(index, "put_bid_v2");
            match format::read_legacy_bid(v) {
                Ok(b) => {
                    self.deps
                        .storage
                        .set(&format::map_key(NS_BID, b.id.as_bytes()), &format::bytes_of(v));
                    out.ok = true;
                    if credit {
                        self.credit_bid(&b.as_current_saturating());
                    }
                }
                Err(e) => out.error = Some(format!("malformed order: {e}")),
            }
            self.snapshot(&mut out);
            if out.ok {
                self.run_oracles(&mut out, sel, &pre, &Request::None, &[]);
            }
            return Ok(out);
        }

        if let Some(v) = obj.get("put_bid") {
            let mut out = StepOutcome::new(index, "put_bid");
            match format::read_bid(v) {
                Ok(b) => {
                    self.deps
                        .storage
                        .set(&format::map_key(NS_BID, b.id.as_bytes()), &format::bytes_of(v));
                    out.ok = true;
                    if credit {
                        self.credit_bid(&b);
                    }
                }
                Err(e) => out.error = Some(format!("malformed order: {e}")),
            }
            self.snapshot(&mut out);
            if out.ok {
                self.run_oracles(&mut out, sel, &pre, &Request::None, &[]);
            }
            return Ok(out);
        }

        if let Some(v) = obj.get("put_ask") {
            let mut out = StepOutcome::new(index, "put_ask");
            match format::read_ask(v) {
                Ok(a) => {
                    self.deps
                        .storage
                        .set(&format::map_key(NS_ASK, a.id.as_bytes()), &format::bytes_of(v));
                    out.ok = true;
                    if credit {
                        self.credit_ask(&a);
                    }
                }
                Err(e) => out.error = Some(format!("malformed order: {e}")),
            }
            self.snapshot(&mut out);
            if out.ok {
                self.run_oracles(&mut out, sel, &pre, &Request::None, &[]);
            }
            return Ok(out);
        }

        // put_raw {namespace, key?, value | text, credit?}: any storage entry, no validation.
        // With `key` the entry of the Map namespace (be16(len) ++ namespace ++ key), without it
        // the Item `namespace`.  `value` is stored as compact JSON, `text` verbatim.  Nothing is
        // credited unless "credit": true and the value is a golden ask / bid.
        if let Some(v) = obj.get("put_raw") {
            let mut out = StepOutcome::new(index, "put_raw");
            let ns = v.get("namespace").and_then(|n| n.as_str());
            let key = match v.get("key") {
                None | Some(Value::Null) => Ok(None),
                Some(Value::String(k)) => Ok(Some(k.clone())),
                Some(_) => Err("put_raw.key must be a string"),
            };
            let bytes = match (v.get("value"), v.get("text")) {
                (Some(val), None) => Ok(format::bytes_of(val)),
                (None, Some(Value::String(t))) => Ok(t.as_bytes().to_vec()),
                _ => Err("put_raw needs exactly one of \"value\" (JSON) and \"text\" (string stored verbatim)"),
            };
            match (ns, key, bytes) {
                (Some(ns), Ok(key), Ok(bytes)) => {
                    let k = match &key {
                        Some(k) => format::map_key(ns, k.as_bytes()),
                        None => format::item_key(ns),
                    };
                    self.deps.storage.set(&k, &bytes);
                    out.ok = true;
                    let credit_raw = obj.get("credit").and_then(|c| c.as_bool()).unwrap_or(false)
                        || v.get("credit").and_then(|c| c.as_bool()).unwrap_or(false);
                    if credit_raw && key.is_some() {
                        if ns == NS_ASK {
                            if let Ok(a) = format::ask_of(&bytes) {
                                self.credit_ask(&a);
                            }
                        } else if ns == NS_BID {
                            match format::classify_bid(&bytes) {
                                StoredBid::Current(b) => self.credit_bid(&b),
                                StoredBid::Legacy(b) => self.credit_bid(&b.as_current_saturating()),
                                StoredBid::Malformed { .. } => {}
                            }
                        }
                    }
                }
                (None, _, _) => out.error = Some("put_raw needs a \"namespace\" string".into()),
                (_, Err(e), _) | (_, _, Err(e)) => out.error = Some(e.to_string()),
            }
            self.snapshot(&mut out);
            if out.ok {
                self.run_oracles(&mut out, sel, &pre, &Request::None, &[]);
            }
            return Ok(out);
        }

        Err(format!(
            "step {index}: unknown step kind (keys: {:?}); expected one of execute, query, migrate, set_version, put_bid_v2, put_ask, put_bid, put_raw",
            obj.keys().collect::<Vec<_>>()
        ))
    }

    /// Direct writes credit the contract with the escrow the order implies, taken from its owner
    /// (amounts read from the JSON with the hand-written reader).
    fn credit_bid(&mut self, b: &BidRec) {
        let contract = self.contract.clone();
        let rem_quote = b.quote.amount.saturating_sub(b.accumulated_quote);
        let rem_fee = match &b.fee {
            Some(f) => f.amount.saturating_sub(b.accumulated_fee),
            None => 0,
        };
        ledger_move(
            &mut self.ledger,
            b.owner.as_str(),
            &contract,
            &b.quote.denom,
            rem_quote.saturating_add(rem_fee),
        );
    }

    fn credit_ask(&mut self, a: &AskRec) {
        let contract = self.contract.clone();
        ledger_move(&mut self.ledger, a.owner.as_str(), &contract, &a.base, a.size);
        if let Some((approver, converted_base)) = a.ready() {
            ledger_move(
                &mut self.ledger,
                approver,
                &contract,
                &converted_base.denom,
                converted_base.amount,
            );
        }
    }
}

/// Parse with the same JSON parser the chain uses (serde-json-wasm via cosmwasm_std).
pub fn parse_contract_json<T: serde::de::DeserializeOwned>(v: &Value) -> Result<T, String> {
    let bytes = serde_json::to_vec(v).map_err(|e| e.to_string())?;
    from_slice::<T>(&bytes).map_err(|e| e.to_string())
}

fn parse_funds(v: Option<&Value>) -> Result<Vec<Coin>, String> {
    let arr = match v {
        None | Some(Value::Null) => return Ok(vec![]),
        Some(Value::Array(a)) => a,
        Some(_) => return Err("\"funds\" must be an array of {denom, amount}".into()),
    };
    let mut out = vec![];
    for c in arr {
        let denom = c
            .get("denom")
            .and_then(|d| d.as_str())
            .ok_or("funds entry needs a \"denom\" string")?;
        let amount = match c.get("amount") {
            Some(Value::String(s)) => s.parse::<u128>().map_err(|_| {
                format!("funds amount \"{s}\" is not an unsigned integer")
            })?,
            Some(Value::Number(n)) => n
                .as_u64()
                .map(|x| x as u128)
                .ok_or("funds amount must be an unsigned integer")?,
            _ => return Err("funds entry needs an \"amount\"".into()),
        };
        out.push(Coin::new(amount, denom));
    }
    Ok(out)
}

/// The typed request of a step, as handed to the contract.
#[derive(Clone, Debug)]
pub enum Request {
    Instantiate(InstantiateMsg),
    Execute(ExecuteMsg),
    Migrate(MigrateMsg),
    /// direct storage writes of the test bed (set_version, put_*)
    None,
}

// ---------------------------------------------------------------------------
// outcomes
// ---------------------------------------------------------------------------

#[derive(Clone, Debug)]
pub struct StepOutcome {
    pub index: usize,
    pub kind: String,
    pub exec_kind: Option<String>,
    pub sender: Option<String>,
    pub ok: bool,
    pub panicked: bool,
    pub error: Option<String>,
    pub messages: Vec<Msg>,
    pub attributes: Vec<(String, String)>,
    pub query_result: Option<Value>,
    pub ledger: Ledger,
    pub book: Book,
    pub contract_info: Value,
    pub version_info: Value,
    /// complete raw copy of the storage after the step
    pub snap: Snap,
    pub oracles: Option<BTreeMap<String, OracleResult>>,
}

impl StepOutcome {
    fn new(index: usize, kind: &str) -> StepOutcome {
        StepOutcome {
            index,
            kind: kind.to_string(),
            exec_kind: None,
            sender: None,
            ok: false,
            panicked: false,
            error: None,
            messages: vec![],
            attributes: vec![],
            query_result: None,
            ledger: Ledger::new(),
            book: Book::default(),
            contract_info: Value::Null,
            version_info: Value::Null,
            snap: Snap::default(),
            oracles: None,
        }
    }

    pub fn failing_oracles(&self) -> Vec<String> {
        match &self.oracles {
            Some(m) => m
                .iter()
                .filter(|(_, r)| !r.holds)
                .map(|(k, _)| k.clone())
                .collect(),
            None => vec![],
        }
    }

    pub fn to_json(&self) -> Value {
        let oracles = match &self.oracles {
            Some(m) => {
                let mut o = Map::new();
                for (k, r) in m {
                    o.insert(k.clone(), json!({"holds": r.holds, "detail": r.detail}));
                }
                Value::Object(o)
            }
            None => Value::Null,
        };
        json!({
            "index": self.index,
            "kind": self.kind,
            "msg_kind": self.exec_kind,
            "sender": self.sender,
            "ok": self.ok,
            "panicked": self.panicked,
            "error": self.error,
            "messages": self.messages.iter().map(|m| m.to_json()).collect::<Vec<_>>(),
            "attributes": self.attributes.iter().map(|(k, v)| json!([k, v])).collect::<Vec<_>>(),
            "query_result": self.query_result,
            "ledger": ledger_json(&self.ledger),
            "book": self.book.to_json(),
            "contract_info": self.contract_info,
            "version_info": self.version_info,
            "oracles": oracles,
        })
    }

    pub fn summary(&self) -> String {
        let what = match (&self.exec_kind, &self.sender) {
            (Some(k), Some(s)) => format!("{} {} sender={}", self.kind, k, s),
            (None, Some(s)) => format!("{} sender={}", self.kind, s),
            _ => self.kind.clone(),
        };
        let status = if self.ok {
            format!("OK msgs={}", self.messages.len())
        } else if self.panicked {
            format!("PANIC {}", self.error.clone().unwrap_or_default())
        } else {
            format!("ERR {}", self.error.clone().unwrap_or_default())
        };
        let failing = self.failing_oracles();
        let or = match &self.oracles {
            None => String::new(),
            Some(_) if failing.is_empty() => " oracles=all-hold".to_string(),
            Some(_) => format!(" ORACLE-FAIL={}", failing.join(",")),
        };
        format!("{what}: {status}{or}")
    }
}

pub struct RunResult {
    pub instantiate: StepOutcome,
    pub steps: Vec<StepOutcome>,
}

impl RunResult {
    /// `i == -1` is the state right after instantiate.
    pub fn at(&self, i: i64) -> Option<&StepOutcome> {
        if i == -1 {
            Some(&self.instantiate)
        } else if i >= 0 {
            self.steps.get(i as usize)
        } else {
            None
        }
    }
}

/// Runs a whole history. `Err` = malformed history (exit code 2).
pub fn run_history(
    history: &Value,
    sel: &OracleSel,
    mut on_step: impl FnMut(&str),
) -> Result<(World, RunResult), String> {
    let mut world = World::new(history)?;
    let steps = match history.get("steps") {
        None | Some(Value::Null) => vec![],
        Some(Value::Array(a)) => a.clone(),
        Some(_) => return Err("\"steps\" must be an array".into()),
    };
    let inst = world.instantiate(history.get("instantiate"), sel);
    on_step(&format!("instantiate: {}", inst.summary()));
    let mut outs = vec![];
    for (i, s) in steps.iter().enumerate() {
        let o = world.step(i, s, sel)?;
        on_step(&format!("step {i}: {}", o.summary()));
        outs.push(o);
    }
    Ok((
        world,
        RunResult {
            instantiate: inst,
            steps: outs,
        },
    ))
}

// ---------------------------------------------------------------------------
// asserts
// ---------------------------------------------------------------------------

pub struct AssertResult {
    pub assert: Value,
    pub holds: bool,
    pub detail: String,
}

fn get_i64(a: &Value, key: &str) -> Result<i64, String> {
    a.get(key)
        .and_then(|v| v.as_i64())
        .ok_or_else(|| format!("assert needs integer \"{key}\": {a}"))
}

fn get_str<'a>(a: &'a Value, key: &str) -> Result<&'a str, String> {
    a.get(key)
        .and_then(|v| v.as_str())
        .ok_or_else(|| format!("assert needs string \"{key}\": {a}"))
}

fn subset_match(pattern: &Value, actual: &Value) -> bool {
    match (pattern, actual) {
        (Value::Object(p), Value::Object(a)) => p
            .iter()
            .all(|(k, pv)| a.get(k).map(|av| subset_match(pv, av)).unwrap_or(false)),
        (Value::Number(p), Value::String(a)) => p.to_string() == *a,
        (p, a) => p == a,
    }
}

/// `Err` = malformed assert (exit code 2).
pub fn eval_asserts(
    history: &Value,
    world: &World,
    res: &RunResult,
) -> Result<Vec<AssertResult>, String> {
    let list = match history.get("asserts") {
        None | Some(Value::Null) => return Ok(vec![]),
        Some(Value::Array(a)) => a,
        Some(_) => return Err("\"asserts\" must be an array".into()),
    };
    let mut out = vec![];
    for a in list {
        let kind = get_str(a, "assert")?;
        let step_at = |key: &str| -> Result<&StepOutcome, String> {
            let i = get_i64(a, key)?;
            res.at(i)
                .ok_or_else(|| format!("assert refers to step {i} which does not exist: {a}"))
        };
        let (holds, detail) = match kind {
            "instantiate_ok" | "instantiate_err" => {
                let want = kind == "instantiate_ok";
                (
                    res.instantiate.ok == want,
                    format!(
                        "instantiate ok={} error={:?}",
                        res.instantiate.ok, res.instantiate.error
                    ),
                )
            }
            "step_ok" | "step_err" => {
                let s = step_at("step")?;
                let want = kind == "step_ok";
                (
                    s.ok == want,
                    format!("step {} ok={} error={:?}", s.index, s.ok, s.error),
                )
            }
            "step_panics" => {
                let s = step_at("step")?;
                (
                    s.panicked,
                    format!("step {} panicked={} error={:?}", s.index, s.panicked, s.error),
                )
            }
            "ledger_eq" => {
                let s = step_at("after_step")?;
                let acct = world.resolve_account(get_str(a, "account")?);
                let denom = get_str(a, "denom")?;
                let want = match a.get("value") {
                    Some(Value::String(v)) => v
                        .parse::<i128>()
                        .map_err(|_| format!("ledger_eq value is not an integer: {a}"))?,
                    Some(Value::Number(n)) => n
                        .as_i64()
                        .map(|x| x as i128)
                        .ok_or_else(|| format!("ledger_eq value is not an integer: {a}"))?,
                    _ => return Err(format!("ledger_eq needs \"value\": {a}")),
                };
                let have = ledger_get(&s.ledger, &acct, denom);
                (have == want, format!("ledger[{acct}][{denom}] = {have}, expected {want}"))
            }
            "oracle_holds" | "oracle_fails" => {
                let s = step_at("after_step")?;
                let name = get_str(a, "oracle")?;
                if !oracles::ORACLES.contains(&name) {
                    return Err(format!(
                        "unknown oracle \"{name}\" (known: {})",
                        oracles::ORACLES.join(", ")
                    ));
                }
                match s.oracles.as_ref().and_then(|m| m.get(name)) {
                    Some(r) => {
                        let want = kind == "oracle_holds";
                        (
                            r.holds == want,
                            format!("oracle {name} holds={} ({})", r.holds, r.detail),
                        )
                    }
                    None => (
                        false,
                        format!(
                            "oracle {name} was not evaluated at that step (step ok={}, kind={})",
                            s.ok, s.kind
                        ),
                    ),
                }
            }
            "message_present" | "message_absent" => {
                let s = step_at("step")?;
                let pat = a
                    .get("message")
                    .ok_or_else(|| format!("assert needs \"message\": {a}"))?;
                let found = s
                    .messages
                    .iter()
                    .map(|m| m.to_json())
                    .find(|m| subset_match(pat, m));
                let want = kind == "message_present";
                (
                    found.is_some() == want,
                    match found {
                        Some(m) => format!("matching message: {m}"),
                        None => format!(
                            "no matching message among {} message(s) of step {}",
                            s.messages.len(),
                            s.index
                        ),
                    },
                )
            }
            "order_present" | "order_absent" => {
                let s = step_at("after_step")?;
                let side = get_str(a, "side")?;
                let id = get_str(a, "id")?;
                let present = match side {
                    "ask" => s.book.has_ask(id),
                    "bid" => s.book.has_bid(id),
                    _ => return Err(format!("order assert side must be ask|bid: {a}")),
                };
                let want = kind == "order_present";
                (present == want, format!("{side} {id} present={present}"))
            }
            // the answer of a `query` step is exactly this JSON (strings and numbers as written)
            "query_eq" => {
                let s = step_at("step")?;
                let want = a
                    .get("value")
                    .ok_or_else(|| format!("query_eq needs \"value\": {a}"))?;
                match &s.query_result {
                    Some(got) => (
                        s.ok && got == want,
                        if got == want {
                            format!("query of step {} answered as expected", s.index)
                        } else {
                            format!("query of step {} answered {got}, expected {want}", s.index)
                        },
                    ),
                    None => (
                        false,
                        format!("step {} gave no query answer (ok={} error={:?})", s.index, s.ok, s.error),
                    ),
                }
            }
            // raw storage after a step: the entry (namespace[, key]) holds exactly this JSON / is absent
            "stored_eq" | "stored_absent" => {
                let s = step_at("after_step")?;
                let ns = get_str(a, "namespace")?;
                let k = match a.get("key") {
                    None | Some(Value::Null) => format::item_key(ns),
                    Some(Value::String(k)) => format::map_key(ns, k.as_bytes()),
                    Some(_) => return Err(format!("assert \"key\" must be a string: {a}")),
                };
                let got = s.snap.get(&k).map(raw_value);
                if kind == "stored_absent" {
                    (got.is_none(), format!("stored under {ns}/{:?}: {:?}", a.get("key"), got))
                } else {
                    let want = a
                        .get("value")
                        .ok_or_else(|| format!("stored_eq needs \"value\": {a}"))?;
                    (
                        got.as_ref() == Some(want),
                        match &got {
                            Some(g) if g == want => "stored as expected".to_string(),
                            Some(g) => format!("stored is {g}, expected {want}"),
                            None => format!("nothing stored, expected {want}"),
                        },
                    )
                }
            }
            other => return Err(format!("unknown assert kind \"{other}\"")),
        };
        out.push(AssertResult {
            assert: a.clone(),
            holds,
            detail,
        });
    }
    Ok(out)
}

pub fn result_json(res: &RunResult, asserts: &[AssertResult]) -> Value {
    let all = asserts.iter().all(|a| a.holds);
    json!({
        "instantiate": {
            "ok": res.instantiate.ok,
            "error": res.instantiate.error,
            "panicked": res.instantiate.panicked,
            "ledger": ledger_json(&res.instantiate.ledger),
            "contract_info": res.instantiate.contract_info,
            "version_info": res.instantiate.version_info,
        },
        "steps": res.steps.iter().map(|s| s.to_json()).collect::<Vec<_>>(),
        "asserts": asserts.iter().map(|a| json!({
            "assert": a.assert, "holds": a.holds, "detail": a.detail
        })).collect::<Vec<_>>(),
        "all_asserts_hold": all,
    })
}
