//! Property oracles evaluated on the live state after a successful step.  The book and the
//! configuration are what the hand-written reader of `format.rs` sees in the raw storage
//! (golden shapes, classification by shape); no persisted type of the contract is involved.
//!
//!  solvency              C01  contract holdings == sum of escrow owed to open orders
//!  approver_tracks_size  C08  Ready.converted_base mirrors the ask size / contract base denom
//!  mechanism             C10  bank send vs. marker transfer chosen per denomination, no zero sends
//!  bid_consistency       C11  accumulators within bounds, price * remaining base == remaining quote
//!  ask_consistency       C11  size > 0, class matches base denom, quote supported
//!  exit_liveness         C06  every open order can be cancelled / expired for its whole escrow

use crate::props;
use crate::run::{
    clone_storage, ledger_get, parse_msg, AskEntry, BidEntry, Book, CallResult, Msg, Request, Snap,
    World,
};
use crate::format::{AskClass, AskRec, BidRec, CoinRec, ConfigRec};
use ats_smart_contract::msg::ExecuteMsg;
use rust_decimal::prelude::FromPrimitive;
use rust_decimal::Decimal;
use std::collections::{BTreeMap, BTreeSet};
use std::str::FromStr;

pub const ORACLES: [&str; 16] = [
    "solvency",
    "approver_tracks_size",
    "mechanism",
    "bid_consistency",
    "ask_consistency",
    "exit_liveness",
    "authorization",
    "config_change",
    "migration",
    "admission",
    "match_eligibility",
    "settlement",
    "queries",
    "attributes",
    "instantiate_coherence",
    "storage_format",
];

#[derive(Clone, Debug)]
pub enum OracleSel {
    All,
    One(String),
    Set(Vec<String>),
    Nothing,
}

impl OracleSel {
    pub fn wants(&self, name: &str) -> bool {
        match self {
            OracleSel::All => true,
            OracleSel::One(n) => n == name,
            OracleSel::Set(v) => v.iter().any(|n| n == name),
            OracleSel::Nothing => false,
        }
    }
}

#[derive(Clone, Debug)]
pub struct OracleResult {
    pub holds: bool,
    pub detail: String,
}

impl OracleResult {
    pub fn from_failures(failures: Vec<String>, ok_detail: String) -> OracleResult {
        if failures.is_empty() {
            OracleResult {
                holds: true,
                detail: ok_detail,
            }
        } else {
            OracleResult {
                holds: false,
                detail: failures.join("; "),
            }
        }
    }
}

/// Everything a step-level oracle may look at: the state before the request, the request, its
/// outcome and emitted messages / attributes, the state after it.
pub struct StepCtx<'a> {
    /// instantiate | execute | migrate | set_version | put_ask | put_bid | put_bid_v2
    pub kind: &'a str,
    pub exec_kind: Option<&'a str>,
    pub sender: Option<&'a str>,
    pub request: &'a Request,
    pub funds: &'a [cosmwasm_std::Coin],
    pub ok: bool,
    pub panicked: bool,
    pub error: Option<&'a str>,
    pub messages: &'a [Msg],
    pub attributes: &'a [(String, String)],
    pub pre: &'a Snap,
    pub post: &'a Snap,
}

pub fn evaluate(
    world: &World,
    book: &Book,
    step: &StepCtx,
    sel: &OracleSel,
) -> BTreeMap<String, OracleResult> {
    let mut out = BTreeMap::new();
    // step-level oracles (some of them also judge refused requests)
    for (name, f) in props::STEP_ORACLES {
        if sel.wants(name) {
            if let Some(r) = f(world, step) {
                out.insert(name.to_string(), r);
            }
        }
    }
    if !step.ok {
        return out;
    }
    // state-level oracles, evaluated after successful steps only
    let ci_owned = world.contract_info();
    let ci = ci_owned.as_ref();
    if sel.wants("solvency") {
        out.insert("solvency".to_string(), solvency(world, book));
    }
    if sel.wants("approver_tracks_size") {
        out.insert(
            "approver_tracks_size".to_string(),
            approver_tracks_size(book, ci),
        );
    }
    if sel.wants("mechanism") {
        out.insert("mechanism".to_string(), mechanism(world, step));
    }
    if sel.wants("bid_consistency") {
        out.insert("bid_consistency".to_string(), bid_consistency(book));
    }
    if sel.wants("ask_consistency") {
        out.insert("ask_consistency".to_string(), ask_consistency(book, ci));
    }
    if sel.wants("exit_liveness") {
        out.insert("exit_liveness".to_string(), exit_liveness(world, book, ci));
    }
    out
}

fn to_i(x: u128) -> i128 {
    i128::try_from(x).unwrap_or(i128::MAX)
}

fn ready(ask: &AskRec) -> Option<(&str, &CoinRec)> {
    ask.ready()
}

/// remaining quote + remaining fee, as signed numbers (negative if accumulators overshoot)
fn bid_owed(b: &BidRec) -> i128 {
    let q = to_i(b.quote.amount) - to_i(b.accumulated_quote);
    let f = match &b.fee {
        Some(f) => to_i(f.amount) - to_i(b.accumulated_fee),
        None => 0,
    };
    q.saturating_add(f)
}

fn solvency(world: &World, book: &Book) -> OracleResult {
    let mut owed: BTreeMap<String, i128> = BTreeMap::new();
    let mut notes = vec![];
    for a in &book.asks {
        match a {
            AskEntry::V1(ask) => {
                *owed.entry(ask.base.clone()).or_insert(0) += to_i(ask.size);
                if let Some((_, cb)) = ready(ask) {
                    *owed.entry(cb.denom.clone()).or_insert(0) += to_i(cb.amount);
                }
            }
            AskEntry::Raw { key, .. } => notes.push(format!("unparseable ask {key} ignored")),
        }
    }
    for b in &book.bids {
        match b {
            BidEntry::V3(bid) => {
                *owed.entry(bid.quote.denom.clone()).or_insert(0) += bid_owed(bid);
            }
            BidEntry::V2 { order, .. } => {
                let v3 = order.as_current_saturating();
                *owed.entry(v3.quote.denom.clone()).or_insert(0) += bid_owed(&v3);
            }
            BidEntry::Unknown { key, .. } => notes.push(format!("unparseable bid {key} ignored")),
        }
    }
    let mut denoms: BTreeSet<String> = owed.keys().cloned().collect();
    if let Some(m) = world.ledger.get(&world.contract) {
        denoms.extend(m.keys().cloned());
    }
    let mut failures = vec![];
    for d in &denoms {
        let held = ledger_get(&world.ledger, &world.contract, d);
        let o = owed.get(d).copied().unwrap_or(0);
        if held != o {
            failures.push(format!("denom {d}: held {held} != owed {o} (diff {})", held - o));
        }
    }
    let mut r = OracleResult::from_failures(
        failures,
        format!("{} denom(s) balanced", denoms.len()),
    );
    if !notes.is_empty() {
        r.detail = format!("{} [{}]", r.detail, notes.join("; "));
    }
    r
}

fn approver_tracks_size(book: &Book, ci: Option<&ConfigRec>) -> OracleResult {
    let mut failures = vec![];
    let mut n = 0;
    for ask in book.v1_asks() {
        if let Some((_, cb)) = ready(ask) {
            n += 1;
            if cb.amount != ask.size {
                failures.push(format!(
                    "ask {}: converted_base.amount {} != size {}",
                    ask.id, cb.amount, ask.size
                ));
            }
            match ci {
                Some(ci) if cb.denom == ci.base_denom => {}
                Some(ci) => failures.push(format!(
                    "ask {}: converted_base.denom {} != contract base_denom {}",
                    ask.id, cb.denom, ci.base_denom
                )),
                None => failures.push("contract_info unreadable".to_string()),
            }
        }
    }
    OracleResult::from_failures(failures, format!("{n} ready convertible ask(s) checked"))
}

fn mechanism(world: &World, step: &StepCtx) -> OracleResult {
    let inbound = matches!(
        step.exec_kind,
        Some("create_ask") | Some("create_bid") | Some("approve_ask")
    );
    let mut failures = vec![];
    for (i, m) in step.messages.iter().enumerate() {
        match m {
            Msg::Bank { to, coins } => {
                if coins.len() != 1 {
                    failures.push(format!(
                        "msg {i}: bank send to {to} carries {} coins (expected exactly 1)",
                        coins.len()
                    ));
                }
                for (denom, amount) in coins {
                    if *amount == 0 {
                        failures.push(format!("msg {i}: bank send of 0 {denom} to {to}"));
                    }
                    if world.marker_type(denom) == "restricted" {
                        failures.push(format!(
                            "msg {i}: bank send of restricted-marker denom {denom} to {to}"
                        ));
                    }
                }
            }
            Msg::MarkerTransfer {
                from,
                to,
                admin,
                denom,
                amount,
            } => {
                if *amount == 0 {
                    failures.push(format!("msg {i}: marker transfer of 0 {denom}"));
                }
                if admin != &world.contract {
                    failures.push(format!(
                        "msg {i}: marker transfer administrator {admin} != contract"
                    ));
                }
                if world.marker_type(denom) != "restricted" {
                    failures.push(format!(
                        "msg {i}: marker transfer for denom {denom} whose marker type is \"{}\"",
                        world.marker_type(denom)
                    ));
                }
                if inbound {
                    let sender = step.sender.unwrap_or("");
                    if from != sender || to != &world.contract {
                        failures.push(format!(
                            "msg {i}: escrow marker transfer {from}->{to}, expected {sender}->contract"
                        ));
                    }
                } else if from != &world.contract {
                    failures.push(format!(
                        "msg {i}: payout marker transfer from {from}, expected from contract"
                    ));
                }
            }
            Msg::Other { debug } => {
                failures.push(format!("msg {i}: unexpected message kind: {debug}"));
            }
        }
    }
    OracleResult::from_failures(
        failures,
        format!("{} message(s) checked", step.messages.len()),
    )
}

fn bid_consistency(book: &Book) -> OracleResult {
    let mut failures = vec![];
    let mut n = 0;
    for b in &book.bids {
        let bid = match b {
            BidEntry::V3(b) => b,
            _ => continue,
        };
        n += 1;
        let id = &bid.id;
        if bid.accumulated_base >= bid.base.amount {
            failures.push(format!(
                "bid {id}: accumulated_base {} >= base.amount {}",
                bid.accumulated_base, bid.base.amount
            ));
        }
        if bid.accumulated_quote > bid.quote.amount {
            failures.push(format!(
                "bid {id}: accumulated_quote {} > quote.amount {}",
                bid.accumulated_quote, bid.quote.amount
            ));
        }
        if let Some(fee) = &bid.fee {
            if bid.accumulated_fee > fee.amount {
                failures.push(format!(
                    "bid {id}: accumulated_fee {} > fee.amount {}",
                    bid.accumulated_fee, fee.amount
                ));
            }
        }
        let rem_base = to_i(bid.base.amount) - to_i(bid.accumulated_base);
        let rem_quote = to_i(bid.quote.amount) - to_i(bid.accumulated_quote);
        match Decimal::from_str(&bid.price) {
            Ok(price) => {
                let lhs = Decimal::from_i128(rem_base).and_then(|b| price.checked_mul(b));
                let rhs = Decimal::from_i128(rem_quote);
                match (lhs, rhs) {
                    (Some(l), Some(r)) if l == r => {}
                    (Some(l), Some(r)) => failures.push(format!(
                        "bid {id}: price {} * remaining base {rem_base} = {l} != remaining quote {r}",
                        bid.price
                    )),
                    _ => failures.push(format!("bid {id}: decimal overflow in price check")),
                }
            }
            Err(_) => failures.push(format!("bid {id}: unparseable price \"{}\"", bid.price)),
        }
    }
    OracleResult::from_failures(failures, format!("{n} V3 bid(s) checked"))
}

fn ask_consistency(book: &Book, ci: Option<&ConfigRec>) -> OracleResult {
    let mut failures = vec![];
    let mut n = 0;
    for ask in book.v1_asks() {
        n += 1;
        let id = &ask.id;
        if ask.size == 0 {
            failures.push(format!("ask {id}: size is 0"));
        }
        match ci {
            Some(ci) => {
                let basic = matches!(ask.class, AskClass::Basic);
                if basic != (ask.base == ci.base_denom) {
                    failures.push(format!(
                        "ask {id}: class basic={basic} but base {} vs contract base_denom {}",
                        ask.base, ci.base_denom
                    ));
                }
                if !ci.supported_quote_denoms.contains(&ask.quote) {
                    failures.push(format!("ask {id}: quote {} not supported", ask.quote));
                }
            }
            None => failures.push("contract_info unreadable".to_string()),
        }
    }
    OracleResult::from_failures(failures, format!("{n} ask(s) checked"))
}

type Payouts = BTreeMap<(String, String), u128>;

fn add_payout(p: &mut Payouts, to: &str, denom: &str, amount: u128) {
    if amount > 0 {
        let e = p.entry((to.to_string(), denom.to_string())).or_insert(0);
        *e = e.saturating_add(amount);
    }
}

fn fmt_payouts(p: &Payouts) -> String {
    let v: Vec<String> = p
        .iter()
        .map(|((to, denom), a)| format!("{a}{denom}->{to}"))
        .collect();
    format!("[{}]", v.join(", "))
}

/// Tries one exit operation on a clone of the storage; returns a failure description, if any.
fn try_exit(
    world: &World,
    op: &str,
    side_is_ask: bool,
    id: &str,
    sender: &str,
    msg: ExecuteMsg,
    expected: &Payouts,
) -> Option<String> {
    let mut st = clone_storage(&world.deps.storage);
    match world.execute_on(&mut st, sender, &[], msg) {
        CallResult::Ok(resp) => {
            let after = Book::read(&st);
            let still = if side_is_ask {
                after.has_ask(id)
            } else {
                after.has_bid(id)
            };
            if still {
                return Some(format!("{op} {id} by {sender}: succeeded but order still on book"));
            }
            let mut actual = Payouts::new();
            for m in &resp.messages {
                let parsed = parse_msg(&m.msg);
                if let Msg::Other { debug } = &parsed {
                    return Some(format!("{op} {id}: unexpected message {debug}"));
                }
                for (from, to, denom, amount) in parsed.transfers(&world.contract) {
                    if from != world.contract {
                        return Some(format!("{op} {id}: payout from {from}, not the contract"));
                    }
                    add_payout(&mut actual, &to, &denom, amount);
                }
            }
            if &actual != expected {
                return Some(format!(
                    "{op} {id} by {sender}: paid {} but escrow is {}",
                    fmt_payouts(&actual),
                    fmt_payouts(expected)
                ));
            }
            None
        }
        CallResult::Err(e) => Some(format!("{op} {id} by {sender} refused: {e}")),
        CallResult::Panic(e) => Some(format!("{op} {id} by {sender} PANICKED: {e}")),
    }
}

fn exit_liveness(world: &World, book: &Book, ci: Option<&ConfigRec>) -> OracleResult {
    let mut failures = vec![];
    let executor: Option<String> = ci.and_then(|c| c.executors.first().map(|a| a.to_string()));
    let mut n = 0;
    for a in &book.asks {
        let ask = match a {
            AskEntry::V1(a) => a,
            AskEntry::Raw { key, .. } => {
                failures.push(format!("ask {key}: stored value unparseable, cannot exit"));
                continue;
            }
        };
        n += 1;
        let mut expected = Payouts::new();
        add_payout(&mut expected, ask.owner.as_str(), &ask.base, ask.size);
        if let Some((approver, cb)) = ready(ask) {
            add_payout(&mut expected, approver, &cb.denom, cb.amount);
        }
        if let Some(f) = try_exit(
            world,
            "cancel_ask",
            true,
            &ask.id,
            ask.owner.as_str(),
            ExecuteMsg::CancelAsk { id: ask.id.clone() },
            &expected,
        ) {
            failures.push(f);
        }
        match &executor {
            Some(exec) => {
                if let Some(f) = try_exit(
                    world,
                    "expire_ask",
                    true,
                    &ask.id,
                    exec,
                    ExecuteMsg::ExpireAsk { id: ask.id.clone() },
                    &expected,
                ) {
                    failures.push(f);
                }
            }
            None => failures.push(format!("expire_ask {}: no executor configured", ask.id)),
        }
    }
    for b in &book.bids {
        let bid = match b {
            BidEntry::V3(b) => b,
            BidEntry::V2 { key, .. } => {
                failures.push(format!("bid {key}: stored in V2 format, cannot exit before migration"));
                continue;
            }
            BidEntry::Unknown { key, .. } => {
                failures.push(format!("bid {key}: stored value unparseable, cannot exit"));
                continue;
            }
        };
        n += 1;
        let mut expected = Payouts::new();
        let owed = bid_owed(bid);
        add_payout(
            &mut expected,
            bid.owner.as_str(),
            &bid.quote.denom,
            u128::try_from(owed).unwrap_or(0),
        );
        if let Some(f) = try_exit(
            world,
            "cancel_bid",
            false,
            &bid.id,
            bid.owner.as_str(),
            ExecuteMsg::CancelBid { id: bid.id.clone() },
            &expected,
        ) {
            failures.push(f);
        }
        match &executor {
            Some(exec) => {
                if let Some(f) = try_exit(
                    world,
                    "expire_bid",
                    false,
                    &bid.id,
                    exec,
                    ExecuteMsg::ExpireBid { id: bid.id.clone() },
                    &expected,
                ) {
                    failures.push(f);
                }
            }
            None => failures.push(format!("expire_bid {}: no executor configured", bid.id)),
        }
    }
    OracleResult::from_failures(failures, format!("{n} open order(s) can exit"))
}
