//! Second-generation history generator, used by the profiles added with the step-level oracles
//! (auth, config, admission, match, migration, instantiate).  The five original profiles keep
//! their own generator in `search.rs` untouched.
//!
//! Bounds (documented in ORACLES.md): sizes are 1..=5 lots (+/-1 in boundary requests), lots in
//! {1,5,10,20,100,250,1000}, prices k/10^d with k in a small set and d <= 3, fee rates from a
//! fixed table, at most four accounts per role.

use crate::exact::{fee_of, parse_dec, prorata};
use crate::run::World;
use crate::search::Rng;
use crate::format::{AskClass, AskRec, BidRec, ConfigRec, FeeRec};
use rust_decimal::Decimal;
use serde_json::{json, Value};
use std::collections::{BTreeMap, VecDeque};
use std::str::FromStr;

#[derive(Clone, Copy, PartialEq, Debug)]
pub enum P2 {
    Auth,
    Config,
    Admission,
    Match,
    Migration,
    Instantiate,
}

const ACCOUNTS: [&str; 11] = [
    "seller1", "seller2", "buyer1", "buyer2", "approver", "approver2", "exec", "exec2", "askfee",
    "bidfee", "stranger",
];
const RATES: [&str; 14] = [
    "0.01", "0.1", "0.5", "0.005", "0.333", "1", "0", "0.0", "0.25", "0.125", "0.05", "0.010",
    "0.50", "0.75",
];
const VERSIONS: [&str; 24] = [
    "0.16.1", "0.16.2", "0.16.2-rc.1", "0.16.3", "0.17.0", "0.18.2", "0.19.0", "0.19.0+b1",
    "0.19.1-beta", "0.19.1", "0.19.2", "0.20.0", "1.0.0", "1.0.0-rc.1", "0.15.0", "0.9.9",
    "0.16", "abc", "", "01.0.0", "2.3.4", "0.16.2+build", "0.16.10", "1.0.1",
];
const ATTRS: [&str; 3] = ["kyc", "aml", "accredited"];

enum Planned {
    CreateAsk,
    CreateBid,
    Approve(String),
    SetVersion,
    PutLegacy,
    PutCurrentBid,
    PutLegacyId,
    Migrate,
}

pub struct Scn2 {
    profile: P2,
    precision: u32,
    increment: u128,
    quotes: Vec<String>,
    convertibles: Vec<String>,
    markers: BTreeMap<String, String>,
    header: Value,
    next_id: u32,
    plan: VecDeque<Planned>,
    used_ids: Vec<String>,
    /// fee rate the legacy bids were created under (migration profile)
    legacy_rate: Option<String>,
}

fn dec(s: &str) -> Decimal {
    Decimal::from_str(s).unwrap_or(Decimal::ONE)
}

fn subset(rng: &mut Rng, xs: &[&str], pct: u64) -> Vec<String> {
    xs.iter()
        .filter(|_| rng.chance(pct))
        .map(|s| s.to_string())
        .collect()
}

impl Scn2 {
    pub fn generate(rng: &mut Rng, profile: P2) -> Scn2 {
        let precision = match rng.below(10) {
            0..=3 => 0,
            4..=6 => 1,
            7..=8 => 2,
            _ => 3,
        } as u32;
        let unit = 10u128.pow(precision);
        let mut incs: Vec<u128> = vec![1, 5, 10, 20, 100, 250, 1000];
        incs.retain(|i| i % unit == 0);
        let increment = *rng.pick(&incs);
        let has_con = rng.chance(70);
        let mut convertibles: Vec<String> = if !has_con {
            vec![]
        } else if rng.chance(25) {
            vec!["con".into(), "con2".into()]
        } else {
            vec!["con".into()]
        };
        // now and then the contract's own base denomination is listed as convertible too (instantiate accepts it)
        if has_con && rng.chance(8) {
            let at = rng.below(convertibles.len() as u64 + 1) as usize;
            convertibles.insert(at, "base".into());
        }
        let quotes: Vec<String> = if rng.chance(40) {
            vec!["usd".into(), "eur".into()]
        } else {
            vec!["usd".into()]
        };
        let mut markers = BTreeMap::new();
        let restricted_pct = match profile {
            P2::Admission | P2::Match => 35,
            _ => 20,
        };
        for d in ["base", "con", "con2", "usd", "eur"] {
            let t = if rng.chance(restricted_pct) {
                "restricted"
            } else if rng.chance(50) {
                "coin"
            } else {
                "none"
            };
            markers.insert(d.to_string(), t.to_string());
        }
        let approvers: Vec<&str> = match rng.below(21) {
            20 => vec![],
            x => match x % 10 {
            0..=4 => vec!["approver"],
            5..=6 => vec!["approver", "approver2"],
            7 => vec!["approver", "exec"],
            8 => vec!["approver", "approver"],
            _ => vec!["approver2", "approver", "seller1"],
            },
        };
        let executors: Vec<&str> = match rng.below(10) {
            0..=4 => vec!["exec"],
            5..=6 => vec!["exec", "exec2"],
            7 => vec!["exec", "seller1"],
            8 => vec!["exec", "approver"],
            _ => vec!["exec", "buyer1", "exec"],
        };
        let fee_pct = match profile {
            P2::Match | P2::Admission | P2::Migration => 70,
            _ => 50,
        };
        let fee = |rng: &mut Rng, accts: &[&str]| -> (Option<String>, Option<String>) {
            if rng.chance(fee_pct) {
                (
                    Some(rng.pick(&RATES).to_string()),
                    Some(rng.pick(accts).to_string()),
                )
            } else if rng.chance(10) {
                (Some(String::new()), Some(String::new()))
            } else {
                (None, None)
            }
        };
        let (ask_rate, ask_acct) = fee(rng, &["askfee", "askfee", "approver", "seller1", "exec", "bidfee"]);
        let (bid_rate, bid_acct) = fee(rng, &["bidfee", "bidfee", "buyer1", "approver", "askfee"]);
        let attr_pct = if profile == P2::Admission { 45 } else { 15 };
        let ask_attrs = if rng.chance(attr_pct) { subset(rng, &ATTRS, 50) } else { vec![] };
        let bid_attrs = if rng.chance(attr_pct) { subset(rng, &ATTRS, 50) } else { vec![] };
        let mut attributes = BTreeMap::new();
        for a in ACCOUNTS {
            let mut held = subset(rng, &ATTRS, 80);
            // an account may hold several attributes under one name
            if !held.is_empty() && rng.chance(12) {
                let d = rng.pick(&held).clone();
                held.push(d);
            }
            if !held.is_empty() {
                attributes.insert(a.to_string(), held);
            }
        }
        let legacy_rate = bid_rate.clone().filter(|r| !r.is_empty());
        let header = json!({
            "markers": markers,
            "attributes": attributes,
            "instantiate": {
                "sender": "admin",
                "msg": {
                    "name": "ats-replay-search",
                    "base_denom": "base",
                    "convertible_base_denoms": convertibles,
                    "supported_quote_denoms": quotes,
                    "approvers": approvers,
                    "executors": executors,
                    "ask_fee_rate": ask_rate,
                    "ask_fee_account": ask_acct,
                    "bid_fee_rate": bid_rate,
                    "bid_fee_account": bid_acct,
                    "ask_required_attributes": ask_attrs,
                    "bid_required_attributes": bid_attrs,
                    "price_precision": precision.to_string(),
                    "size_increment": increment.to_string(),
                }
            },
        });
        let mut plan = VecDeque::new();
        match profile {
            P2::Migration => {
                if rng.chance(85) {
                    plan.push_back(Planned::SetVersion);
                }
                // now and then a large book: a long run of current-format bids with a few legacy ones among them
                // (page-size / batch-size effects in the conversion only show beyond some dozens of records)
                if rng.chance(6) {
                    let n_cur = rng.range(52, 110) as u64;
                    let n_leg = rng.range(1, 3);
                    let mut at: Vec<u64> = (0..n_leg).map(|_| rng.below(n_cur)).collect();
                    at.sort();
                    for i in 0..n_cur {
                        while at.first() == Some(&i) {
                            plan.push_back(Planned::PutLegacy);
                            at.remove(0);
                        }
                        plan.push_back(Planned::PutCurrentBid);
                    }
                    plan.push_back(Planned::PutLegacy);
                }
                let n = rng.range(2, 5);
                for _ in 0..n {
                    plan.push_back(match rng.below(11) {
                        0..=4 => Planned::PutLegacy,
                        5..=6 => Planned::PutCurrentBid,
                        7 => Planned::CreateBid,
                        8 => Planned::PutLegacyId,
                        _ => Planned::CreateAsk,
                    });
                }
                if rng.chance(85) {
                    plan.push_back(Planned::Migrate);
                }
            }
            P2::Config => {
                // modify_contract against the empty book, asks only, bids only, both
                let n = rng.below(4);
                for _ in 0..n {
                    plan.push_back(if rng.chance(50) { Planned::CreateAsk } else { Planned::CreateBid });
                }
            }
            P2::Instantiate => {}
            _ => {
                // now and then an order carried over from an early version under an un-hyphenated key
                if rng.chance(15) {
                    plan.push_back(Planned::PutLegacyId);
                }
                let (mut a, mut b) = (rng.range(1, 2), rng.range(1, 2));
                while a + b > 0 {
                    if b == 0 || (a > 0 && rng.chance(50)) {
                        plan.push_back(Planned::CreateAsk);
                        a -= 1;
                    } else {
                        plan.push_back(Planned::CreateBid);
                        b -= 1;
                    }
                }
            }
        }
        Scn2 {
            profile,
            precision,
            increment,
            quotes,
            convertibles,
            markers,
            header,
            next_id: 0,
            plan,
            used_ids: vec![],
            legacy_rate,
        }
    }

    /// Header for the `instantiate` profile: every field of the instantiate message varied.
    pub fn generate_instantiate(rng: &mut Rng) -> Scn2 {
        let mut s = Scn2::generate(rng, P2::Instantiate);
        let msg = &mut s.header["instantiate"]["msg"];
        let n = if rng.chance(25) { 0 } else { rng.range(1, 2) };
        for _ in 0..n {
            match rng.below(20) {
                0 => msg["name"] = json!(""),
                1 => msg["base_denom"] = json!(""),
                2 => msg["supported_quote_denoms"] = json!([]),
                3 => msg["executors"] = json!([]),
                4 => msg["approvers"] = json!([]),
                5 => {
                    let p = *rng.pick(&[17u32, 18, 19, 20, 38, 39]);
                    let inc = if p <= 38 && rng.chance(70) { 10u128.pow(p) } else { 10u128.pow(18) };
                    msg["price_precision"] = json!(p.to_string());
                    msg["size_increment"] = json!(inc.to_string());
                    if rng.chance(25) {
                        // far above 18, with small low-order 32 / 64 bits (and an increment that is a
                        // multiple of ten to THOSE)
                        let low = rng.below(19) as u32;
                        let big: u128 = *rng.pick(&[1u128 << 32, 1u128 << 64, 3u128 << 32, (1u128 << 96) + (1u128 << 32)]);
                        msg["price_precision"] = json!((big + low as u128).to_string());
                        msg["size_increment"] = json!(10u128.pow(low).to_string());
                    }
                }
                6 => {
                    if rng.chance(50) {
                        msg["size_increment"] = json!("0");
                    } else {
                        // increments beyond 64 bits: multiples and non-multiples of 10^precision whose low 64 / 32 bits
                        // say the opposite
                        let p = rng.range(1, 18) as u32;
                        let unit = 10u128.pow(p);
                        let big: u128 = *rng.pick(&[1u128 << 64, 3u128 << 64, (1u128 << 64) + 100, (1u128 << 100) + unit, 1u128 << 32]);
                        let inc = match rng.below(4) {
                            0 => big,
                            1 => big - big % unit,
                            2 => (big - big % unit).saturating_add(unit),
                            _ => unit.saturating_mul(*rng.pick(&[10u128, 25, 1u128 << 40])),
                        };
                        msg["price_precision"] = json!(p.to_string());
                        msg["size_increment"] = json!(inc.to_string());
                    }
                }
                7 => {
                    // increment around a power of ten
                    let p = rng.below(5) as u32;
                    let unit = 10u128.pow(p);
                    let inc = match rng.below(6) {
                        0 => unit,
                        1 => unit + 1,
                        2 => unit.saturating_sub(1).max(1),
                        3 => unit * 3,
                        4 => unit * 15 / 10,
                        _ => unit * 10,
                    };
                    msg["price_precision"] = json!(p.to_string());
                    msg["size_increment"] = json!(inc.to_string());
                }
                8 => msg["ask_fee_rate"] = Value::Null,
                9 => msg["ask_fee_account"] = Value::Null,
                10 => msg["bid_fee_rate"] = json!(rng.pick(&["", "abc", "0.1", " 0.1", "0.1 ", "1e-2", "-0.1", ".5"]).to_string()),
                11 => msg["bid_fee_account"] = json!(rng.pick(&["", "bidfee", "BidFee", "ab", "x"]).to_string()),
                12 => msg["ask_fee_rate"] = json!(rng.pick(&["", "abc", "0.1", " 0.1", "0.1 ", "1e-2", "-0.1", "5."]).to_string()),
                13 => msg["ask_fee_account"] = json!(rng.pick(&["", "askfee", "AskFee", "ab", "x"]).to_string()),
                14 => msg["approvers"] = json!(["approver", rng.pick(&["ab", "Approver", "", "approver2"]).to_string()]),
                15 => msg["executors"] = json!([rng.pick(&["ab", "Exec", "", "exec2"]).to_string(), "exec"]),
                16 => {
                    msg["bid_fee_rate"] = json!("");
                    msg["bid_fee_account"] = json!("");
                }
                17 => {
                    msg["ask_fee_rate"] = json!("0.02");
                    msg["ask_fee_account"] = json!("askfee");
                }
                18 => msg["convertible_base_denoms"] = json!([]),
                _ => msg["name"] = json!("x"),
            }
        }
        s
    }

    pub fn header(&self) -> Value {
        self.header.clone()
    }

    /// number of steps planned ahead at generation time (state seeding)
    pub fn planned_len(&self) -> usize {
        self.plan.len()
    }

    pub fn default_steps(p: P2) -> usize {
        match p {
            P2::Migration => 14,
            P2::Instantiate => 2,
            _ => 10,
        }
    }

    fn restricted(&self, denom: &str) -> bool {
        self.markers.get(denom).map(|s| s == "restricted").unwrap_or(false)
    }

    fn funds(&self, denom: &str, amount: u128) -> Value {
        if self.restricted(denom) {
            json!([])
        } else {
            json!([{"denom": denom, "amount": amount.to_string()}])
        }
    }

    fn new_id(&mut self, rng: &mut Rng) -> String {
        // now and then the canonical spelling of a uuid already in use: the hyphenated twin of a legacy
        // un-hyphenated key, or the same id on the other side of the book (ids are unique per side only)
        if !self.used_ids.is_empty() && rng.chance(8) {
            let u = rng.pick(&self.used_ids).clone();
            let hex: String = u
                .chars()
                .filter(|c| c.is_ascii_hexdigit())
                .collect::<String>()
                .to_lowercase();
            if hex.len() == 32 {
                return format!(
                    "{}-{}-{}-{}-{}",
                    &hex[0..8],
                    &hex[8..12],
                    &hex[12..16],
                    &hex[16..20],
                    &hex[20..32]
                );
            }
        }
        self.next_id += 1;
        // the leading digit is random so that ids of later orders sort before earlier ones too
        let id = format!(
            "{:x}{:x}000000-0000-4000-8000-{:012x}",
            rng.below(16),
            rng.below(16),
            self.next_id + 0xab00
        );
        self.used_ids.push(id.clone());
        id
    }

    fn any_account(&self, rng: &mut Rng) -> String {
        rng.pick(&ACCOUNTS).to_string()
    }

    fn wrong_pct(&self) -> u64 {
        match self.profile {
            P2::Auth => 40,
            P2::Config => 20,
            _ => 8,
        }
    }

    fn sender(&self, rng: &mut Rng, right: &str) -> String {
        if rng.chance(self.wrong_pct()) {
            self.any_account(rng)
        } else {
            right.to_string()
        }
    }

    fn executor(&self, rng: &mut Rng, ci: &Option<ConfigRec>) -> String {
        match ci {
            Some(c) if !c.executors.is_empty() => rng.pick(&c.executors).to_string(),
            _ => "exec".to_string(),
        }
    }

    fn approver(&self, rng: &mut Rng, ci: &Option<ConfigRec>) -> String {
        match ci {
            Some(c) if !c.approvers.is_empty() => rng.pick(&c.approvers).to_string(),
            _ => "approver".to_string(),
        }
    }

    /// a price within the configured precision, from a small set so that prices coincide
    fn price(&self, rng: &mut Rng) -> String {
        self.price_biased(rng, None)
    }

    /// `low`: asks tend to be cheap and bids dear in the match-heavy profiles, so that they cross
    fn price_biased(&self, rng: &mut Rng, low: Option<bool>) -> String {
        let all = [1u32, 2, 3, 4, 5, 10, 15, 25];
        let k = match low {
            Some(true) if rng.chance(60) => *rng.pick(&all[..4]),
            Some(false) if rng.chance(60) => *rng.pick(&all[3..]),
            _ => *rng.pick(&all),
        };
        let d = rng.below(self.precision as u64 + 1) as u32;
        let p = Decimal::new(k as i64, d);
        let mut s = p.normalize().to_string();
        if rng.chance(15) && self.precision_of(&s) < self.precision {
            // same number, written with a trailing zero
            s = if s.contains('.') { format!("{s}0") } else { format!("{s}.0") };
        }
        s
    }

    fn precision_of(&self, s: &str) -> u32 {
        s.split_once('.').map(|(_, f)| f.len() as u32).unwrap_or(0)
    }

    fn size(&self, rng: &mut Rng) -> u128 {
        self.increment * rng.range(1, 5)
    }

    /// lower-case hex digits of an id (what all spellings of one uuid share)
    fn hex_of(id: &str) -> String {
        id.chars().filter(|c| c.is_ascii_hexdigit()).collect::<String>().to_lowercase()
    }

    /// Now and then (6 %, 25 % for a legacy key) another spelling of the same uuid than the one the order is filed under:
    /// other letter case, un-hyphenated for a hyphenated id, hyphenated for a legacy un-hyphenated one.
    /// The contract looks orders up by the exact string, so such a request names no order.
    fn alt_id(&self, rng: &mut Rng, id: &str) -> String {
        // a legacy (un-hyphenated) key more often: clients of the current version send the canonical spelling
        let pct = if id.contains('-') { 6 } else { 25 };
        if !rng.chance(pct) || !id.is_ascii() {
            return id.to_string();
        }
        let hex = Self::hex_of(id);
        if hex.len() != 32 {
            return id.to_uppercase();
        }
        let hyph = format!("{}-{}-{}-{}-{}", &hex[0..8], &hex[8..12], &hex[12..16], &hex[16..20], &hex[20..32]);
        let other = if id.contains('-') { hex.clone() } else { hyph };
        match rng.below(4) {
            0 => if id.to_uppercase() != id { id.to_uppercase() } else { id.to_lowercase() },
            1 | 2 => other,
            _ => other.to_uppercase(),
        }
    }

    /// owner of another order on the same side filed under another spelling of the same uuid
    fn twin_owner<'a>(id: &str, same_side: impl Iterator<Item = (&'a str, &'a str)>) -> Option<String> {
        let hex = Self::hex_of(id);
        same_side
            .filter(|(i, _)| *i != id && Self::hex_of(i) == hex)
            .map(|(_, o)| o.to_string())
            .next()
    }

    fn mutate_id(&self, rng: &mut Rng, id: &str, same_side_ids: &[String]) -> String {
        match rng.below(7) {
            0 => id.to_uppercase(),
            1 => id.replace('-', ""),
            2 => format!("{{{id}}}"),
            3 => format!("urn:uuid:{id}"),
            4 | 5 if !same_side_ids.is_empty() => rng.pick(same_side_ids).clone(),
            _ if !self.used_ids.is_empty() => rng.pick(&self.used_ids).clone(),
            _ => id.to_uppercase(),
        }
    }

    fn mutate_price(&self, rng: &mut Rng, price: &str) -> String {
        match rng.below(10) {
            0 => "0".into(),
            1 => format!("-{price}"),
            2 => rng.pick(&["abc", "", "1e2", " 2", "2 ", "1,5", "0x10"]).to_string(),
            3 | 4 => {
                // one decimal place more than allowed
                let digits = "0".repeat(self.precision as usize);
                format!("{}.{digits}5", price.split('.').next().unwrap_or("1"))
            }
            5 => format!("+{price}"),
            6 => {
                if price.contains('.') { format!("{price}0") } else { format!("{price}.0") }
            }
            7 => {
                if price.contains('.') { format!("{price}00") } else { format!("{price}.00") }
            }
            8 => format!("0{price}"),
            _ => "0.0".into(),
        }
    }

    fn mutate_funds(&self, rng: &mut Rng, denom: &str, amount: u128) -> Value {
        let a = |x: u128| x.to_string();
        match rng.below(8) {
            0 => json!([{"denom": denom, "amount": a(amount + 1)}]),
            1 => json!([{"denom": denom, "amount": a(amount.saturating_sub(1))}]),
            2 => json!([{"denom": denom, "amount": a(amount)}, {"denom": "xyz", "amount": "1"}]),
            3 => json!([{"denom": rng.pick(&["usd", "eur", "base", "con", "xyz"]), "amount": a(amount)}]),
            4 => {
                // the opposite of what the marker type asks for
                if self.restricted(denom) {
                    json!([{"denom": denom, "amount": a(amount)}])
                } else {
                    json!([])
                }
            }
            5 => json!([{"denom": denom, "amount": a(amount.saturating_sub(1))}, {"denom": denom, "amount": "1"}]),
            6 => json!([{"denom": "xyz", "amount": "1"}, {"denom": denom, "amount": a(amount)}]),
            _ => json!([{"denom": denom, "amount": a(amount)}, {"denom": denom, "amount": "0"}]),
        }
    }

    fn mutation_pct(&self) -> u64 {
        match self.profile {
            P2::Admission => 60,
            P2::Auth | P2::Config | P2::Migration => 10,
            _ => 15,
        }
    }

    fn trader(&self, rng: &mut Rng, names: &[&str]) -> String {
        rng.pick(names).to_string()
    }

    fn create_ask(&mut self, rng: &mut Rng, asks: &[AskRec]) -> Value {
        let mut bases: Vec<String> = vec!["base".into()];
        bases.extend(self.convertibles.iter().cloned());
        if !self.convertibles.is_empty() && rng.chance(40) {
            bases.remove(0);
        }
        let mut base = rng.pick(&bases).clone();
        let mut id = self.new_id(rng);
        let mut size = self.size(rng);
        let bias = matches!(self.profile, P2::Match | P2::Migration).then_some(true);
        let mut price = self.price_biased(rng, bias);
        let mut quote = if rng.chance(80) { "usd".to_string() } else { rng.pick(&self.quotes).clone() };
        let mut seller = self.trader(rng, &["seller1", "seller2", "seller1", "buyer1"]);
        let mut funds: Option<Value> = None;
        let n_mut = if rng.chance(self.mutation_pct()) { 1 + rng.below(10) / 8 } else { 0 };
        for _ in 0..n_mut {
            match rng.below(11) {
                0 | 1 => {
                    let ids: Vec<String> = asks.iter().map(|a| a.id.clone()).collect();
                    id = self.mutate_id(rng, &id, &ids);
                }
                2 | 3 => price = self.mutate_price(rng, &price),
                4 => size += 1,
                5 => size = if rng.chance(50) { 0 } else { size.saturating_sub(1) },
                6 => quote = rng.pick(&["eur", "xyz", "base", ""]).to_string(),
                7 => base = rng.pick(&["xyz", "usd", "con2", "con", ""]).to_string(),
                8 => seller = self.any_account(rng),
                _ => funds = Some(self.mutate_funds(rng, &base, size)),
            }
        }
        let funds = funds.unwrap_or_else(|| self.funds(&base, size));
        if base != "base" && self.convertibles.contains(&base) && rng.chance(75) {
            self.plan.push_front(Planned::Approve(id.clone()));
        }
        json!({
            "execute": {"create_ask": {
                "id": id, "base": base, "quote": quote, "price": price, "size": size.to_string()
            }},
            "sender": seller,
            "funds": funds,
        })
    }

    fn create_bid(&mut self, rng: &mut Rng, ci: &Option<ConfigRec>, bids: &[BidRec]) -> Value {
        let mut id = self.new_id(rng);
        let mut size = self.size(rng);
        let bias = matches!(self.profile, P2::Match | P2::Migration).then_some(false);
        let mut price = self.price_biased(rng, bias);
        let mut quote = if rng.chance(80) { "usd".to_string() } else { rng.pick(&self.quotes).clone() };
        let mut base = "base".to_string();
        let mut buyer = self.trader(rng, &["buyer1", "buyer2", "buyer1", "seller1"]);
        let n_mut = if rng.chance(self.mutation_pct()) { 1 + rng.below(10) / 8 } else { 0 };
        let mut late: Vec<u64> = vec![];
        for _ in 0..n_mut {
            match rng.below(16) {
                0 | 1 => {
                    let ids: Vec<String> = bids.iter().map(|b| b.id.clone()).collect();
                    id = self.mutate_id(rng, &id, &ids);
                }
                2 | 3 => price = self.mutate_price(rng, &price),
                4 => size += 1,
                5 => size = if rng.chance(50) { 0 } else { size.saturating_sub(1) },
                6 => quote = rng.pick(&["eur", "xyz", "base", ""]).to_string(),
                7 => base = rng.pick(&["xyz", "usd", "con", ""]).to_string(),
                8 => buyer = self.any_account(rng),
                m => late.push(m),
            }
        }
        // the conforming values for the (possibly mutated) terms
        let total = parse_dec(&price)
            .and_then(|p| p.times(size).whole_u128())
            .unwrap_or_else(|| (dec(&price).abs() * Decimal::from(size as u64)).trunc().to_string().parse().unwrap_or(0));
        let rate = ci.as_ref().and_then(|c| c.bid_fee_info.as_ref()).map(|f| f.rate.clone());
        let due = rate.as_deref().and_then(parse_dec).and_then(|r| fee_of(&r, total)).unwrap_or(0);
        let mut quote_size = total;
        let mut fee: Option<(u128, String)> = if due > 0 {
            Some((due, quote.clone()))
        } else if rng.chance(10) {
            Some((0, quote.clone()))
        } else {
            None
        };
        let mut funds: Option<Value> = None;
        for m in late {
            match m {
                9 => quote_size += 1,
                10 => quote_size = quote_size.saturating_sub(1),
                11 => {
                    fee = match fee {
                        Some((f, d)) => Some((f + 1, d)),
                        None => Some((1, quote.clone())),
                    }
                }
                12 => {
                    fee = match fee {
                        Some((f, d)) if f > 0 => Some((f - 1, d)),
                        Some(_) => None,
                        None => Some((0, quote.clone())),
                    }
                }
                13 => {
                    fee = match fee {
                        Some((f, _)) => Some((f, rng.pick(&["base", "eur", "xyz", "usd"]).to_string())),
                        None => None,
                    }
                }
                14 => {
                    // escrow without the fee / fee absent although due
                    if rng.chance(50) {
                        funds = Some(self.funds(&quote, quote_size));
                    } else {
                        fee = None;
                    }
                }
                _ => {
                    let amount = quote_size + fee.as_ref().map(|f| f.0).unwrap_or(0);
                    funds = Some(self.mutate_funds(rng, &quote, amount));
                }
            }
        }
        let amount = quote_size + fee.as_ref().map(|f| f.0).unwrap_or(0);
        let funds = funds.unwrap_or_else(|| self.funds(&quote, amount));
        json!({
            "execute": {"create_bid": {
                "id": id, "base": base,
                "fee": fee.map(|(f, d)| json!({"denom": d, "amount": f.to_string()})),
                "price": price, "quote": quote,
                "quote_size": quote_size.to_string(), "size": size.to_string()
            }},
            "sender": buyer,
            "funds": funds,
        })
    }

    fn approve(&self, rng: &mut Rng, ci: &Option<ConfigRec>, ask: &AskRec) -> Value {
        let mut size = ask.size;
        let mut base = "base".to_string();
        let right = self.approver(rng, ci);
        if rng.chance(12) {
            match rng.below(3) {
                0 => size += 1,
                1 => size = size.saturating_sub(1).max(1),
                _ => {
                    // another denomination: one of the market's convertibles (the ask's own among them), a quote, an unknown one
                    base = if !self.convertibles.is_empty() && rng.chance(50) {
                        rng.pick(&self.convertibles).clone()
                    } else {
                        rng.pick(&["con", "usd", "xyz"]).to_string()
                    }
                }
            }
        }
        let funds = if rng.chance(6) { self.mutate_funds(rng, &base, size) } else { self.funds(&base, size) };
        json!({
            "execute": {"approve_ask": {"id": self.alt_id(rng, &ask.id), "base": base, "size": size.to_string()}},
            "sender": self.sender(rng, &right),
            "funds": funds,
        })
    }

    fn spelled_differently(&self, rng: &mut Rng, p: &str) -> String {
        match rng.below(4) {
            0 => if p.contains('.') { format!("{p}0") } else { format!("{p}.0") },
            1 => if p.contains('.') { format!("{p}00") } else { format!("{p}.00") },
            2 => dec(p).normalize().to_string(),
            _ => format!("0{p}"),
        }
    }

    fn match_step(
        &self,
        rng: &mut Rng,
        ci: &Option<ConfigRec>,
        asks: &[AskRec],
        bids: &[BidRec],
    ) -> Value {
        let mut ask = rng.pick(asks);
        let mut bid = rng.pick(bids);
        for _ in 0..8 {
            let pending = matches!(ask.class, AskClass::Pending);
            if dec(&ask.price) <= dec(&bid.price) && ask.quote == bid.quote.denom && (!pending || rng.chance(15)) {
                break;
            }
            ask = rng.pick(asks);
            bid = rng.pick(bids);
        }
        let (ap, bp) = (dec(&ask.price), dec(&bid.price));
        let price = match rng.below(100) {
            0..=29 => ask.price.clone(),
            30..=59 => bid.price.clone(),
            60..=69 => self.spelled_differently(rng, &ask.price),
            70..=79 => self.spelled_differently(rng, &bid.price),
            80..=86 => ((ap + bp) / Decimal::from(2)).normalize().to_string(),
            87..=91 => {
                // more decimals than the precision, close to a limit
                let eps = Decimal::new(*rng.pick(&[4i64, 5, 1, 49]), self.precision + *rng.pick(&[1u32, 2]));
                let b = if rng.chance(50) { ap } else { bp };
                if rng.chance(50) { (b + eps).to_string() } else { (b - eps).to_string() }
            }
            92..=94 => (ap - Decimal::new(1, self.precision)).to_string(),
            95..=97 => (bp + Decimal::new(1, self.precision)).to_string(),
            _ => rng.pick(&["abc", "", "0", "-1"]).to_string(),
        };
        let rem = bid.base.amount.saturating_sub(bid.accumulated_base);
        let max = ask.size.min(rem).max(1);
        let size = match rng.below(100) {
            0..=34 => max,
            35..=46 => max + 1,
            47..=54 => 1,
            55..=74 => rng.range(1, max),
            75..=92 => self.increment * rng.range(1, (max / self.increment).max(1)),
            93..=95 => 0,
            96..=97 => ask.size.max(rem) + 1,
            _ => ask.size.max(rem),
        };
        let (ask_id, bid_id) = if rng.chance(3) {
            (ask.id.to_uppercase(), bid.id.clone())
        } else if rng.chance(3) && !self.used_ids.is_empty() {
            (ask.id.clone(), rng.pick(&self.used_ids).clone())
        } else {
            (self.alt_id(rng, &ask.id), self.alt_id(rng, &bid.id))
        };
        let right = self.executor(rng, ci);
        let funds = if rng.chance(3) { json!([{"denom": "usd", "amount": "1"}]) } else { json!([]) };
        json!({
            "execute": {"execute_match": {
                "ask_id": ask_id, "bid_id": bid_id, "price": price, "size": size.to_string()
            }},
            "sender": self.sender(rng, &right),
            "funds": funds,
        })
    }

    fn list_variant(&self, rng: &mut Rng, current: &[String], pool: &[&str]) -> Value {
        let mut l: Vec<String> = current.to_vec();
        match rng.below(12) {
            0 => {}
            1 | 2 => l.push(rng.pick(pool).to_string()),
            3 => {
                if !l.is_empty() {
                    let i = rng.below(l.len() as u64) as usize;
                    l.remove(i);
                }
                l.push(rng.pick(pool).to_string());
            }
            4 => {
                if l.len() > 1 {
                    let i = rng.below(l.len() as u64) as usize;
                    l.remove(i);
                }
            }
            5 => {
                // a repeated entry stands in for a dropped one
                if !l.is_empty() {
                    let keep = l[rng.below(l.len() as u64) as usize].clone();
                    let n = l.len();
                    l = vec![keep; n];
                    if rng.chance(50) {
                        l.push(rng.pick(pool).to_string());
                    }
                }
            }
            6 => {
                if let Some(first) = l.first().cloned() {
                    l.push(first);
                }
            }
            7 => {
                if !l.is_empty() {
                    let i = rng.below(l.len() as u64) as usize;
                    let mut c = l[i].chars();
                    l[i] = match c.next() {
                        Some(f) => f.to_uppercase().collect::<String>() + c.as_str(),
                        None => String::new(),
                    };
                }
            }
            8 => l.reverse(),
            9 => l = vec![],
            10 => l = vec![rng.pick(pool).to_string()],
            _ => {
                l.push(rng.pick(&["ab", "", "Exec", "APPROVER"]).to_string());
            }
        }
        json!(l)
    }

    fn fee_variant(&self, rng: &mut Rng, current: Option<(String, String)>) -> (Value, Value) {
        // (rate, account)
        let acct = rng.pick(&["askfee", "bidfee", "approver", "seller1", "buyer1", "feeacct2", "exec"]).to_string();
        let other_rate = rng.pick(&RATES).to_string();
        match (rng.below(14), current) {
            (0..=2, _) => (Value::Null, Value::Null),
            (3..=4, Some((_, r))) => (json!(r), json!(acct)),
            (5, Some((_, r))) => (json!(self.spelled_differently(rng, &r)), json!(acct)),
            (6, Some((a, _))) => (json!(other_rate), json!(a)),
            (7, _) => (json!(""), json!("")),
            (8, Some((_, r))) => (json!(r), json!("")),
            (9, _) => {
                if rng.chance(50) { (json!(other_rate), Value::Null) } else { (Value::Null, json!(acct)) }
            }
            (10, _) => (json!(rng.pick(&["abc", "", " 0.1", "1e-2"]).to_string()), json!(acct)),
            (11, Some((a, r))) => (json!(r), json!(a)),
            (12, _) => (json!(""), json!(acct)),
            (_, _) => (json!(other_rate), json!(acct)),
        }
    }

    fn attrs_variant(&self, rng: &mut Rng, current: &[String]) -> Value {
        match rng.below(8) {
            0..=3 => Value::Null,
            4 => json!(current),
            5 => json!([]),
            6 => json!(subset(rng, &ATTRS, 50)),
            _ => {
                let mut l = current.to_vec();
                l.push(rng.pick(&ATTRS).to_string());
                json!(l)
            }
        }
    }

    fn modify(&self, rng: &mut Rng, ci: &Option<ConfigRec>) -> Value {
        let (approvers, executors, ask_fee, bid_fee, ask_attrs, bid_attrs) = match ci {
            Some(c) => (
                c.approvers.iter().map(|a| a.to_string()).collect::<Vec<_>>(),
                c.executors.iter().map(|a| a.to_string()).collect::<Vec<_>>(),
                c.ask_fee_info.as_ref().map(|f| (f.account.to_string(), f.rate.clone())),
                c.bid_fee_info.as_ref().map(|f| (f.account.to_string(), f.rate.clone())),
                c.ask_required_attributes.clone(),
                c.bid_required_attributes.clone(),
            ),
            None => (vec![], vec![], None, None, vec![], vec![]),
        };
        let right = self.executor(rng, ci);
        let sender = self.sender(rng, &right);
        // most requests touch one or two fields only, so that a fair share of them is accepted
        let touch = |rng: &mut Rng| rng.chance(30);
        let a = if touch(rng) { self.list_variant(rng, &approvers, &["approver", "approver2", "stranger", "exec", "seller1"]) } else { Value::Null };
        let mut e = if touch(rng) { self.list_variant(rng, &executors, &["exec", "exec2", "stranger", "approver", "buyer1"]) } else { Value::Null };
        if self.profile == P2::Auth && rng.chance(25) {
            // the sender names itself on the incoming list
            let mut l = executors.clone();
            if rng.chance(50) {
                l = vec![];
            }
            l.push(sender.clone());
            e = json!(l);
        }
        let (ar, aa) = if touch(rng) { self.fee_variant(rng, ask_fee) } else { (Value::Null, Value::Null) };
        let (br, ba) = if touch(rng) { self.fee_variant(rng, bid_fee) } else { (Value::Null, Value::Null) };
        let aat = if touch(rng) { self.attrs_variant(rng, &ask_attrs) } else { Value::Null };
        let bat = if touch(rng) { self.attrs_variant(rng, &bid_attrs) } else { Value::Null };
        let funds = if rng.chance(4) { json!([{"denom": "usd", "amount": "5"}]) } else { json!([]) };
        json!({
            "execute": {"modify_contract": {
                "approvers": a, "executors": e,
                "ask_fee_rate": ar, "ask_fee_account": aa,
                "bid_fee_rate": br, "bid_fee_account": ba,
                "ask_required_attributes": aat, "bid_required_attributes": bat
            }},
            "sender": sender,
            "funds": funds,
        })
    }

    // ---- migration profile -------------------------------------------------

    fn coin(denom: &str, amount: u128) -> Value {
        json!({"denom": denom, "amount": amount.to_string()})
    }

    /// A legacy (event-log) bid whose log is what the old code would have written: fills at or
    /// below the limit price with the refund that goes with them, partial rejects, fees pro-rata.
    fn legacy_bid(&mut self, rng: &mut Rng) -> Value {
        // early contract versions also accepted ids in other written forms of a uuid
        let id = match rng.below(100) {
            0..=64 => self.new_id(rng),
            65..=84 => self.new_id(rng).replace('-', ""),
            _ => self.new_id(rng).to_uppercase(),
        };
        let owner = self.trader(rng, &["buyer1", "buyer2"]);
        let price = self.price(rng);
        let size = self.increment * rng.range(2, 6);
        let p = parse_dec(&price);
        let total = p.and_then(|p| p.times(size).whole_u128()).unwrap_or(size);
        let fee_total = match &self.legacy_rate {
            Some(r) if rng.chance(85) => parse_dec(r).and_then(|r| fee_of(&r, total)).filter(|f| *f > 0),
            _ => None,
        };
        let block = |h: u64| json!({"height": h, "time": "1571797419879305533"});
        let mut events: Vec<Value> = vec![];
        let (mut rb, mut rq, mut rf) = (size, total, fee_total.unwrap_or(0));
        let n_events = rng.below(4);
        let chaotic = rng.chance(15);
        for h in 0..n_events {
            if rb <= self.increment {
                break;
            }
            let lots_left = rb / self.increment;
            let b = self.increment * rng.range(1, (lots_left - 1).max(1));
            if b >= rb {
                break;
            }
            let dq = match p.and_then(|p| p.times(b).whole_u128()) {
                Some(x) => x,
                None => break,
            };
            // fee share released when dq leaves the unspent quote
            let share = |rq_after: u128, rf_now: u128| -> u128 {
                match fee_total {
                    Some(f) => {
                        let keep = prorata(f, rq_after, total).unwrap_or(0);
                        rf_now.saturating_sub(keep)
                    }
                    None => 0,
                }
            };
            let fee_json = |x: u128, rng: &mut Rng| -> Value {
                if x > 0 {
                    Self::coin("usd", x)
                } else if fee_total.is_some() && rng.chance(30) {
                    Self::coin("usd", 0)
                } else {
                    Value::Null
                }
            };
            if chaotic {
                // arbitrary amounts (still within the originals): not what the old code wrote
                let q = rng.range(0, rq / 2);
                let f = rng.range(0, rf);
                let kind = rng.below(3);
                let ev = match kind {
                    0 => json!({"Fill": {"base": Self::coin("base", b), "fee": fee_json(f, rng), "price": price, "quote": Self::coin("usd", q)}}),
                    1 => json!({"Refund": {"fee": fee_json(f, rng), "quote": Self::coin("usd", q)}}),
                    _ => json!({"Reject": {"base": Self::coin("base", b), "fee": fee_json(f, rng), "quote": Self::coin("usd", q)}}),
                };
                if kind != 1 {
                    rb -= b;
                }
                rq -= q;
                rf -= f;
                events.push(json!({"action": ev, "block_info": block(h + 10)}));
                continue;
            }
            if rng.chance(55) {
                // fill, at the limit price or at a lower price with its refund
                let improved = rng.chance(50);
                let g = if improved && dq >= 2 { dq - rng.range(1, dq / 2) } else { dq };
                let f1 = share(rq - g, rf);
                events.push(json!({"action": {"Fill": {
                    "base": Self::coin("base", b), "fee": fee_json(f1, rng), "price": price, "quote": Self::coin("usd", g)
                }}, "block_info": block(h + 10)}));
                rf -= f1;
                if g < dq {
                    let f2 = share(rq - dq, rf);
                    events.push(json!({"action": {"Refund": {
                        "fee": fee_json(f2, rng), "quote": Self::coin("usd", dq - g)
                    }}, "block_info": block(h + 10)}));
                    rf -= f2;
                }
            } else {
                let f1 = share(rq - dq, rf);
                events.push(json!({"action": {"Reject": {
                    "base": Self::coin("base", b), "fee": fee_json(f1, rng), "quote": Self::coin("usd", dq)
                }}, "block_info": block(h + 10)}));
                rf -= f1;
            }
            rb -= b;
            rq -= dq;
        }
        // two equal lots taken in one block at the same price are logged as two identical adjacent events
        // (only for fee-less bids, where the second event's fee share is trivially the same)
        if fee_total.is_none() && !chaotic && rng.chance(25) {
            if let Some(last) = events.last().cloned() {
                let act = &last["action"];
                let body = act.get("Fill").or_else(|| act.get("Reject"));
                let amt = |v: &Value, k: &str| v[k]["amount"].as_str().and_then(|x| x.parse::<u128>().ok());
                if let Some(body) = body {
                    if let (Some(lb), Some(lq)) = (amt(body, "base"), amt(body, "quote")) {
                        let at_limit = p.and_then(|p| p.times(lb).whole_u128()) == Some(lq);
                        if at_limit && rb > lb && rq >= lq {
                            events.push(last);
                        }
                    }
                }
            }
        }
        json!({"put_bid_v2": {
            "base": Self::coin("base", size),
            "events": events,
            "fee": fee_total.map(|f| Self::coin("usd", f)),
            "id": id,
            "owner": owner,
            "price": price,
            "quote": Self::coin("usd", total),
        }})
    }

    fn current_bid(&mut self, rng: &mut Rng) -> Value {
        let id = self.new_id(rng);
        let owner = self.trader(rng, &["buyer1", "buyer2"]);
        let price = self.price(rng);
        let size = self.increment * rng.range(1, 5);
        let total = parse_dec(&price).and_then(|p| p.times(size).whole_u128()).unwrap_or(size);
        let fee = match &self.legacy_rate {
            Some(r) if rng.chance(80) => parse_dec(r).and_then(|r| fee_of(&r, total)).filter(|f| *f > 0),
            _ => None,
        };
        json!({"put_bid": {
            "base": Self::coin("base", size),
            "accumulated_base": "0", "accumulated_quote": "0", "accumulated_fee": "0",
            "fee": fee.map(|f| Self::coin("usd", f)),
            "id": id, "owner": owner, "price": price,
            "quote": Self::coin("usd", total),
        }})
    }

    /// An order carried over from an early contract version under an un-hyphenated id
    /// (current storage format, only the id is in the old written form).
    fn legacy_id_order(&mut self, rng: &mut Rng) -> Value {
        let id = self.new_id(rng).replace('-', "");
        self.used_ids.push(id.clone());
        let price = self.price(rng);
        let size = self.increment * rng.range(1, 5);
        if rng.chance(50) {
            let owner = self.trader(rng, &["seller1", "seller2"]);
            // plain, or (40 % where the market has convertibles) a convertible ask as the old
            // versions stored it: still pending, or approved with the approver's escrow
            let true_cons: Vec<String> = self.convertibles.iter().filter(|c| c.as_str() != "base").cloned().collect();
            let (base, class) = if !true_cons.is_empty() && rng.chance(40) {
                let con = rng.pick(&true_cons).clone();
                if rng.chance(50) {
                    (con, json!({"Convertible": {"status": "PendingIssuerApproval"}}))
                } else {
                    (con, json!({"Convertible": {"status": {"Ready": {
                        "approver": "approver",
                        "converted_base": {"denom": "base", "amount": size.to_string()},
                    }}}}))
                }
            } else {
                ("base".to_string(), json!("Basic"))
            };
            json!({"put_ask": {
                "id": id, "owner": owner, "class": class, "base": base, "quote": "usd",
                "price": price, "size": size.to_string(),
            }})
        } else {
            let mut v = self.current_bid(rng);
            v["put_bid"]["id"] = json!(id);
            v
        }
    }

    fn migrate_step(&self, rng: &mut Rng, ci: &Option<ConfigRec>) -> Value {
        let approvers = ci
            .as_ref()
            .map(|c| c.approvers.iter().map(|a| a.to_string()).collect::<Vec<_>>())
            .unwrap_or_default();
        let touch = |rng: &mut Rng| rng.chance(25);
        let a = if touch(rng) { self.list_variant(rng, &approvers, &["approver", "approver2", "stranger"]) } else { Value::Null };
        let cur = |f: Option<&FeeRec>| f.map(|f| (f.account.to_string(), f.rate.clone()));
        let (ar, aa) = if touch(rng) {
            self.fee_variant(rng, ci.as_ref().and_then(|c| cur(c.ask_fee_info.as_ref())))
        } else {
            (Value::Null, Value::Null)
        };
        let (br, ba) = if touch(rng) {
            self.fee_variant(rng, ci.as_ref().and_then(|c| cur(c.bid_fee_info.as_ref())))
        } else {
            (Value::Null, Value::Null)
        };
        let empty: Vec<String> = vec![];
        let aat = if touch(rng) {
            self.attrs_variant(rng, ci.as_ref().map(|c| &c.ask_required_attributes).unwrap_or(&empty))
        } else {
            Value::Null
        };
        let bat = if touch(rng) {
            self.attrs_variant(rng, ci.as_ref().map(|c| &c.bid_required_attributes).unwrap_or(&empty))
        } else {
            Value::Null
        };
        json!({"migrate": {
            "approvers": a,
            "ask_fee_rate": ar, "ask_fee_account": aa,
            "bid_fee_rate": br, "bid_fee_account": ba,
            "ask_required_attributes": aat, "bid_required_attributes": bat
        }})
    }

    // ---- step selection ------------------------------------------------------

    pub fn gen_step(&mut self, rng: &mut Rng, world: &World) -> Value {
        let book = world.book();
        let asks: Vec<AskRec> = book.v1_asks_by_key();
        let bids: Vec<BidRec> = book.v3_bids_by_key();
        let ci = world.contract_info();

        while let Some(p) = self.plan.pop_front() {
            match p {
                Planned::CreateAsk => return self.create_ask(rng, &asks),
                Planned::CreateBid => return self.create_bid(rng, &ci, &bids),
                Planned::Approve(id) => {
                    if let Some(a) = asks.iter().find(|a| a.id == id) {
                        return self.approve(rng, &ci, a);
                    }
                }
                Planned::SetVersion => return json!({"set_version": rng.pick(&VERSIONS).to_string()}),
                Planned::PutLegacy => return self.legacy_bid(rng),
                Planned::PutCurrentBid => return self.current_bid(rng),
                Planned::PutLegacyId => return self.legacy_id_order(rng),
                Planned::Migrate => return self.migrate_step(rng, &ci),
            }
        }

        let pending: Vec<&AskRec> = asks
            .iter()
            .filter(|a| matches!(a.class, AskClass::Pending))
            .collect();
        let has_a = !asks.is_empty();
        let has_b = !bids.is_empty();
        // match, reject_ask, reject_bid, expire_ask, expire_bid, cancel_ask, cancel_bid, modify,
        // create_ask, create_bid, approve, migrate, set_version, put_legacy
        let mut w: [u64; 14] = match self.profile {
            P2::Auth => [14, 9, 9, 8, 8, 12, 12, 12, 4, 4, 8, 0, 0, 0],
            P2::Config => [6, 4, 4, 4, 4, 6, 6, 50, 6, 6, 4, 0, 0, 0],
            P2::Admission => [6, 2, 2, 2, 2, 4, 4, 8, 32, 34, 4, 0, 0, 0],
            P2::Match => [52, 5, 7, 2, 3, 3, 4, 5, 7, 8, 4, 0, 0, 0],
            P2::Migration => [26, 4, 8, 3, 6, 4, 10, 3, 5, 6, 3, 7, 5, 5],
            P2::Instantiate => [0, 0, 0, 0, 0, 0, 0, 0, 50, 50, 0, 0, 0, 0],
        };
        if !(has_a && has_b) {
            w[0] = 0;
        }
        if !has_a {
            w[1] = 0;
            w[3] = 0;
            w[5] = 0;
            w[10] = 0;
        }
        if !has_b {
            w[2] = 0;
            w[4] = 0;
            w[6] = 0;
        }
        let exec = self.executor(rng, &ci);
        let exec_step = |s: &Scn2, rng: &mut Rng, right: &str, msg: Value| -> Value {
            let funds = if rng.chance(2) { json!([{"denom": "usd", "amount": "1"}]) } else { json!([]) };
            json!({"execute": msg, "sender": s.sender(rng, right), "funds": funds})
        };
        match rng.weighted(&w) {
            0 => self.match_step(rng, &ci, &asks, &bids),
            1 => {
                let ask = rng.pick(&asks);
                let lots = (ask.size / self.increment).max(1);
                let size = match rng.below(10) {
                    0..=5 => Some(self.increment * rng.range(1, lots)),
                    6 => Some(ask.size + 1),
                    7 => Some(rng.range(0, ask.size)),
                    _ => None,
                };
                let named = self.alt_id(rng, &ask.id);
                exec_step(self, rng, &exec, json!({"reject_ask": {"id": named, "size": size.map(|s| s.to_string())}}))
            }
            2 => {
                let bid = rng.pick(&bids);
                let rem = bid.base.amount.saturating_sub(bid.accumulated_base);
                let lots = (rem / self.increment).max(1);
                let size = match rng.below(10) {
                    0..=5 => Some(self.increment * rng.range(1, lots)),
                    6 => Some(rem + 1),
                    7 => Some(rng.range(0, rem)),
                    _ => None,
                };
                let named = self.alt_id(rng, &bid.id);
                exec_step(self, rng, &exec, json!({"reject_bid": {"id": named, "size": size.map(|s| s.to_string())}}))
            }
            3 => {
                let ask = rng.pick(&asks);
                let named = self.alt_id(rng, &ask.id);
                exec_step(self, rng, &exec, json!({"expire_ask": {"id": named}}))
            }
            4 => {
                let bid = rng.pick(&bids);
                let named = self.alt_id(rng, &bid.id);
                exec_step(self, rng, &exec, json!({"expire_bid": {"id": named}}))
            }
            5 => {
                let ask = rng.pick(&asks);
                let right = ask.owner.to_string();
                // in the auth profile the "wrong" sender is often one holding another role
                let mut s = if self.profile == P2::Auth && rng.chance(30) { exec.clone() } else { right };
                // ... or the owner of an order filed under another spelling of the same uuid
                if let Some(t) = Self::twin_owner(&ask.id, asks.iter().map(|a| (a.id.as_str(), a.owner.as_str()))) {
                    if rng.chance(50) { s = t; }
                }
                let named = self.alt_id(rng, &ask.id);
                exec_step(self, rng, &s, json!({"cancel_ask": {"id": named}}))
            }
            6 => {
                let bid = rng.pick(&bids);
                let right = bid.owner.to_string();
                let mut s = if self.profile == P2::Auth && rng.chance(30) { exec.clone() } else { right };
                if let Some(t) = Self::twin_owner(&bid.id, bids.iter().map(|b| (b.id.as_str(), b.owner.as_str()))) {
                    if rng.chance(50) { s = t; }
                }
                let named = self.alt_id(rng, &bid.id);
                exec_step(self, rng, &s, json!({"cancel_bid": {"id": named}}))
            }
            7 => self.modify(rng, &ci),
            8 => self.create_ask(rng, &asks),
            9 => self.create_bid(rng, &ci, &bids),
            10 => {
                let a = if !pending.is_empty() && rng.chance(85) { pending[0] } else { rng.pick(&asks) };
                self.approve(rng, &ci, a)
            }
            11 => self.migrate_step(rng, &ci),
            12 => json!({"set_version": rng.pick(&VERSIONS).to_string()}),
            _ => {
                if rng.chance(75) {
                    self.legacy_bid(rng)
                } else {
                    self.legacy_id_order(rng)
                }
            }
        }
    }
}
