//! ats-replay: replays JSON histories against the real ats-smart-contract code.
//!
//!   ats-replay run <history.json> [--quiet]
//!   ats-replay search --oracle <name|all> --seed <u64> --iters <n>
//!                     [--max-steps k] [--out <file.json>] [--profile <name>]
//!
//! Exit codes — run: 0 all asserts hold, 3 some assert fails, 2 malformed input / internal error.
//!              search: 1 HIT, 0 NO-HIT, 2 usage / internal error.

mod exact;
mod format;
mod gen2;
mod oracles;
mod props;
mod run;
mod search;

use oracles::OracleSel;
use serde_json::Value;
use std::panic::{catch_unwind, AssertUnwindSafe};

const USAGE: &str = "usage:
  ats-replay run <history.json> [--quiet]
  ats-replay search --oracle <name|all|new> --seed <u64> --iters <n> [--max-steps k] [--out <file.json>]
                    [--profile default|convertible|fees|nonlot|markers|auth|config|admission|match|migration|instantiate|auto] [--stats]
  ats-replay oracles [--profiles]   (list oracle names [and the search profiles registered for each])
  ats-replay storage <history.json> (run the history, print the raw contract storage afterwards)";

fn main() {
    run::install_panic_hook();
    let args: Vec<String> = std::env::args().skip(1).collect();
    let code = match catch_unwind(AssertUnwindSafe(|| real_main(&args))) {
        Ok(code) => code,
        Err(_) => {
            eprintln!("internal error: panic: {}", run::take_panic_message());
            2
        }
    };
    std::process::exit(code);
}

fn real_main(args: &[String]) -> i32 {
    match args.first().map(|s| s.as_str()) {
        Some("run") => cmd_run(&args[1..]),
        Some("search") => search::cmd_search(&args[1..]),
        Some("storage") => cmd_storage(&args[1..]),
        Some("oracles") => {
            let with_profiles = args.iter().any(|a| a == "--profiles");
            for o in oracles::ORACLES {
                if with_profiles {
                    println!("{o}: {}", search::profiles_for(o).join(" "));
                } else {
                    println!("{o}");
                }
            }
            0
        }
        _ => {
            eprintln!("{USAGE}");
            2
        }
    }
}

/// `ats-replay storage <history.json>`: runs the history (no oracles) and prints the raw contract
/// storage afterwards, one line per entry: the key (non-printable bytes as \xNN) and the stored bytes.
fn cmd_storage(args: &[String]) -> i32 {
    let file = match args.first() {
        Some(f) => f,
        None => {
            eprintln!("{USAGE}");
            return 2;
        }
    };
    let history: Value = match std::fs::read_to_string(file)
        .map_err(|e| e.to_string())
        .and_then(|t| serde_json::from_str(&t).map_err(|e| e.to_string()))
    {
        Ok(v) => v,
        Err(e) => {
            eprintln!("error: cannot read {file}: {e}");
            return 2;
        }
    };
    let (world, _) = match run::run_history(&history, &OracleSel::Nothing, |_| {}) {
        Ok(r) => r,
        Err(e) => {
            eprintln!("error: malformed history: {e}");
            return 2;
        }
    };
    for (k, v) in run::Snap::take(&world.deps.storage).raw {
        let key: String = k
            .iter()
            .map(|b| if (0x20..0x7f).contains(b) { (*b as char).to_string() } else { format!("\\x{b:02x}") })
            .collect();
        println!("{key}\t{}", String::from_utf8_lossy(&v));
    }
    0
}

fn cmd_run(args: &[String]) -> i32 {
    let mut quiet = false;
    let mut file: Option<&String> = None;
    for a in args {
        match a.as_str() {
            "--quiet" | "-q" => quiet = true,
            s if s.starts_with("--") => {
                eprintln!("unknown option {s}\n{USAGE}");
                return 2;
            }
            _ if file.is_none() => file = Some(a),
            _ => {
                eprintln!("unexpected argument {a}\n{USAGE}");
                return 2;
            }
        }
    }
    let file = match file {
        Some(f) => f,
        None => {
            eprintln!("{USAGE}");
            return 2;
        }
    };
    let text = match std::fs::read_to_string(file) {
        Ok(t) => t,
        Err(e) => {
            eprintln!("error: cannot read {file}: {e}");
            return 2;
        }
    };
    let history: Value = match serde_json::from_str(&text) {
        Ok(v) => v,
        Err(e) => {
            eprintln!("error: {file} is not valid JSON: {e}");
            return 2;
        }
    };
    let (world, res) = match run::run_history(&history, &OracleSel::All, |line| {
        if !quiet {
            eprintln!("{line}");
        }
    }) {
        Ok(r) => r,
        Err(e) => {
            eprintln!("error: malformed history: {e}");
            return 2;
        }
    };
    let asserts = match run::eval_asserts(&history, &world, &res) {
        Ok(a) => a,
        Err(e) => {
            eprintln!("error: malformed assert: {e}");
            return 2;
        }
    };
    let doc = run::result_json(&res, &asserts);
    match serde_json::to_string_pretty(&doc) {
        Ok(s) => println!("{s}"),
        Err(e) => {
            eprintln!("internal error: cannot serialise result: {e}");
            return 2;
        }
    }
    let mut all = true;
    for (i, a) in asserts.iter().enumerate() {
        all &= a.holds;
        if !quiet {
            eprintln!(
                "assert {i} {}: {} -- {}",
                a.assert,
                if a.holds { "HOLDS" } else { "DOES-NOT-HOLD" },
                a.detail
            );
        }
    }
    if !quiet {
        eprintln!(
            "{file}: {} step(s), {} assert(s), {}",
            res.steps.len(),
            asserts.len(),
            if all { "all asserts hold" } else { "SOME ASSERT DOES NOT HOLD" }
        );
    }
    if all {
        0
    } else {
        3
    }
}
