//! The persisted formats of ats-smart-contract as DATA, independent of the contract's serde derives.
//!
//! Everything the released contract keeps in storage is one of five JSON records.  Their exact
//! shapes ("golden shapes") were taken from the bytes the unchanged contract writes (see
//! ORACLES.md section 7 for the dumps) and are hard-coded here as a hand-written reader / writer
//! over `serde_json::Value`.  Key order is irrelevant, everything else is exact: the set of field
//! names (no field missing, no field extra), the nesting, `null` for an absent optional part,
//! unsigned integers encoded as canonical decimal STRINGS (`"0"`, `"12"`; never `"012"`, `"+1"`,
//! `12`), block heights as JSON numbers, block times as string-encoded nanoseconds.
//!
//! ```text
//! coin            {"denom": <string>, "amount": <u128 string>}
//!
//! ask             {"id","owner","class","base","quote","price": <string>, "size": <u128 string>}
//!   class         "Basic"
//!               | {"Convertible": {"status": "PendingIssuerApproval"}}
//!               | {"Convertible": {"status": {"Ready": {"approver": <string>, "converted_base": coin}}}}
//!
//! current bid     {"base": coin, "accumulated_base","accumulated_quote","accumulated_fee": <u128 string>,
//!                  "fee": coin | null, "id","owner","price": <string>, "quote": coin}
//!
//! legacy bid      {"base": coin, "events": [event...], "fee": coin | null,
//!                  "id","owner","price": <string>, "quote": coin}
//!   event         {"action": action, "block_info": {"height": <u64 number>, "time": <u64 string>}}
//!   action        {"Fill":   {"base": coin, "fee": coin | null, "price": <string>, "quote": coin}}
//!               | {"Refund": {"fee": coin | null, "quote": coin}}
//!               | {"Reject": {"base": coin, "fee": coin | null, "quote": coin}}
//!
//! contract info   {"name","bind_name","base_denom": <string>,
//!                  "convertible_base_denoms","supported_quote_denoms","approvers","executors": [<string>...],
//!                  "ask_fee_info","bid_fee_info": {"account": <string>, "rate": <string>} | null,
//!                  "ask_required_attributes","bid_required_attributes": [<string>...],
//!                  "price_precision","size_increment": <u128 string>}
//!
//! version info    {"definition": <string>, "version": <string>}
//! ```
//!
//! Storage keys (cw-storage-plus): an `Item` lives under its namespace bytes (`contract_info`,
//! `version_info`); an entry of a `Map` with a single-component key lives under
//! `be16(len(namespace)) ++ namespace ++ key` (`\x00\x03ask<id>`, `\x00\x03bid<id>`).
//!
//! Bids of both formats share the namespace `bid`; a stored bid is classified by SHAPE:
//! an object with any `accumulated_*` member is a current-format bid, otherwise an object with an
//! `events` member is a legacy-format bid, anything else is unknown.
//!
//! Nothing in this module (outside `#[cfg(test)]`) refers to a type of the contract.  The unit
//! tests cross-check reader and writer against the real types on the unchanged tree.

#![allow(dead_code)] // the writers are used by the cross-check tests and kept as the documented inverse of the readers

use serde_json::{json, Map, Value};

pub const NS_ASK: &str = "ask";
pub const NS_BID: &str = "bid";
pub const ITEM_CONTRACT_INFO: &str = "contract_info";
pub const ITEM_VERSION_INFO: &str = "version_info";

type R<T> = Result<T, String>;

// ---------------------------------------------------------------------------
// storage keys
// ---------------------------------------------------------------------------

/// prefix of every entry of a single-key `Map` namespace: be16(len) ++ namespace
pub fn map_prefix(ns: &str) -> Vec<u8> {
    let mut k = (ns.len() as u16).to_be_bytes().to_vec();
    k.extend_from_slice(ns.as_bytes());
    k
}

/// storage key of the entry `key` of the `Map` namespace `ns`
pub fn map_key(ns: &str, key: &[u8]) -> Vec<u8> {
    let mut k = map_prefix(ns);
    k.extend_from_slice(key);
    k
}

/// storage key of an `Item`
pub fn item_key(ns: &str) -> Vec<u8> {
    ns.as_bytes().to_vec()
}

// ---------------------------------------------------------------------------
// records
// ---------------------------------------------------------------------------

#[derive(Clone, Debug, PartialEq, Eq)]
pub struct CoinRec {
    pub denom: String,
    pub amount: u128,
}

#[derive(Clone, Debug, PartialEq, Eq)]
pub enum AskClass {
    Basic,
    Pending,
    Ready { approver: String, converted_base: CoinRec },
}

#[derive(Clone, Debug, PartialEq, Eq)]
pub struct AskRec {
    pub id: String,
    pub owner: String,
    pub class: AskClass,
    pub base: String,
    pub quote: String,
    pub price: String,
    pub size: u128,
}

#[derive(Clone, Debug, PartialEq, Eq)]
pub struct BidRec {
    pub base: CoinRec,
    pub accumulated_base: u128,
    pub accumulated_quote: u128,
    pub accumulated_fee: u128,
    pub fee: Option<CoinRec>,
    pub id: String,
    pub owner: String,
    pub price: String,
    pub quote: CoinRec,
}

#[derive(Clone, Debug, PartialEq, Eq)]
pub enum ActionRec {
    Fill { base: CoinRec, fee: Option<CoinRec>, price: String, quote: CoinRec },
    Refund { fee: Option<CoinRec>, quote: CoinRec },
    Reject { base: CoinRec, fee: Option<CoinRec>, quote: CoinRec },
}

#[derive(Clone, Debug, PartialEq, Eq)]
pub struct EventRec {
    pub action: ActionRec,
    pub height: u64,
    /// nanoseconds since the epoch
    pub time: u64,
}

#[derive(Clone, Debug, PartialEq, Eq)]
pub struct LegacyBidRec {
    pub base: CoinRec,
    pub events: Vec<EventRec>,
    pub fee: Option<CoinRec>,
    pub id: String,
    pub owner: String,
    pub price: String,
    pub quote: CoinRec,
}

#[derive(Clone, Debug, PartialEq, Eq)]
pub struct FeeRec {
    pub account: String,
    pub rate: String,
}

#[derive(Clone, Debug, PartialEq, Eq)]
pub struct ConfigRec {
    pub name: String,
    pub bind_name: String,
    pub base_denom: String,
    pub convertible_base_denoms: Vec<String>,
    pub supported_quote_denoms: Vec<String>,
    pub approvers: Vec<String>,
    pub executors: Vec<String>,
    pub ask_fee_info: Option<FeeRec>,
    pub bid_fee_info: Option<FeeRec>,
    pub ask_required_attributes: Vec<String>,
    pub bid_required_attributes: Vec<String>,
    pub price_precision: u128,
    pub size_increment: u128,
}

#[derive(Clone, Debug, PartialEq, Eq)]
pub struct VersionRec {
    pub definition: String,
    pub version: String,
}

impl AskRec {
    pub fn is_pending(&self) -> bool {
        self.class == AskClass::Pending
    }
    pub fn ready(&self) -> Option<(&str, &CoinRec)> {
        match &self.class {
            AskClass::Ready { approver, converted_base } => Some((approver.as_str(), converted_base)),
            _ => None,
        }
    }
}

impl BidRec {
    pub fn rem_base(&self) -> Option<u128> {
        self.base.amount.checked_sub(self.accumulated_base)
    }
    pub fn rem_quote(&self) -> Option<u128> {
        self.quote.amount.checked_sub(self.accumulated_quote)
    }
    pub fn rem_fee(&self) -> Option<u128> {
        match &self.fee {
            None => Some(0),
            Some(f) => f.amount.checked_sub(self.accumulated_fee),
        }
    }
}

impl LegacyBidRec {
    /// (sum base, sum quote, sum fee) over the event log; `None` on overflow of a sum.
    /// Fill and Reject count base, quote and fee; Refund counts quote and fee.
    pub fn sums(&self) -> Option<(u128, u128, u128)> {
        let (mut sb, mut sq, mut sf) = (0u128, 0u128, 0u128);
        let amt = |c: &Option<CoinRec>| c.as_ref().map(|c| c.amount).unwrap_or(0);
        for e in &self.events {
            match &e.action {
                ActionRec::Fill { base, fee, quote, .. } | ActionRec::Reject { base, fee, quote } => {
                    sb = sb.checked_add(base.amount)?;
                    sq = sq.checked_add(quote.amount)?;
                    sf = sf.checked_add(amt(fee))?;
                }
                ActionRec::Refund { fee, quote } => {
                    sq = sq.checked_add(quote.amount)?;
                    sf = sf.checked_add(amt(fee))?;
                }
            }
        }
        Some((sb, sq, sf))
    }

    /// The current-format reading of a legacy bid: every other field as it is, accumulated
    /// amounts = the sums over its event log (`None` if a sum overflows).
    pub fn as_current(&self) -> Option<BidRec> {
        let (sb, sq, sf) = self.sums()?;
        Some(BidRec {
            base: self.base.clone(),
            accumulated_base: sb,
            accumulated_quote: sq,
            accumulated_fee: sf,
            fee: self.fee.clone(),
            id: self.id.clone(),
            owner: self.owner.clone(),
            price: self.price.clone(),
            quote: self.quote.clone(),
        })
    }

    /// as `as_current`, with saturating sums (bookkeeping of the test bed's ledger only)
    pub fn as_current_saturating(&self) -> BidRec {
        let (mut sb, mut sq, mut sf) = (0u128, 0u128, 0u128);
        let amt = |c: &Option<CoinRec>| c.as_ref().map(|c| c.amount).unwrap_or(0);
        for e in &self.events {
            match &e.action {
                ActionRec::Fill { base, fee, quote, .. } | ActionRec::Reject { base, fee, quote } => {
                    sb = sb.saturating_add(base.amount);
                    sq = sq.saturating_add(quote.amount);
                    sf = sf.saturating_add(amt(fee));
                }
                ActionRec::Refund { fee, quote } => {
                    sq = sq.saturating_add(quote.amount);
                    sf = sf.saturating_add(amt(fee));
                }
            }
        }
        BidRec {
            base: self.base.clone(),
            accumulated_base: sb,
            accumulated_quote: sq,
            accumulated_fee: sf,
            fee: self.fee.clone(),
            id: self.id.clone(),
            owner: self.owner.clone(),
            price: self.price.clone(),
            quote: self.quote.clone(),
        }
    }
}

// ---------------------------------------------------------------------------
// reader
// ---------------------------------------------------------------------------

/// the object `v` with exactly the members `fields` (none missing, none extra)
fn exact_obj<'a>(v: &'a Value, what: &str, fields: &[&str]) -> R<&'a Map<String, Value>> {
    let o = v.as_object().ok_or_else(|| format!("{what}: not an object ({v})"))?;
    for f in fields {
        if !o.contains_key(*f) {
            return Err(format!("{what}: member \"{f}\" is missing"));
        }
    }
    for k in o.keys() {
        if !fields.contains(&k.as_str()) {
            return Err(format!("{what}: unexpected member \"{k}\""));
        }
    }
    Ok(o)
}

fn string(o: &Map<String, Value>, what: &str, f: &str) -> R<String> {
    match o.get(f) {
        Some(Value::String(s)) => Ok(s.clone()),
        other => Err(format!("{what}.{f}: not a string ({})", other.cloned().unwrap_or(Value::Null))),
    }
}

/// canonical decimal digits of an unsigned integer: no sign, no leading zero, no blank
fn canonical_digits(s: &str) -> bool {
    !s.is_empty() && s.bytes().all(|c| c.is_ascii_digit()) && (s == "0" || !s.starts_with('0'))
}

fn u128_of(v: Option<&Value>, what: &str) -> R<u128> {
    match v {
        Some(Value::String(s)) if canonical_digits(s) => s
            .parse::<u128>()
            .map_err(|_| format!("{what}: \"{s}\" exceeds 128 bits")),
        other => Err(format!(
            "{what}: not a string-encoded unsigned integer ({})",
            other.cloned().unwrap_or(Value::Null)
        )),
    }
}

fn u64_string_of(v: Option<&Value>, what: &str) -> R<u64> {
    match v {
        Some(Value::String(s)) if canonical_digits(s) => s
            .parse::<u64>()
            .map_err(|_| format!("{what}: \"{s}\" exceeds 64 bits")),
        other => Err(format!(
            "{what}: not a string-encoded unsigned 64-bit integer ({})",
            other.cloned().unwrap_or(Value::Null)
        )),
    }
}

fn u64_number_of(v: Option<&Value>, what: &str) -> R<u64> {
    match v {
        Some(Value::Number(n)) if n.is_u64() => Ok(n.as_u64().unwrap_or(0)),
        other => Err(format!(
            "{what}: not an unsigned 64-bit JSON number ({})",
            other.cloned().unwrap_or(Value::Null)
        )),
    }
}

fn string_list(o: &Map<String, Value>, what: &str, f: &str) -> R<Vec<String>> {
    match o.get(f) {
        Some(Value::Array(a)) => a
            .iter()
            .map(|x| match x {
                Value::String(s) => Ok(s.clone()),
                other => Err(format!("{what}.{f}: element {other} is not a string")),
            })
            .collect(),
        other => Err(format!("{what}.{f}: not a list ({})", other.cloned().unwrap_or(Value::Null))),
    }
}

pub fn read_coin(v: &Value, what: &str) -> R<CoinRec> {
    let o = exact_obj(v, what, &["denom", "amount"])?;
    Ok(CoinRec {
        denom: string(o, what, "denom")?,
        amount: u128_of(o.get("amount"), &format!("{what}.amount"))?,
    })
}

/// `null` = absent; the member itself must be there
fn read_opt_coin(v: Option<&Value>, what: &str) -> R<Option<CoinRec>> {
    match v {
        None => Err(format!("{what}: member is missing")),
        Some(Value::Null) => Ok(None),
        Some(c) => read_coin(c, what).map(Some),
    }
}

fn read_class(v: &Value) -> R<AskClass> {
    if v == &json!("Basic") {
        return Ok(AskClass::Basic);
    }
    let o = exact_obj(v, "ask.class", &["Convertible"])?;
    let c = exact_obj(&o["Convertible"], "ask.class.Convertible", &["status"])?;
    let status = &c["status"];
    if status == &json!("PendingIssuerApproval") {
        return Ok(AskClass::Pending);
    }
    let s = exact_obj(status, "ask.class.Convertible.status", &["Ready"])?;
    let r = exact_obj(&s["Ready"], "ask.class.Convertible.status.Ready", &["approver", "converted_base"])?;
    Ok(AskClass::Ready {
        approver: string(r, "ask.class.Convertible.status.Ready", "approver")?,
        converted_base: read_coin(&r["converted_base"], "ask.class.Convertible.status.Ready.converted_base")?,
    })
}

pub fn read_ask(v: &Value) -> R<AskRec> {
    let o = exact_obj(v, "ask", &["id", "owner", "class", "base", "quote", "price", "size"])?;
    Ok(AskRec {
        id: string(o, "ask", "id")?,
        owner: string(o, "ask", "owner")?,
        class: read_class(&o["class"])?,
        base: string(o, "ask", "base")?,
        quote: string(o, "ask", "quote")?,
        price: string(o, "ask", "price")?,
        size: u128_of(o.get("size"), "ask.size")?,
    })
}

pub fn read_bid(v: &Value) -> R<BidRec> {
    let o = exact_obj(
        v,
        "bid",
        &["base", "accumulated_base", "accumulated_quote", "accumulated_fee", "fee", "id", "owner", "price", "quote"],
    )?;
    Ok(BidRec {
        base: read_coin(&o["base"], "bid.base")?,
        accumulated_base: u128_of(o.get("accumulated_base"), "bid.accumulated_base")?,
        accumulated_quote: u128_of(o.get("accumulated_quote"), "bid.accumulated_quote")?,
        accumulated_fee: u128_of(o.get("accumulated_fee"), "bid.accumulated_fee")?,
        fee: read_opt_coin(o.get("fee"), "bid.fee")?,
        id: string(o, "bid", "id")?,
        owner: string(o, "bid", "owner")?,
        price: string(o, "bid", "price")?,
        quote: read_coin(&o["quote"], "bid.quote")?,
    })
}

fn read_action(v: &Value) -> R<ActionRec> {
    let o = v.as_object().ok_or_else(|| format!("event.action: not an object ({v})"))?;
    if o.len() != 1 {
        return Err(format!("event.action: expected exactly one of Fill / Refund / Reject ({v})"));
    }
    let (kind, body) = o.iter().next().ok_or("event.action: empty")?;
    match kind.as_str() {
        "Fill" => {
            let b = exact_obj(body, "event.action.Fill", &["base", "fee", "price", "quote"])?;
            Ok(ActionRec::Fill {
                base: read_coin(&b["base"], "event.action.Fill.base")?,
                fee: read_opt_coin(b.get("fee"), "event.action.Fill.fee")?,
                price: string(b, "event.action.Fill", "price")?,
                quote: read_coin(&b["quote"], "event.action.Fill.quote")?,
            })
        }
        "Refund" => {
            let b = exact_obj(body, "event.action.Refund", &["fee", "quote"])?;
            Ok(ActionRec::Refund {
                fee: read_opt_coin(b.get("fee"), "event.action.Refund.fee")?,
                quote: read_coin(&b["quote"], "event.action.Refund.quote")?,
            })
        }
        "Reject" => {
            let b = exact_obj(body, "event.action.Reject", &["base", "fee", "quote"])?;
            Ok(ActionRec::Reject {
                base: read_coin(&b["base"], "event.action.Reject.base")?,
                fee: read_opt_coin(b.get("fee"), "event.action.Reject.fee")?,
                quote: read_coin(&b["quote"], "event.action.Reject.quote")?,
            })
        }
        other => Err(format!("event.action: unknown kind \"{other}\" (the released contracts wrote Fill / Refund / Reject)")),
    }
}

fn read_event(v: &Value) -> R<EventRec> {
    let o = exact_obj(v, "event", &["action", "block_info"])?;
    let b = exact_obj(&o["block_info"], "event.block_info", &["height", "time"])?;
    Ok(EventRec {
        action: read_action(&o["action"])?,
        height: u64_number_of(b.get("height"), "event.block_info.height")?,
        time: u64_string_of(b.get("time"), "event.block_info.time")?,
    })
}

pub fn read_legacy_bid(v: &Value) -> R<LegacyBidRec> {
    let o = exact_obj(v, "legacy bid", &["base", "events", "fee", "id", "owner", "price", "quote"])?;
    let events = match &o["events"] {
        Value::Array(a) => a.iter().map(read_event).collect::<R<Vec<_>>>()?,
        other => return Err(format!("legacy bid.events: not a list ({other})")),
    };
    Ok(LegacyBidRec {
        base: read_coin(&o["base"], "legacy bid.base")?,
        events,
        fee: read_opt_coin(o.get("fee"), "legacy bid.fee")?,
        id: string(o, "legacy bid", "id")?,
        owner: string(o, "legacy bid", "owner")?,
        price: string(o, "legacy bid", "price")?,
        quote: read_coin(&o["quote"], "legacy bid.quote")?,
    })
}

fn read_opt_fee(v: Option<&Value>, what: &str) -> R<Option<FeeRec>> {
    match v {
        None => Err(format!("{what}: member is missing")),
        Some(Value::Null) => Ok(None),
        Some(f) => {
            let o = exact_obj(f, what, &["account", "rate"])?;
            Ok(Some(FeeRec {
                account: string(o, what, "account")?,
                rate: string(o, what, "rate")?,
            }))
        }
    }
}

pub const CONFIG_FIELDS: [&str; 13] = [
    "name",
    "bind_name",
    "base_denom",
    "convertible_base_denoms",
    "supported_quote_denoms",
    "approvers",
    "executors",
    "ask_fee_info",
    "bid_fee_info",
    "ask_required_attributes",
    "bid_required_attributes",
    "price_precision",
    "size_increment",
];

pub fn read_config(v: &Value) -> R<ConfigRec> {
    let w = "contract_info";
    let o = exact_obj(v, w, &CONFIG_FIELDS)?;
    Ok(ConfigRec {
        name: string(o, w, "name")?,
        bind_name: string(o, w, "bind_name")?,
        base_denom: string(o, w, "base_denom")?,
        convertible_base_denoms: string_list(o, w, "convertible_base_denoms")?,
        supported_quote_denoms: string_list(o, w, "supported_quote_denoms")?,
        approvers: string_list(o, w, "approvers")?,
        executors: string_list(o, w, "executors")?,
        ask_fee_info: read_opt_fee(o.get("ask_fee_info"), "contract_info.ask_fee_info")?,
        bid_fee_info: read_opt_fee(o.get("bid_fee_info"), "contract_info.bid_fee_info")?,
        ask_required_attributes: string_list(o, w, "ask_required_attributes")?,
        bid_required_attributes: string_list(o, w, "bid_required_attributes")?,
        price_precision: u128_of(o.get("price_precision"), "contract_info.price_precision")?,
        size_increment: u128_of(o.get("size_increment"), "contract_info.size_increment")?,
    })
}

pub fn read_version(v: &Value) -> R<VersionRec> {
    let o = exact_obj(v, "version_info", &["definition", "version"])?;
    Ok(VersionRec {
        definition: string(o, "version_info", "definition")?,
        version: string(o, "version_info", "version")?,
    })
}

// ---- over stored bytes ----------------------------------------------------

pub fn value_of(bytes: &[u8]) -> R<Value> {
    serde_json::from_slice::<Value>(bytes).map_err(|e| format!("not JSON: {e}"))
}

pub fn ask_of(bytes: &[u8]) -> R<AskRec> {
    read_ask(&value_of(bytes)?)
}

pub fn config_of(bytes: &[u8]) -> R<ConfigRec> {
    read_config(&value_of(bytes)?)
}

pub fn version_of(bytes: &[u8]) -> R<VersionRec> {
    read_version(&value_of(bytes)?)
}

#[derive(Clone, Copy, Debug, PartialEq, Eq)]
pub enum BidShape {
    Current,
    Legacy,
    Unknown,
}

/// Classification by shape only (which members are there), before any field is read.
pub fn bid_shape(v: &Value) -> BidShape {
    match v.as_object() {
        Some(o) if o.keys().any(|k| k.starts_with("accumulated_")) => BidShape::Current,
        Some(o) if o.contains_key("events") => BidShape::Legacy,
        _ => BidShape::Unknown,
    }
}

#[derive(Clone, Debug, PartialEq, Eq)]
pub enum StoredBid {
    /// a record in the golden current format
    Current(BidRec),
    /// a record in the golden legacy (event log) format
    Legacy(LegacyBidRec),
    /// of a known shape but not field-for-field golden, or of no known shape
    Malformed { shape: BidShape, why: String },
}

pub fn classify_bid_value(v: &Value) -> StoredBid {
    let shape = bid_shape(v);
    match shape {
        BidShape::Current => match read_bid(v) {
            Ok(b) => StoredBid::Current(b),
            Err(why) => StoredBid::Malformed { shape, why },
        },
        BidShape::Legacy => match read_legacy_bid(v) {
            Ok(b) => StoredBid::Legacy(b),
            Err(why) => StoredBid::Malformed { shape, why },
        },
        BidShape::Unknown => StoredBid::Malformed {
            shape,
            why: "neither accumulated_* nor events".to_string(),
        },
    }
}

pub fn classify_bid(bytes: &[u8]) -> StoredBid {
    match value_of(bytes) {
        Ok(v) => classify_bid_value(&v),
        Err(why) => StoredBid::Malformed { shape: BidShape::Unknown, why },
    }
}

/// the golden current-format bid in `bytes`, if that is what they hold
pub fn current_bid_of(bytes: &[u8]) -> Option<BidRec> {
    match classify_bid(bytes) {
        StoredBid::Current(b) => Some(b),
        _ => None,
    }
}

// ---------------------------------------------------------------------------
// writer
// ---------------------------------------------------------------------------

pub fn coin_value(c: &CoinRec) -> Value {
    json!({"denom": c.denom, "amount": c.amount.to_string()})
}

fn opt_coin_value(c: &Option<CoinRec>) -> Value {
    c.as_ref().map(coin_value).unwrap_or(Value::Null)
}

pub fn class_value(c: &AskClass) -> Value {
    match c {
        AskClass::Basic => json!("Basic"),
        AskClass::Pending => json!({"Convertible": {"status": "PendingIssuerApproval"}}),
        AskClass::Ready { approver, converted_base } => json!({"Convertible": {"status": {"Ready": {
            "approver": approver, "converted_base": coin_value(converted_base)
        }}}}),
    }
}

pub fn ask_value(a: &AskRec) -> Value {
    json!({
        "id": a.id, "owner": a.owner, "class": class_value(&a.class), "base": a.base,
        "quote": a.quote, "price": a.price, "size": a.size.to_string(),
    })
}

pub fn bid_value(b: &BidRec) -> Value {
    json!({
        "base": coin_value(&b.base),
        "accumulated_base": b.accumulated_base.to_string(),
        "accumulated_quote": b.accumulated_quote.to_string(),
        "accumulated_fee": b.accumulated_fee.to_string(),
        "fee": opt_coin_value(&b.fee),
        "id": b.id, "owner": b.owner, "price": b.price,
        "quote": coin_value(&b.quote),
    })
}

fn action_value(a: &ActionRec) -> Value {
    match a {
        ActionRec::Fill { base, fee, price, quote } => json!({"Fill": {
            "base": coin_value(base), "fee": opt_coin_value(fee), "price": price, "quote": coin_value(quote)
        }}),
        ActionRec::Refund { fee, quote } => json!({"Refund": {
            "fee": opt_coin_value(fee), "quote": coin_value(quote)
        }}),
        ActionRec::Reject { base, fee, quote } => json!({"Reject": {
            "base": coin_value(base), "fee": opt_coin_value(fee), "quote": coin_value(quote)
        }}),
    }
}

pub fn legacy_bid_value(b: &LegacyBidRec) -> Value {
    let events: Vec<Value> = b
        .events
        .iter()
        .map(|e| json!({
            "action": action_value(&e.action),
            "block_info": {"height": e.height, "time": e.time.to_string()},
        }))
        .collect();
    json!({
        "base": coin_value(&b.base),
        "events": events,
        "fee": opt_coin_value(&b.fee),
        "id": b.id, "owner": b.owner, "price": b.price,
        "quote": coin_value(&b.quote),
    })
}

fn opt_fee_value(f: &Option<FeeRec>) -> Value {
    match f {
        Some(f) => json!({"account": f.account, "rate": f.rate}),
        None => Value::Null,
    }
}

pub fn config_value(c: &ConfigRec) -> Value {
    json!({
        "name": c.name, "bind_name": c.bind_name, "base_denom": c.base_denom,
        "convertible_base_denoms": c.convertible_base_denoms,
        "supported_quote_denoms": c.supported_quote_denoms,
        "approvers": c.approvers, "executors": c.executors,
        "ask_fee_info": opt_fee_value(&c.ask_fee_info),
        "bid_fee_info": opt_fee_value(&c.bid_fee_info),
        "ask_required_attributes": c.ask_required_attributes,
        "bid_required_attributes": c.bid_required_attributes,
        "price_precision": c.price_precision.to_string(),
        "size_increment": c.size_increment.to_string(),
    })
}

pub fn version_value(v: &VersionRec) -> Value {
    json!({"definition": v.definition, "version": v.version})
}

/// the bytes a record is stored as by the test bed (compact JSON; key order is irrelevant)
pub fn bytes_of(v: &Value) -> Vec<u8> {
    serde_json::to_vec(v).unwrap_or_default()
}

// ---------------------------------------------------------------------------
// cross-check against the real types (unchanged tree): done once, then the shapes stand alone
// ---------------------------------------------------------------------------

#[cfg(test)]
#[allow(deprecated)]
mod tests {
    use super::*;
    use crate::search::Rng;
    use ats_smart_contract::ask_order::{AskOrderClass, AskOrderStatus, AskOrderV1, ASKS_V1};
    use ats_smart_contract::bid_order::{BidOrderV2, BidOrderV3, BIDS_V2, BIDS_V3};
    use ats_smart_contract::common::{Action, BlockInfo, Event, FeeInfo};
    use ats_smart_contract::contract_info::{get_contract_info, set_contract_info, ContractInfoV3};
    use ats_smart_contract::version_info::{get_version_info, set_version_info, VersionInfoV1};
    use cosmwasm_std::testing::MockStorage;
    use cosmwasm_std::{from_slice, to_vec, Addr, Coin, Order, Storage, Timestamp, Uint128};

    // ---- generators of values of MY record types ------------------------------------------

    fn text(rng: &mut Rng) -> String {
        const POOL: [&str; 14] = [
            "", "a", "usd", "base_1", "tp1qxyz", "0.25", "x y", "quo\"te", "back\\slash", "tab\there",
            "new\nline", "üñí", "日本", "{\"a\":1}",
        ];
        if rng.chance(70) {
            rng.pick(&POOL).to_string()
        } else {
            let n = rng.below(12) as usize;
            (0..n).map(|_| (b'a' + rng.below(26) as u8) as char).collect()
        }
    }

    fn amount(rng: &mut Rng) -> u128 {
        match rng.below(8) {
            0 => 0,
            1 => u128::MAX,
            2 => (1u128 << 96) + rng.below(1000) as u128,
            3 => 1,
            _ => rng.range(0, 10_000_000),
        }
    }

    fn coin(rng: &mut Rng) -> CoinRec {
        CoinRec { denom: text(rng), amount: amount(rng) }
    }

    fn opt_coin(rng: &mut Rng) -> Option<CoinRec> {
        if rng.chance(50) { Some(coin(rng)) } else { None }
    }

    fn gen_ask(rng: &mut Rng) -> AskRec {
        let class = match rng.below(3) {
            0 => AskClass::Basic,
            1 => AskClass::Pending,
            _ => AskClass::Ready { approver: text(rng), converted_base: coin(rng) },
        };
        AskRec {
            id: text(rng),
            owner: text(rng),
            class,
            base: text(rng),
            quote: text(rng),
            price: text(rng),
            size: amount(rng),
        }
    }

    fn gen_bid(rng: &mut Rng) -> BidRec {
        BidRec {
            base: coin(rng),
            accumulated_base: amount(rng),
            accumulated_quote: amount(rng),
            accumulated_fee: amount(rng),
            fee: opt_coin(rng),
            id: text(rng),
            owner: text(rng),
            price: text(rng),
            quote: coin(rng),
        }
    }

    fn gen_legacy(rng: &mut Rng) -> LegacyBidRec {
        let n = rng.below(5);
        let events = (0..n)
            .map(|_| EventRec {
                action: match rng.below(3) {
                    0 => ActionRec::Fill { base: coin(rng), fee: opt_coin(rng), price: text(rng), quote: coin(rng) },
                    1 => ActionRec::Refund { fee: opt_coin(rng), quote: coin(rng) },
                    _ => ActionRec::Reject { base: coin(rng), fee: opt_coin(rng), quote: coin(rng) },
                },
                height: match rng.below(4) {
                    0 => 0,
                    1 => u64::MAX,
                    _ => rng.below(1 << 40),
                },
                time: match rng.below(4) {
                    0 => 0,
                    1 => u64::MAX,
                    _ => 1_571_797_419_879_305_533 + rng.below(1 << 30),
                },
            })
            .collect();
        LegacyBidRec {
            base: coin(rng),
            events,
            fee: opt_coin(rng),
            id: text(rng),
            owner: text(rng),
            price: text(rng),
            quote: coin(rng),
        }
    }

    fn list(rng: &mut Rng) -> Vec<String> {
        let n = rng.below(4);
        (0..n).map(|_| text(rng)).collect()
    }

    fn gen_config(rng: &mut Rng) -> ConfigRec {
        let fee = |rng: &mut Rng| {
            if rng.chance(50) {
                Some(FeeRec { account: text(rng), rate: text(rng) })
            } else {
                None
            }
        };
        ConfigRec {
            name: text(rng),
            bind_name: text(rng),
            base_denom: text(rng),
            convertible_base_denoms: list(rng),
            supported_quote_denoms: list(rng),
            approvers: list(rng),
            executors: list(rng),
            ask_fee_info: fee(rng),
            bid_fee_info: fee(rng),
            ask_required_attributes: list(rng),
            bid_required_attributes: list(rng),
            price_precision: amount(rng),
            size_increment: amount(rng),
        }
    }

    // ---- conversions MY record -> REAL type (field by field, test only) --------------------

    fn real_coin(c: &CoinRec) -> Coin {
        Coin { denom: c.denom.clone(), amount: Uint128::new(c.amount) }
    }

    fn real_ask(a: &AskRec) -> AskOrderV1 {
        AskOrderV1 {
            id: a.id.clone(),
            owner: Addr::unchecked(a.owner.clone()),
            class: match &a.class {
                AskClass::Basic => AskOrderClass::Basic,
                AskClass::Pending => AskOrderClass::Convertible { status: AskOrderStatus::PendingIssuerApproval },
                AskClass::Ready { approver, converted_base } => AskOrderClass::Convertible {
                    status: AskOrderStatus::Ready {
                        approver: Addr::unchecked(approver.clone()),
                        converted_base: real_coin(converted_base),
                    },
                },
            },
            base: a.base.clone(),
            quote: a.quote.clone(),
            price: a.price.clone(),
            size: Uint128::new(a.size),
        }
    }

    fn real_bid(b: &BidRec) -> BidOrderV3 {
        BidOrderV3 {
            base: real_coin(&b.base),
            accumulated_base: Uint128::new(b.accumulated_base),
            accumulated_quote: Uint128::new(b.accumulated_quote),
            accumulated_fee: Uint128::new(b.accumulated_fee),
            fee: b.fee.as_ref().map(real_coin),
            id: b.id.clone(),
            owner: Addr::unchecked(b.owner.clone()),
            price: b.price.clone(),
            quote: real_coin(&b.quote),
        }
    }

    fn real_legacy(b: &LegacyBidRec) -> BidOrderV2 {
        BidOrderV2 {
            base: real_coin(&b.base),
            events: b
                .events
                .iter()
                .map(|e| Event {
                    action: match &e.action {
                        ActionRec::Fill { base, fee, price, quote } => Action::Fill {
                            base: real_coin(base),
                            fee: fee.as_ref().map(real_coin),
                            price: price.clone(),
                            quote: real_coin(quote),
                        },
                        ActionRec::Refund { fee, quote } => Action::Refund {
                            fee: fee.as_ref().map(real_coin),
                            quote: real_coin(quote),
                        },
                        ActionRec::Reject { base, fee, quote } => Action::Reject {
                            base: real_coin(base),
                            fee: fee.as_ref().map(real_coin),
                            quote: real_coin(quote),
                        },
                    },
                    block_info: BlockInfo { height: e.height, time: Timestamp::from_nanos(e.time) },
                })
                .collect(),
            fee: b.fee.as_ref().map(real_coin),
            id: b.id.clone(),
            owner: Addr::unchecked(b.owner.clone()),
            price: b.price.clone(),
            quote: real_coin(&b.quote),
        }
    }

    fn real_config(c: &ConfigRec) -> ContractInfoV3 {
        let fee = |f: &Option<FeeRec>| {
            f.as_ref().map(|f| FeeInfo { account: Addr::unchecked(f.account.clone()), rate: f.rate.clone() })
        };
        let addrs = |l: &[String]| l.iter().map(|a| Addr::unchecked(a.clone())).collect::<Vec<_>>();
        ContractInfoV3 {
            name: c.name.clone(),
            bind_name: c.bind_name.clone(),
            base_denom: c.base_denom.clone(),
            convertible_base_denoms: c.convertible_base_denoms.clone(),
            supported_quote_denoms: c.supported_quote_denoms.clone(),
            approvers: addrs(&c.approvers),
            executors: addrs(&c.executors),
            ask_fee_info: fee(&c.ask_fee_info),
            bid_fee_info: fee(&c.bid_fee_info),
            ask_required_attributes: c.ask_required_attributes.clone(),
            bid_required_attributes: c.bid_required_attributes.clone(),
            price_precision: Uint128::new(c.price_precision),
            size_increment: Uint128::new(c.size_increment),
        }
    }

    /// One record, three agreements:
    ///  1. what the real type serialises to (the chain's serialiser) READS as my record,
    ///  2. what my writer produces equals, as JSON, what the real type serialises to,
    ///  3. my writer's bytes deserialise (the chain's deserialiser) to the real value.
    fn agree<T, M>(real: &T, mine: &M, read: fn(&Value) -> R<M>, write: fn(&M) -> Value)
    where
        T: serde::Serialize + serde::de::DeserializeOwned + PartialEq + std::fmt::Debug,
        M: PartialEq + std::fmt::Debug,
    {
        let chain_bytes = to_vec(real).expect("real type serialises");
        let chain_json = value_of(&chain_bytes).expect("chain bytes are JSON");
        assert_eq!(&read(&chain_json).expect("golden shape reads what the real type wrote"), mine);
        assert_eq!(write(mine), chain_json, "writer output differs from what the real type wrote");
        let back: T = from_slice(&bytes_of(&write(mine))).expect("real type reads what the writer wrote");
        assert_eq!(&back, real);
    }

    #[test]
    fn golden_shapes_agree_with_the_real_types_on_generated_values() {
        let mut rng = Rng::new(20260101);
        for _ in 0..3000 {
            let a = gen_ask(&mut rng);
            agree(&real_ask(&a), &a, read_ask, ask_value);
            let b = gen_bid(&mut rng);
            agree(&real_bid(&b), &b, read_bid, bid_value);
            let l = gen_legacy(&mut rng);
            agree(&real_legacy(&l), &l, read_legacy_bid, legacy_bid_value);
            let c = gen_config(&mut rng);
            agree(&real_config(&c), &c, read_config, config_value);
            let v = VersionRec { definition: text(&mut rng), version: text(&mut rng) };
            agree(
                &VersionInfoV1 { definition: v.definition.clone(), version: v.version.clone() },
                &v,
                read_version,
                version_value,
            );
            // classification by shape agrees with what the records are
            assert_eq!(classify_bid_value(&bid_value(&b)), StoredBid::Current(b.clone()));
            assert_eq!(classify_bid_value(&legacy_bid_value(&l)), StoredBid::Legacy(l.clone()));
            // the real current type does not read a legacy record and vice versa (that is what
            // keeps the two formats apart in the shared namespace)
            assert!(from_slice::<BidOrderV3>(&bytes_of(&legacy_bid_value(&l))).is_err());
            assert!(from_slice::<BidOrderV2>(&bytes_of(&bid_value(&b))).is_err());
        }
    }

    #[test]
    fn event_sums_agree_with_the_real_conversion() {
        let mut rng = Rng::new(77);
        for _ in 0..3000 {
            let mut l = gen_legacy(&mut rng);
            // keep the sums within 128 bits (the real conversion aborts on overflow)
            let small = |c: &mut CoinRec| c.amount %= 1 << 100;
            for e in &mut l.events {
                match &mut e.action {
                    ActionRec::Fill { base, fee, quote, .. } | ActionRec::Reject { base, fee, quote } => {
                        small(base);
                        small(quote);
                        if let Some(f) = fee {
                            small(f);
                        }
                    }
                    ActionRec::Refund { fee, quote } => {
                        small(quote);
                        if let Some(f) = fee {
                            small(f);
                        }
                    }
                }
            }
            let converted: BidOrderV3 = real_legacy(&l).into();
            let mine = l.as_current().expect("sums within range");
            assert_eq!(real_bid(&mine), converted);
        }
    }

    #[test]
    fn storage_keys_agree_with_cw_storage_plus() {
        let mut st = MockStorage::new();
        let mut rng = Rng::new(5);
        let a = gen_ask(&mut rng);
        let b = gen_bid(&mut rng);
        let l = gen_legacy(&mut rng);
        let c = gen_config(&mut rng);
        ASKS_V1.save(&mut st, b"some-ask-id", &real_ask(&a)).unwrap();
        BIDS_V3.save(&mut st, b"bid-1", &real_bid(&b)).unwrap();
        BIDS_V2.save(&mut st, b"", &real_legacy(&l)).unwrap();
        set_contract_info(&mut st, &real_config(&c)).unwrap();
        set_version_info(&mut st, &VersionInfoV1 { definition: "d".into(), version: "1.2.3".into() }).unwrap();
        let mut keys: Vec<Vec<u8>> = st.range(None, None, Order::Ascending).map(|(k, _)| k).collect();
        keys.sort();
        let mut mine = vec![
            map_key(NS_ASK, b"some-ask-id"),
            map_key(NS_BID, b"bid-1"),
            map_key(NS_BID, b""),
            item_key(ITEM_CONTRACT_INFO),
            item_key(ITEM_VERSION_INFO),
        ];
        mine.sort();
        assert_eq!(keys, mine);
        assert_eq!(ask_of(&st.get(&map_key(NS_ASK, b"some-ask-id")).unwrap()).unwrap(), a);
        assert_eq!(config_of(&st.get(&item_key(ITEM_CONTRACT_INFO)).unwrap()).unwrap(), c);
        // and the other way round: raw golden bytes under my keys are what the accessors load
        let mut st2 = MockStorage::new();
        st2.set(&map_key(NS_ASK, b"k"), &bytes_of(&ask_value(&a)));
        st2.set(&map_key(NS_BID, b"k"), &bytes_of(&bid_value(&b)));
        st2.set(&map_key(NS_BID, b"l"), &bytes_of(&legacy_bid_value(&l)));
        st2.set(&item_key(ITEM_CONTRACT_INFO), &bytes_of(&config_value(&c)));
        st2.set(&item_key(ITEM_VERSION_INFO), &bytes_of(&version_value(&VersionRec { definition: "d".into(), version: "v".into() })));
        assert_eq!(ASKS_V1.load(&st2, b"k").unwrap(), real_ask(&a));
        assert_eq!(BIDS_V3.load(&st2, b"k").unwrap(), real_bid(&b));
        assert_eq!(BIDS_V2.load(&st2, b"l").unwrap(), real_legacy(&l));
        assert_eq!(get_contract_info(&st2).unwrap(), real_config(&c));
        assert_eq!(get_version_info(&st2).unwrap().version, "v");
    }

    #[test]
    fn reader_is_exact() {
        let good = json!({"denom": "usd", "amount": "12"});
        assert!(read_coin(&good, "c").is_ok());
        for bad in [
            json!({"denom": "usd", "amount": 12}),
            json!({"denom": "usd", "amount": "012"}),
            json!({"denom": "usd", "amount": "+12"}),
            json!({"denom": "usd", "amount": "-1"}),
            json!({"denom": "usd", "amount": ""}),
            json!({"denom": "usd", "amount": "1 "}),
            json!({"denom": "usd", "amount": "340282366920938463463374607431768211456"}),
            json!({"denom": "usd"}),
            json!({"denom": "usd", "amount": "1", "extra": 1}),
            json!({"denom": 1, "amount": "1"}),
            json!("usd"),
        ] {
            assert!(read_coin(&bad, "c").is_err(), "{bad}");
        }
        let ask = json!({"id": "i", "owner": "o", "class": "Basic", "base": "b", "quote": "q", "price": "1", "size": "5"});
        assert!(read_ask(&ask).is_ok());
        let mut a2 = ask.clone();
        a2["class"] = json!("basic");
        assert!(read_ask(&a2).is_err());
        a2["class"] = json!({"Convertible": {"status": "Ready"}});
        assert!(read_ask(&a2).is_err());
        a2["class"] = json!({"convertible": {"status": "PendingIssuerApproval"}});
        assert!(read_ask(&a2).is_err());
        let mut a3 = ask.clone();
        a3.as_object_mut().unwrap().remove("size");
        assert!(read_ask(&a3).is_err());
        // a legacy bid whose action is spelled in another style is not golden
        let ev = |kind: &str| json!({"base": {"denom": "b", "amount": "1"}, "events": [
            {"action": {kind: {"fee": null, "quote": {"denom": "q", "amount": "1"}}}, "block_info": {"height": 1, "time": "2"}}
        ], "fee": null, "id": "i", "owner": "o", "price": "1", "quote": {"denom": "q", "amount": "1"}});
        assert!(matches!(classify_bid_value(&ev("Refund")), StoredBid::Legacy(_)));
        assert!(matches!(classify_bid_value(&ev("refund")), StoredBid::Malformed { shape: BidShape::Legacy, .. }));
        // absent optional member instead of null: not golden
        let mut noevfee = ev("Refund");
        noevfee.as_object_mut().unwrap().remove("fee");
        assert!(matches!(classify_bid_value(&noevfee), StoredBid::Malformed { shape: BidShape::Legacy, .. }));
        // shape decides the class: accumulated_* wins over events
        let mut both = ev("Refund");
        both["accumulated_base"] = json!("0");
        assert!(matches!(classify_bid_value(&both), StoredBid::Malformed { shape: BidShape::Current, .. }));
        assert!(matches!(classify_bid_value(&json!({"x": 1})), StoredBid::Malformed { shape: BidShape::Unknown, .. }));
    }
}
