//! Step-level property oracles: independent re-statements of C05, C12, C14+C15, C07, C03, C02,
//! C16, C17 and C13, judged on (state before, request, outcome, emitted messages / attributes,
//! state after).  Expected values are computed here from the stored JSON and the request with
//! exact integer arithmetic (`crate::exact`).  Stored records are classified and read with the
//! hand-written reader of `crate::format` (golden shapes, independent of the contract's serde
//! derives); of the contract's types only the request messages are used, and none of its functions
//! is called to obtain an expected value.
//!
//!  authorization          C05      a successful execute step was sent by someone entitled to it
//!  config_change          C12      what modify_contract may change; nothing else changes the configuration
//!  migration              C14,C15  version gate, book preserved, legacy bids converted, idempotent
//!  admission              C07      create_* accepted <=> every admission condition met
//!  match_eligibility      C03      execute_match accepted <=> eligible (with fees payable)
//!  settlement             C02      every party receives exactly its due, remaining amounts fall accordingly
//!  queries                C16      read-only, faithful
//!  attributes             C17      response attributes report what was settled
//!  instantiate_coherence  C13      instantiate accepted <=> coherent configuration, stored as requested
//!  storage_format         C14,C16,C13  every record the contract writes is in the golden shape of `format.rs`,
//!                                  every golden record in storage is read back by the contract as what it says

use crate::exact::{
    canonical_uuid, fee_of, parse_dec, parse_semver, pow10, prorata, valid_addr, Dec,
    LIMIT96,
};
use crate::oracles::{OracleResult, StepCtx};
use crate::run::{CallResult, Msg, Request, Snap, World, ASK_PREFIX, BID_PREFIX, CONTRACT_INFO_KEY, VERSION_INFO_KEY};
use crate::format::{
    self, AskClass, AskRec, BidRec, BidShape, CoinRec, ConfigRec, FeeRec, StoredBid,
};
use ats_smart_contract::msg::{ExecuteMsg, InstantiateMsg, MigrateMsg, QueryMsg};
use ats_smart_contract::version_info::{CRATE_NAME, PACKAGE_VERSION};
use cosmwasm_std::testing::MockStorage;
use cosmwasm_std::{Coin, Order, Storage, Uint128, Uint256};
use serde_json::{json, Value};
use std::cmp::Ordering;
use std::collections::{BTreeMap, BTreeSet};

type StepOracle = fn(&World, &StepCtx) -> Option<OracleResult>;

pub const STEP_ORACLES: [(&str, StepOracle); 10] = [
    ("authorization", authorization),
    ("config_change", config_change),
    ("migration", migration),
    ("admission", admission),
    ("match_eligibility", match_eligibility),
    ("settlement", settlement),
    ("queries", queries),
    ("attributes", attributes),
    ("instantiate_coherence", instantiate_coherence),
    ("storage_format", storage_format),
];

fn verdict(failures: Vec<String>, ok: impl Into<String>) -> Option<OracleResult> {
    Some(OracleResult::from_failures(failures, ok.into()))
}

fn addr_strs(v: &[String]) -> Vec<String> {
    v.to_vec()
}

fn exec_msg<'a>(ctx: &'a StepCtx) -> Option<&'a ExecuteMsg> {
    match ctx.request {
        Request::Execute(m) if ctx.kind == "execute" => Some(m),
        _ => None,
    }
}

fn json_of(bytes: &[u8]) -> Option<Value> {
    serde_json::from_slice(bytes).ok()
}

fn is_pending(a: &AskRec) -> bool {
    a.is_pending()
}

fn ready(a: &AskRec) -> Option<(&str, &CoinRec)> {
    a.ready()
}

/// the coin of a request message as a record of `format.rs`
fn coin_rec(c: &Coin) -> CoinRec {
    CoinRec {
        denom: c.denom.clone(),
        amount: c.amount.u128(),
    }
}

fn restricted(world: &World, denom: &str) -> bool {
    world.marker_type(denom) == "restricted"
}

fn has_all_attributes(world: &World, account: &str, required: &[String]) -> bool {
    let held = world.attributes.get(account);
    required
        .iter()
        .all(|r| held.map(|h| h.iter().any(|x| x == r)).unwrap_or(false))
}

fn small(x: Uint256) -> bool {
    x < Uint256::from(LIMIT96)
}

// ---------------------------------------------------------------------------
// authorization (C05)
// ---------------------------------------------------------------------------

fn authorization(_world: &World, ctx: &StepCtx) -> Option<OracleResult> {
    if !ctx.ok {
        return None;
    }
    let msg = exec_msg(ctx)?;
    let sender = ctx.sender?;
    let ci = ctx.pre.contract_info();
    let executor = ci
        .as_ref()
        .map(|c| c.executors.iter().any(|a| a.as_str() == sender))
        .unwrap_or(false);
    let approver = ci
        .as_ref()
        .map(|c| c.approvers.iter().any(|a| a.as_str() == sender))
        .unwrap_or(false);
    let mut failures = vec![];
    let need_executor = |what: &str, failures: &mut Vec<String>| {
        if !executor {
            failures.push(format!(
                "{what} accepted from {sender}, who was not a configured executor (executors before the step: {:?})",
                ci.as_ref().map(|c| addr_strs(&c.executors)).unwrap_or_default()
            ));
        }
    };
    let role = match msg {
        ExecuteMsg::CancelAsk { id } => {
            match ctx.pre.ask(id) {
                Some(a) if a.owner == sender => {}
                Some(a) => failures.push(format!(
                    "cancel_ask {id} accepted from {sender}, but the ask's owner is {}",
                    a.owner
                )),
                None => failures.push(format!(
                    "cancel_ask {id} accepted from {sender}, but no such ask was on the book"
                )),
            }
            "owner"
        }
        ExecuteMsg::CancelBid { id } => {
            match ctx.pre.bid(id) {
                Some(b) if b.owner == sender => {}
                Some(b) => failures.push(format!(
                    "cancel_bid {id} accepted from {sender}, but the bid's owner is {}",
                    b.owner
                )),
                None => failures.push(format!(
                    "cancel_bid {id} accepted from {sender}, but no such bid was on the book"
                )),
            }
            "owner"
        }
        ExecuteMsg::ExpireAsk { .. } => {
            need_executor("expire_ask", &mut failures);
            "executor"
        }
        ExecuteMsg::ExpireBid { .. } => {
            need_executor("expire_bid", &mut failures);
            "executor"
        }
        ExecuteMsg::RejectAsk { .. } => {
            need_executor("reject_ask", &mut failures);
            "executor"
        }
        ExecuteMsg::RejectBid { .. } => {
            need_executor("reject_bid", &mut failures);
            "executor"
        }
        ExecuteMsg::ExecuteMatch { .. } => {
            need_executor("execute_match", &mut failures);
            "executor"
        }
        ExecuteMsg::ModifyContract { .. } => {
            need_executor("modify_contract", &mut failures);
            "executor"
        }
        ExecuteMsg::ApproveAsk { .. } => {
            if !approver {
                failures.push(format!(
                    "approve_ask accepted from {sender}, who was not a configured approver (approvers before the step: {:?})",
                    ci.as_ref().map(|c| addr_strs(&c.approvers)).unwrap_or_default()
                ));
            }
            "approver"
        }
        ExecuteMsg::CreateAsk { .. } | ExecuteMsg::CreateBid { .. } => "anyone",
    };
    verdict(failures, format!("sender {sender} entitled ({role})"))
}

// ---------------------------------------------------------------------------
// config_change (C12)
// ---------------------------------------------------------------------------

/// The fee a request pair (account, rate) must lead to, given the fee before.
fn fee_expected(
    side: &str,
    old: &Option<FeeRec>,
    account: &Option<String>,
    rate: &Option<String>,
    failures: &mut Vec<String>,
) -> Option<(String, String)> {
    match (account, rate) {
        (Some(a), Some(r)) => {
            if a.is_empty() && r.is_empty() {
                None
            } else {
                if parse_dec(r).is_none() {
                    failures.push(format!("{side} fee rate \"{r}\" does not parse but was accepted"));
                }
                if valid_addr(a) == Some(false) {
                    failures.push(format!(
                        "{side} fee account \"{a}\" is not a valid address but was accepted"
                    ));
                }
                Some((a.clone(), r.clone()))
            }
        }
        (None, None) => old.as_ref().map(|f| (f.account.clone(), f.rate.clone())),
        _ => {
            failures.push(format!(
                "{side} fee pair half-supplied (account {account:?}, rate {rate:?}) but the request was accepted"
            ));
            old.as_ref().map(|f| (f.account.clone(), f.rate.clone()))
        }
    }
}

fn fee_pair(f: &Option<FeeRec>) -> Option<(String, String)> {
    f.as_ref().map(|f| (f.account.clone(), f.rate.clone()))
}

fn check_fee_installed(
    side: &str,
    new: &Option<FeeRec>,
    expected: Option<(String, String)>,
    failures: &mut Vec<String>,
) {
    if fee_pair(new) != expected {
        failures.push(format!(
            "{side} fee after the step is {:?}, expected {:?}",
            fee_pair(new),
            expected
        ));
    }
}

fn check_list_installed(
    what: &str,
    requested: &Option<Vec<String>>,
    old: &[String],
    new: &[String],
    is_addr: bool,
    failures: &mut Vec<String>,
) {
    match requested {
        Some(l) => {
            if new != l.as_slice() {
                failures.push(format!("{what} after the step are {new:?}, the request said {l:?}"));
            }
            if is_addr {
                if l.is_empty() {
                    failures.push(format!("{what} set to the empty list"));
                }
                for a in l {
                    if valid_addr(a) == Some(false) {
                        failures.push(format!("{what}: \"{a}\" is not a valid address but was accepted"));
                    }
                }
            }
        }
        None => {
            if new != old {
                failures.push(format!(
                    "{what} not part of the request but changed from {old:?} to {new:?}"
                ));
            }
        }
    }
}

fn market_params_same(old: &ConfigRec, new: &ConfigRec, failures: &mut Vec<String>) {
    if old.name != new.name
        || old.bind_name != new.bind_name
        || old.base_denom != new.base_denom
        || old.convertible_base_denoms != new.convertible_base_denoms
        || old.supported_quote_denoms != new.supported_quote_denoms
        || old.price_precision != new.price_precision
        || old.size_increment != new.size_increment
    {
        failures.push(
            "a market parameter (name, bind name, base / convertible / quote denominations, price precision, size increment) changed"
                .to_string(),
        );
    }
}

/// numeric value of a configured rate; Err if it does not parse
fn rate_value(f: &Option<FeeRec>) -> Result<Option<Dec>, String> {
    match f {
        None => Ok(None),
        Some(f) => parse_dec(&f.rate)
            .map(Some)
            .ok_or_else(|| format!("configured fee rate \"{}\" does not parse", f.rate)),
    }
}

fn same_rate(a: &Option<FeeRec>, b: &Option<FeeRec>) -> Result<bool, String> {
    Ok(match (rate_value(a)?, rate_value(b)?) {
        (None, None) => true,
        (Some(x), Some(y)) => x.eq_value(&y),
        _ => false,
    })
}

fn config_change(_world: &World, ctx: &StepCtx) -> Option<OracleResult> {
    if !ctx.ok {
        return None;
    }
    let msg = exec_msg(ctx)?;
    let mut failures = vec![];
    let (
        approvers,
        executors,
        ask_fee_rate,
        ask_fee_account,
        bid_fee_rate,
        bid_fee_account,
        ask_required_attributes,
        bid_required_attributes,
    ) = match msg {
        ExecuteMsg::ModifyContract {
            approvers,
            executors,
            ask_fee_rate,
            ask_fee_account,
            bid_fee_rate,
            bid_fee_account,
            ask_required_attributes,
            bid_required_attributes,
        } => (
            approvers,
            executors,
            ask_fee_rate,
            ask_fee_account,
            bid_fee_rate,
            bid_fee_account,
            ask_required_attributes,
            bid_required_attributes,
        ),
        _ => {
            // no other execute request may touch the configuration or the version record
            if ctx.pre.get(CONTRACT_INFO_KEY) != ctx.post.get(CONTRACT_INFO_KEY) {
                failures.push(format!(
                    "{} changed the stored configuration",
                    ctx.exec_kind.unwrap_or("?")
                ));
            }
            if ctx.pre.get(VERSION_INFO_KEY) != ctx.post.get(VERSION_INFO_KEY) {
                failures.push(format!(
                    "{} changed the stored version record",
                    ctx.exec_kind.unwrap_or("?")
                ));
            }
            return verdict(failures, "configuration untouched");
        }
    };
    let (old, new) = match (ctx.pre.contract_info(), ctx.post.contract_info()) {
        (Some(o), Some(n)) => (o, n),
        _ => {
            return verdict(
                vec!["configuration unreadable before or after modify_contract".to_string()],
                "",
            )
        }
    };
    // (a) field-wise effect
    market_params_same(&old, &new, &mut failures);
    check_list_installed(
        "approvers",
        approvers,
        &addr_strs(&old.approvers),
        &addr_strs(&new.approvers),
        true,
        &mut failures,
    );
    check_list_installed(
        "executors",
        executors,
        &addr_strs(&old.executors),
        &addr_strs(&new.executors),
        true,
        &mut failures,
    );
    let e = fee_expected("ask", &old.ask_fee_info, ask_fee_account, ask_fee_rate, &mut failures);
    check_fee_installed("ask", &new.ask_fee_info, e, &mut failures);
    let e = fee_expected("bid", &old.bid_fee_info, bid_fee_account, bid_fee_rate, &mut failures);
    check_fee_installed("bid", &new.bid_fee_info, e, &mut failures);
    check_list_installed(
        "ask_required_attributes",
        ask_required_attributes,
        &old.ask_required_attributes,
        &new.ask_required_attributes,
        false,
        &mut failures,
    );
    check_list_installed(
        "bid_required_attributes",
        bid_required_attributes,
        &old.bid_required_attributes,
        &new.bid_required_attributes,
        false,
        &mut failures,
    );
    // (b) terms under open orders
    let asks_open = !ctx.pre.asks().is_empty();
    let bids_open = !ctx.pre.bids().is_empty();
    if asks_open {
        match same_rate(&old.ask_fee_info, &new.ask_fee_info) {
            Ok(true) => {}
            Ok(false) => failures.push(format!(
                "ask fee rate changed from {:?} to {:?} while {} ask(s) were open",
                old.ask_fee_info.as_ref().map(|f| &f.rate),
                new.ask_fee_info.as_ref().map(|f| &f.rate),
                ctx.pre.asks().len()
            )),
            Err(e) => failures.push(e),
        }
        if old.ask_required_attributes != new.ask_required_attributes {
            failures.push("ask required attributes changed while asks were open".to_string());
        }
    }
    if bids_open {
        match same_rate(&old.bid_fee_info, &new.bid_fee_info) {
            Ok(true) => {}
            Ok(false) => failures.push(format!(
                "bid fee rate changed from {:?} to {:?} while {} bid(s) were open",
                old.bid_fee_info.as_ref().map(|f| &f.rate),
                new.bid_fee_info.as_ref().map(|f| &f.rate),
                ctx.pre.bids().len()
            )),
            Err(e) => failures.push(e),
        }
        if old.bid_required_attributes != new.bid_required_attributes {
            failures.push("bid required attributes changed while bids were open".to_string());
        }
    }
    if asks_open || bids_open {
        let kept: BTreeSet<String> = addr_strs(&new.approvers).into_iter().collect();
        for a in addr_strs(&old.approvers) {
            if !kept.contains(&a) {
                failures.push(format!("approver {a} dropped while orders were open"));
            }
        }
    }
    if new.approvers.is_empty() && !old.approvers.is_empty() {
        failures.push("approver list became empty".to_string());
    }
    if new.executors.is_empty() {
        failures.push("executor list became empty".to_string());
    }
    // (c) nothing else: book and version untouched, no funds in, no message out
    if !ctx.pre.same_except(ctx.post, &[CONTRACT_INFO_KEY]) {
        failures.push("modify_contract changed storage other than the configuration".to_string());
    }
    if !ctx.messages.is_empty() {
        failures.push(format!("modify_contract emitted {} message(s)", ctx.messages.len()));
    }
    if !ctx.funds.is_empty() {
        failures.push("modify_contract accepted attached funds".to_string());
    }
    verdict(
        failures,
        format!(
            "modify_contract conforms (asks open: {asks_open}, bids open: {bids_open})"
        ),
    )
}

// ---------------------------------------------------------------------------
// migration (C14 + C15)
// ---------------------------------------------------------------------------

/// Classification of a stored bid by the hand-written reader (shape first, then field for field).
#[derive(PartialEq)]
enum BidFormat {
    Current,
    Legacy,
    Unknown,
}

fn bid_format(bytes: &[u8]) -> BidFormat {
    match format::classify_bid(bytes) {
        StoredBid::Current(_) => BidFormat::Current,
        StoredBid::Legacy(_) => BidFormat::Legacy,
        StoredBid::Malformed { .. } => BidFormat::Unknown,
    }
}

/// (source version is a release, >= 0.16.2, < 0.19.1): the versions that stored bids with an event log
fn in_conversion_window(stored_version: Option<&str>) -> bool {
    matches!(stored_version.and_then(parse_semver), Some(v) if !v.pre && v.at_least(0, 16, 2) && !v.at_least(0, 19, 1))
}

fn storage_of(snap: &Snap) -> MockStorage {
    let mut st = MockStorage::new();
    for (k, v) in &snap.raw {
        st.set(k, v);
    }
    st
}

fn id_str(k: &[u8]) -> String {
    String::from_utf8_lossy(k).to_string()
}

fn migration(world: &World, ctx: &StepCtx) -> Option<OracleResult> {
    if !ctx.ok || ctx.kind != "migrate" {
        return None;
    }
    let msg: &MigrateMsg = match ctx.request {
        Request::Migrate(m) => m,
        _ => return None,
    };
    let mut failures = vec![];
    // C14: version gate
    let stored = ctx.pre.version().map(|v| v.version);
    let ver = stored.as_deref().and_then(parse_semver);
    match (&stored, ver) {
        (None, _) => failures.push("migrated although no version record was stored".to_string()),
        (Some(s), None) => failures.push(format!("migrated from the unreadable version \"{s}\"")),
        (Some(s), Some(v)) => {
            if v.pre || !v.at_least(0, 16, 2) {
                failures.push(format!(
                    "migrated from version {s}, which is older than the supported minimum 0.16.2"
                ));
            }
        }
    }
    let in_window = in_conversion_window(stored.as_deref());
    // C14: asks exactly as they were
    if ctx.pre.asks() != ctx.post.asks() {
        failures.push("the ask side of the book changed".to_string());
    }
    // C15 / C14: bids
    let pre_bids = ctx.pre.bids();
    let post_bids = ctx.post.bids();
    let pre_keys: BTreeSet<&[u8]> = pre_bids.iter().map(|(k, _)| *k).collect();
    let post_keys: BTreeSet<&[u8]> = post_bids.iter().map(|(k, _)| *k).collect();
    for k in pre_keys.difference(&post_keys) {
        failures.push(format!("bid {} was lost", id_str(k)));
    }
    for k in post_keys.difference(&pre_keys) {
        failures.push(format!("bid {} was invented", id_str(k)));
    }
    let (mut n_cur, mut n_legacy) = (0, 0);
    for (k, before) in &pre_bids {
        let after = match post_bids.iter().find(|(k2, _)| k2 == k) {
            Some((_, v)) => *v,
            None => continue,
        };
        let id = id_str(k);
        match bid_format(before) {
            BidFormat::Legacy if in_window => {
                n_legacy += 1;
                let v2 = match json_of(before) {
                    Some(v) => v,
                    None => continue,
                };
                let sums = match format::classify_bid(before) {
                    StoredBid::Legacy(l) => l.sums(),
                    _ => None,
                };
                let (sb, sq, sf) = match sums {
                    Some(s) => s,
                    None => {
                        failures.push(format!(
                            "legacy bid {id}: event sums not computable (overflow) but the migration succeeded"
                        ));
                        continue;
                    }
                };
                let expected = json!({
                    "base": v2.get("base"),
                    "accumulated_base": sb.to_string(),
                    "accumulated_quote": sq.to_string(),
                    "accumulated_fee": sf.to_string(),
                    "fee": v2.get("fee").cloned().unwrap_or(Value::Null),
                    "id": v2.get("id"),
                    "owner": v2.get("owner"),
                    "price": v2.get("price"),
                    "quote": v2.get("quote"),
                });
                match json_of(after) {
                    Some(got) if got == expected => {}
                    Some(got) => failures.push(format!(
                        "legacy bid {id} converted to {got}, expected {expected} (remaining = original minus event sums base {sb} quote {sq} fee {sf})"
                    )),
                    None => failures.push(format!("legacy bid {id}: stored value unreadable after migration")),
                }
            }
            fmt => {
                if fmt == BidFormat::Current {
                    n_cur += 1;
                }
                if before != &after {
                    failures.push(format!(
                        "bid {id} ({}) was rewritten: {} -> {}",
                        match fmt {
                            BidFormat::Current => "current format",
                            BidFormat::Legacy => "legacy format, source version outside the conversion window",
                            BidFormat::Unknown => "unknown format",
                        },
                        String::from_utf8_lossy(before),
                        String::from_utf8_lossy(after)
                    ));
                }
            }
        }
    }
    // C14: configuration = old + exactly the requested overrides
    match (ctx.pre.contract_info(), ctx.post.contract_info()) {
        (Some(old), Some(new)) => {
            market_params_same(&old, &new, &mut failures);
            if old.executors != new.executors {
                failures.push("executors changed".to_string());
            }
            check_list_installed(
                "approvers",
                &msg.approvers,
                &addr_strs(&old.approvers),
                &addr_strs(&new.approvers),
                false,
                &mut failures,
            );
            if let Some(l) = &msg.approvers {
                for a in l {
                    if valid_addr(a) == Some(false) {
                        failures.push(format!("approvers: \"{a}\" is not a valid address but was accepted"));
                    }
                }
            }
            let e = fee_expected("ask", &old.ask_fee_info, &msg.ask_fee_account, &msg.ask_fee_rate, &mut failures);
            check_fee_installed("ask", &new.ask_fee_info, e, &mut failures);
            let e = fee_expected("bid", &old.bid_fee_info, &msg.bid_fee_account, &msg.bid_fee_rate, &mut failures);
            check_fee_installed("bid", &new.bid_fee_info, e, &mut failures);
            check_list_installed(
                "ask_required_attributes",
                &msg.ask_required_attributes,
                &old.ask_required_attributes,
                &new.ask_required_attributes,
                false,
                &mut failures,
            );
            check_list_installed(
                "bid_required_attributes",
                &msg.bid_required_attributes,
                &old.bid_required_attributes,
                &new.bid_required_attributes,
                false,
                &mut failures,
            );
        }
        _ => failures.push("configuration unreadable before or after the migration".to_string()),
    }
    // C14: stamps the current package version
    match ctx.post.version() {
        Some(v) if v.version == PACKAGE_VERSION && v.definition == CRATE_NAME => {}
        other => failures.push(format!(
            "version record after the migration is {:?}, expected {CRATE_NAME} {PACKAGE_VERSION}",
            other.map(|v| (v.definition, v.version))
        )),
    }
    // nothing else is written, no funds move
    if !ctx.pre.same_except(ctx.post, &[CONTRACT_INFO_KEY, VERSION_INFO_KEY, BID_PREFIX]) {
        failures.push("storage outside configuration, version record and bids changed".to_string());
    }
    if !ctx.messages.is_empty() {
        failures.push(format!("the migration emitted {} message(s)", ctx.messages.len()));
    }
    // C14: idempotent
    let mut again = storage_of(ctx.post);
    match world.migrate_on(&mut again, msg.clone()) {
        CallResult::Ok(resp) => {
            let raw: Vec<(Vec<u8>, Vec<u8>)> = again.range(None, None, Order::Ascending).collect();
            if raw != ctx.post.raw {
                failures.push("applying the same migration a second time changed the state again".to_string());
            }
            if !resp.messages.is_empty() {
                failures.push("the second application emitted messages".to_string());
            }
        }
        CallResult::Err(_) | CallResult::Panic(_) => {} // refused: changes nothing
    }
    verdict(
        failures,
        format!(
            "migrated from {} ({} current-format bid(s) untouched, {} legacy bid(s) {})",
            stored.unwrap_or_default(),
            n_cur,
            n_legacy,
            if in_window { "converted" } else { "n/a" }
        ),
    )
}

// ---------------------------------------------------------------------------
// admission (C07)
// ---------------------------------------------------------------------------

/// exactly `amount` of `denom` moved from the sender into the contract: by attached funds of that
/// one coin, or by one pull transfer and no funds for a restricted marker
fn escrow_failures(
    world: &World,
    ctx: &StepCtx,
    sender: &str,
    amount: u128,
    denom: &str,
    failures: &mut Vec<String>,
) {
    if restricted(world, denom) {
        if !ctx.funds.is_empty() {
            failures.push(format!("funds attached although {denom} is a restricted marker"));
        }
        let ok = ctx.messages.len() == 1
            && matches!(&ctx.messages[0], Msg::MarkerTransfer { from, to, admin, denom: d, amount: a }
                if from == sender && to == &world.contract && admin == &world.contract && d == denom && *a == amount);
        if !ok {
            failures.push(format!(
                "expected exactly one pull transfer of {amount}{denom} from {sender} to the contract, got {:?}",
                ctx.messages.iter().map(|m| m.to_json().to_string()).collect::<Vec<_>>()
            ));
        }
    } else {
        if !funds_are(ctx.funds, amount, denom) {
            failures.push(format!(
                "attached funds {:?} are not exactly {amount}{denom}",
                ctx.funds.iter().map(|c| c.to_string()).collect::<Vec<_>>()
            ));
        }
        if !ctx.messages.is_empty() {
            failures.push(format!("{} unexpected message(s) emitted", ctx.messages.len()));
        }
    }
}

fn funds_are(funds: &[Coin], amount: u128, denom: &str) -> bool {
    funds.len() == 1 && funds[0].denom == denom && funds[0].amount.u128() == amount
}

fn funds_ok(world: &World, funds: &[Coin], amount: u128, denom: &str) -> bool {
    if restricted(world, denom) {
        funds.is_empty()
    } else {
        funds_are(funds, amount, denom)
    }
}

fn price_conditions(price: &str, precision: u32, unmet: &mut Vec<String>) -> Option<Dec> {
    match parse_dec(price) {
        None => {
            unmet.push(format!("price \"{price}\" does not parse"));
            None
        }
        Some(p) => {
            if !p.is_positive() {
                unmet.push(format!("price {price} is not positive"));
            }
            if !p.within_precision(precision) {
                unmet.push(format!("price {price} has more than {precision} decimal place(s)"));
            }
            Some(p)
        }
    }
}

fn admission(world: &World, ctx: &StepCtx) -> Option<OracleResult> {
    let msg = exec_msg(ctx)?;
    let sender = ctx.sender?;
    if !matches!(msg, ExecuteMsg::CreateAsk { .. } | ExecuteMsg::CreateBid { .. }) {
        return None;
    }
    let ci = match ctx.pre.contract_info() {
        Some(c) => c,
        None => {
            return if ctx.ok {
                verdict(vec!["order admitted without a readable configuration".to_string()], "")
            } else {
                None
            }
        }
    };
    let precision = ci.price_precision.min(38) as u32;
    let increment = ci.size_increment;
    // conditions of the statement that are not met (empty = fully conforming request)
    let mut unmet: Vec<String> = vec![];
    // premises of the "must be accepted" direction only (ranges of the decimal library)
    let mut in_range = increment >= 1 && ci.price_precision <= 18;
    let mut failures = vec![];
    match msg {
        ExecuteMsg::CreateAsk {
            id,
            base,
            quote,
            price,
            size,
        } => {
            let size = size.u128();
            if !canonical_uuid(id) {
                unmet.push(format!("id \"{id}\" is not a canonical hyphenated lower-case UUID"));
            }
            if ctx.pre.ask_raw(id).is_some() {
                unmet.push(format!("an ask is already recorded under id {id}"));
            }
            if base.is_empty() || !(base == &ci.base_denom || ci.convertible_base_denoms.contains(base)) {
                unmet.push(format!("base \"{base}\" is neither the base nor a convertible denomination"));
            }
            if quote.is_empty() || !ci.supported_quote_denoms.contains(quote) {
                unmet.push(format!("quote \"{quote}\" is not a supported quote denomination"));
            }
            if size < 1 || increment == 0 || size % increment != 0 {
                unmet.push(format!("size {size} is not a positive multiple of the increment {increment}"));
            }
            if let Some(p) = price_conditions(price, precision, &mut unmet) {
                in_range &= small(Uint128::new(p.mant).full_mul(pow10(precision)));
            }
            if !has_all_attributes(world, sender, &ci.ask_required_attributes) {
                unmet.push(format!("sender {sender} lacks a required attribute of {:?}", ci.ask_required_attributes));
            }
            if !funds_ok(world, ctx.funds, size, base) {
                unmet.push(format!(
                    "escrow: funds {:?} do not cover exactly {size}{base}",
                    ctx.funds.iter().map(|c| c.to_string()).collect::<Vec<_>>()
                ));
            }
            if ctx.ok {
                failures.extend(unmet.iter().map(|u| format!("ask admitted although {u}")));
                escrow_failures(world, ctx, sender, size, base, &mut failures);
                // recorded as requested, sender as owner, nothing else changed
                let expected_class = if base == &ci.base_denom {
                    AskClass::Basic
                } else {
                    AskClass::Pending
                };
                let expected = AskRec {
                    id: id.clone(),
                    owner: sender.to_string(),
                    class: expected_class,
                    base: base.clone(),
                    quote: quote.clone(),
                    price: price.clone(),
                    size,
                };
                match ctx.post.ask(id) {
                    Some(a) if a == expected => {}
                    other => failures.push(format!(
                        "recorded ask is {:?}, expected {:?}",
                        other, expected
                    )),
                }
                let mut k = ASK_PREFIX.to_vec();
                k.extend_from_slice(id.as_bytes());
                if !ctx.pre.same_except(ctx.post, &[&k]) {
                    failures.push("storage other than the new ask changed".to_string());
                }
            }
        }
        ExecuteMsg::CreateBid {
            id,
            base,
            fee,
            price,
            quote,
            quote_size,
            size,
        } => {
            let size = size.u128();
            let quote_size = quote_size.u128();
            let fee_amount = fee.as_ref().map(|f| f.amount.u128()).unwrap_or(0);
            if !canonical_uuid(id) {
                unmet.push(format!("id \"{id}\" is not a canonical hyphenated lower-case UUID"));
            }
            if ctx.pre.bid_raw(id).is_some() {
                unmet.push(format!("a bid is already recorded under id {id}"));
            }
            if base.is_empty() || base != &ci.base_denom {
                unmet.push(format!("base \"{base}\" is not the contract's base denomination"));
            }
            if quote.is_empty() || !ci.supported_quote_denoms.contains(quote) {
                unmet.push(format!("quote \"{quote}\" is not a supported quote denomination"));
            }
            if size < 1 || increment == 0 || size % increment != 0 {
                unmet.push(format!("size {size} is not a positive multiple of the increment {increment}"));
            }
            if quote_size < 1 {
                unmet.push("quote_size is 0".to_string());
            }
            if size >= LIMIT96 || quote_size >= LIMIT96 || fee_amount >= LIMIT96 {
                unmet.push("an amount is not below 2^96".to_string());
            }
            if let Some(p) = price_conditions(price, precision, &mut unmet) {
                in_range &= small(Uint128::new(p.mant).full_mul(pow10(precision)));
                let total = p.times(size);
                in_range &= small(total.num);
                match total.whole_u128() {
                    Some(t) if !p.neg && t == quote_size => {}
                    Some(t) => unmet.push(format!("price*size = {t} differs from the stated quote_size {quote_size}")),
                    None => unmet.push(format!("price*size = {price}*{size} is not an integer")),
                }
            }
            // fee at the configured rate, half away from zero (no fee configured = rate 0)
            let rate = match &ci.bid_fee_info {
                Some(f) => parse_dec(&f.rate),
                None => parse_dec("0"),
            };
            match rate {
                None => {
                    unmet.push("the configured bid fee rate does not parse".to_string());
                }
                Some(r) => {
                    in_range &= !r.neg && small(Uint128::new(r.mant).full_mul(quote_size));
                    match fee_of(&r, quote_size) {
                        Some(due) if due == fee_amount => {}
                        Some(due) => unmet.push(format!(
                            "fee {fee_amount} is not the configured rate applied to {quote_size} rounded half up = {due}"
                        )),
                        None => unmet.push("no admissible fee (negative rate)".to_string()),
                    }
                }
            }
            if let Some(f) = fee {
                if &f.denom != quote {
                    unmet.push(format!("fee denomination {} differs from the quote denomination {quote}", f.denom));
                }
            }
            if !has_all_attributes(world, sender, &ci.bid_required_attributes) {
                unmet.push(format!("sender {sender} lacks a required attribute of {:?}", ci.bid_required_attributes));
            }
            let escrow = quote_size.checked_add(fee_amount);
            match escrow {
                Some(e) if funds_ok(world, ctx.funds, e, quote) => {}
                _ => unmet.push(format!(
                    "escrow: funds {:?} do not cover exactly quote {quote_size} + fee {fee_amount} of {quote}",
                    ctx.funds.iter().map(|c| c.to_string()).collect::<Vec<_>>()
                )),
            }
            if ctx.ok {
                failures.extend(unmet.iter().map(|u| format!("bid admitted although {u}")));
                if let Some(e) = escrow {
                    escrow_failures(world, ctx, sender, e, quote, &mut failures);
                }
                let expected = BidRec {
                    base: CoinRec {
                        amount: size,
                        denom: base.clone(),
                    },
                    accumulated_base: 0,
                    accumulated_quote: 0,
                    accumulated_fee: 0,
                    fee: fee.as_ref().map(coin_rec),
                    id: id.clone(),
                    owner: sender.to_string(),
                    price: price.clone(),
                    quote: CoinRec {
                        amount: quote_size,
                        denom: quote.clone(),
                    },
                };
                match ctx.post.bid(id) {
                    Some(b) if b == expected => {}
                    other => failures.push(format!("recorded bid is {:?}, expected {:?}", other, expected)),
                }
                let mut k = BID_PREFIX.to_vec();
                k.extend_from_slice(id.as_bytes());
                if !ctx.pre.same_except(ctx.post, &[&k]) {
                    failures.push("storage other than the new bid changed".to_string());
                }
            }
        }
        _ => return None,
    }
    if ctx.ok {
        verdict(failures, "admitted order met every admission condition")
    } else if unmet.is_empty() && in_range {
        verdict(
            vec![format!(
                "a request meeting every admission condition was {}: {}",
                if ctx.panicked { "aborted" } else { "refused" },
                ctx.error.unwrap_or("?")
            )],
            "",
        )
    } else if unmet.is_empty() {
        verdict(vec![], "refused; conforming but outside the decimal range premises (not judged)")
    } else {
        verdict(vec![], format!("refused; unmet: {}", unmet.join("; ")))
    }
}

// ---------------------------------------------------------------------------
// execute_match: eligibility (C03) and settlement (C02)
// ---------------------------------------------------------------------------

struct MatchFacts {
    ask: AskRec,
    bid: BidRec,
    size: u128,
    /// size * execution price, size * bid price (None = not a whole number)
    g: Option<u128>,
    og: Option<u128>,
    improved: bool,
    /// ask fee on g (None = not computable: rate unparsable / negative)
    askfee: Option<u128>,
}

struct MatchJudgement {
    /// conditions of the statement that are not met
    unmet: Vec<String>,
    /// premises of the converse that are not met ("fees payable", well-formed bid, ranges)
    not_claimed: Vec<String>,
    facts: Option<MatchFacts>,
}

fn rem_base(b: &BidRec) -> Option<u128> {
    b.rem_base()
}
fn rem_quote(b: &BidRec) -> Option<u128> {
    b.rem_quote()
}
fn rem_fee(b: &BidRec) -> Option<u128> {
    b.rem_fee()
}

fn judge_match(ctx: &StepCtx, msg: &ExecuteMsg) -> Option<MatchJudgement> {
    let (ask_id, bid_id, price, size) = match msg {
        ExecuteMsg::ExecuteMatch {
            ask_id,
            bid_id,
            price,
            size,
        } => (ask_id, bid_id, price, size.u128()),
        _ => return None,
    };
    let sender = ctx.sender.unwrap_or("");
    let mut unmet = vec![];
    let mut not_claimed = vec![];
    let ci = ctx.pre.contract_info();
    match &ci {
        Some(c) if c.executors.iter().any(|a| a.as_str() == sender) => {}
        _ => unmet.push(format!("sender {sender} is not an executor")),
    }
    if !ctx.funds.is_empty() {
        unmet.push("funds attached".to_string());
    }
    if !canonical_uuid(ask_id) || !canonical_uuid(bid_id) {
        unmet.push("an order id is not in canonical form".to_string());
    }
    if price.is_empty() {
        unmet.push("empty price".to_string());
    }
    if size < 1 {
        unmet.push("size is 0".to_string());
    }
    let ask = ctx.pre.ask(ask_id);
    let bid = ctx.pre.bid(bid_id);
    if ask.is_none() {
        unmet.push(format!("ask {ask_id} is not on the book"));
    }
    if bid.is_none() {
        unmet.push(format!("bid {bid_id} is not on the book (in the current format)"));
    }
    let ep = parse_dec(price);
    if ep.is_none() {
        unmet.push(format!("execution price \"{price}\" does not parse"));
    }
    let (ask, bid, ep) = match (ask, bid, ep) {
        (Some(a), Some(b), Some(e)) => (a, b, e),
        _ => {
            return Some(MatchJudgement {
                unmet,
                not_claimed,
                facts: None,
            })
        }
    };
    if ask.quote != bid.quote.denom {
        unmet.push(format!(
            "quote denominations differ (ask {}, bid {})",
            ask.quote, bid.quote.denom
        ));
    }
    if is_pending(&ask) {
        unmet.push("the ask is pending approval".to_string());
    }
    let (ap, bp) = match (parse_dec(&ask.price), parse_dec(&bid.price)) {
        (Some(a), Some(b)) => (a, b),
        _ => {
            unmet.push("an order's limit price does not parse".to_string());
            return Some(MatchJudgement {
                unmet,
                not_claimed,
                facts: None,
            });
        }
    };
    if ap.cmp_value(&bp) == Ordering::Greater {
        unmet.push(format!("ask price {} exceeds bid price {}", ask.price, bid.price));
    }
    if !ep.eq_value(&ap) && !ep.eq_value(&bp) {
        unmet.push(format!(
            "execution price {price} is neither the ask price {} nor the bid price {}",
            ask.price, bid.price
        ));
    }
    let rb = rem_base(&bid);
    if size > ask.size {
        unmet.push(format!("size {size} exceeds the ask's remaining size {}", ask.size));
    }
    match rb {
        Some(rb) if size <= rb => {}
        _ => unmet.push(format!("size {size} exceeds the bid's remaining size {rb:?}")),
    }
    let improved = ep.cmp_value(&bp) == Ordering::Less;
    let gp = ep.times(size);
    let ogp = bp.times(size);
    let g = if ep.neg { None } else { gp.whole_u128() };
    let og = if bp.neg { None } else { ogp.whole_u128() };
    if g.is_none() {
        unmet.push(format!("size*execution price = {size}*{price} is not a whole number"));
    }
    if improved && og.is_none() {
        unmet.push(format!("size*bid price = {size}*{} is not a whole number", bid.price));
    }
    // ---- premises of the converse: fees payable, well-formed bid, decimal ranges
    if !small(gp.num) || !small(ogp.num) || ep.neg || bp.neg {
        not_claimed.push("price*size outside the exact decimal range".to_string());
    }
    let askfee = match ci.as_ref().and_then(|c| c.ask_fee_info.as_ref()) {
        None => Some(0),
        Some(fi) => match (parse_dec(&fi.rate), g) {
            (Some(r), Some(g)) => {
                if r.neg || !small(Uint128::new(r.mant).full_mul(g)) {
                    not_claimed.push("ask fee rate negative or out of range".to_string());
                }
                fee_of(&r, g)
            }
            _ => None,
        },
    };
    match (askfee, g) {
        (Some(f), Some(g)) if f <= g => {}
        _ => not_claimed.push("ask fee not payable from the proceeds".to_string()),
    }
    // bid well-formedness (holds in every reachable book; books seeded by direct writes may differ)
    let q = bid.quote.amount;
    let f = bid.fee.as_ref().map(|f| f.amount);
    match (rb, rem_quote(&bid), rem_fee(&bid)) {
        (Some(rb), Some(rq), Some(rf)) => {
            if q < 1 || q >= LIMIT96 || bid.base.amount >= LIMIT96 || f.unwrap_or(0) >= LIMIT96 {
                not_claimed.push("bid amounts out of range".to_string());
            }
            if rb < 1 || bp.times(rb).whole_u128() != Some(rq) || bp.neg {
                not_claimed.push("bid's unspent quote is not price * unfilled size".to_string());
            } else if let (Some(f), Some(g)) = (f, g) {
                // fee still held is the pro-rata share; the fill's and the improved fill's fee are payable
                if prorata(f, rq, q) != Some(rf) {
                    not_claimed.push("bid's held fee is not the pro-rata share".to_string());
                }
                let spent = if improved { og.unwrap_or(g) } else { g };
                if spent > rq {
                    not_claimed.push("bid's unspent quote does not cover the fill".to_string());
                } else {
                    match (prorata(f, rq - g, q), prorata(f, rq - spent, q)) {
                        (Some(keep_g), Some(keep_og)) => {
                            if rf < keep_g.max(keep_og) {
                                not_claimed.push("bid fee not payable (held fee below the share to be kept)".to_string());
                            }
                            if rf > keep_g && ci.as_ref().map(|c| c.bid_fee_info.is_none()).unwrap_or(true) {
                                not_claimed.push("a bid fee is due but no bid fee account is configured".to_string());
                            }
                        }
                        _ => not_claimed.push("pro-rata share outside the decimal range".to_string()),
                    }
                }
            }
        }
        _ => not_claimed.push("bid accumulators exceed its amounts".to_string()),
    }
    Some(MatchJudgement {
        unmet,
        not_claimed,
        facts: Some(MatchFacts {
            ask,
            bid,
            size,
            g,
            og,
            improved,
            askfee,
        }),
    })
}

fn match_eligibility(_world: &World, ctx: &StepCtx) -> Option<OracleResult> {
    let msg = exec_msg(ctx)?;
    let j = judge_match(ctx, msg)?;
    if ctx.ok {
        verdict(
            j.unmet.iter().map(|u| format!("match carried out although {u}")).collect(),
            "the match met every eligibility condition",
        )
    } else if j.unmet.is_empty() && j.not_claimed.is_empty() {
        verdict(
            vec![format!(
                "an executor's match request meeting every condition (fees payable) was refused: {}",
                ctx.error.unwrap_or("?")
            )],
            "",
        )
    } else if j.unmet.is_empty() {
        verdict(vec![], format!("refused; eligible but not claimed: {}", j.not_claimed.join("; ")))
    } else {
        verdict(vec![], format!("refused; unmet: {}", j.unmet.join("; ")))
    }
}

type Dues = BTreeMap<(String, String), u128>;

fn due(d: &mut Dues, to: &str, denom: &str, amount: u128) {
    if amount > 0 {
        let e = d.entry((to.to_string(), denom.to_string())).or_insert(0);
        *e = e.saturating_add(amount);
    }
}

fn fmt_dues(d: &Dues) -> String {
    let v: Vec<String> = d.iter().map(|((to, dn), a)| format!("{a}{dn}->{to}")).collect();
    format!("[{}]", v.join(", "))
}

/// what the contract paid out, per (recipient, denomination); Err if a message is not a payout
/// drawn from the contract
fn paid_out(world: &World, msgs: &[Msg]) -> Result<Dues, String> {
    let mut d = Dues::new();
    for m in msgs {
        if let Msg::Other { debug } = m {
            return Err(format!("unexpected message {debug}"));
        }
        for (from, to, denom, amount) in m.transfers(&world.contract) {
            if from != world.contract {
                return Err(format!("transfer of {amount}{denom} drawn from {from}, not from the contract"));
            }
            due(&mut d, &to, &denom, amount);
        }
    }
    Ok(d)
}

/// The settlement of a match: the amounts of the statement, computed from the pre-state orders.
struct Settlement {
    dues: Dues,
    bidfee: u128,
    spent_q: u128,
    spent_f: u128,
}

fn settlements(world: &World, ctx: &StepCtx, m: &MatchFacts) -> Result<Vec<Settlement>, String> {
    let ci = ctx.pre.contract_info().ok_or("configuration unreadable")?;
    let g = m.g.ok_or("size * execution price is not a whole number")?;
    let qd = m.bid.quote.denom.clone();
    let askfee = m.askfee.ok_or("ask fee not computable")?;
    let net = g.checked_sub(askfee).ok_or("ask fee exceeds the proceeds")?;
    let og = if m.improved {
        m.og.ok_or("size * bid price is not a whole number")?
    } else {
        g
    };
    let refund_q = og.checked_sub(g).ok_or("bid price below execution price")?;
    let q = m.bid.quote.amount;
    // (bid fee of the fill, fee released by the improved fill)
    let mut fee_cases: Vec<(u128, u128)> = vec![];
    match &m.bid.fee {
        None => fee_cases.push((0, 0)),
        Some(f) => {
            let f = f.amount;
            let rq = rem_quote(&m.bid).ok_or("the bid's quote is over-spent")?;
            let rf = rem_fee(&m.bid).ok_or("the bid's fee is over-spent")?;
            let left_g = rq.checked_sub(g).ok_or("fill exceeds the bid's unspent quote")?;
            let left_og = rq.checked_sub(og).ok_or("fill at the bid price exceeds the bid's unspent quote")?;
            let keep_g = prorata(f, left_g, q).ok_or("pro-rata share not computable")?;
            let keep_og = prorata(f, left_og, q).ok_or("pro-rata share not computable")?;
            match (rf.checked_sub(keep_g), rf.checked_sub(keep_og)) {
                (Some(bidfee), Some(origfee)) => fee_cases.push((bidfee, origfee)),
                _ => return Err("held fee below the pro-rata share to be kept".to_string()),
            }
        }
    }
    let _ = world;
    let mut out = vec![];
    for (bidfee, origfee) in fee_cases {
        let refund_f = if m.improved && origfee > bidfee { origfee - bidfee } else { 0 };
        let mut d = Dues::new();
        if askfee > 0 {
            let acct = ci.ask_fee_info.as_ref().map(|f| f.account.clone()).ok_or("ask fee without account")?;
            due(&mut d, &acct, &qd, askfee);
        }
        if bidfee > 0 {
            match &ci.bid_fee_info {
                Some(f) => due(&mut d, f.account.as_str(), &qd, bidfee),
                None => continue, // not payable: the match cannot be carried out in this case
            }
        }
        let buyer = m.bid.owner.as_str();
        due(&mut d, buyer, &qd, refund_q);
        due(&mut d, buyer, &qd, refund_f);
        match ready(&m.ask) {
            Some((approver, cb)) => {
                due(&mut d, buyer, &cb.denom, m.size);
                due(&mut d, approver, &m.ask.base, m.size);
                due(&mut d, approver, &qd, net);
            }
            None => {
                due(&mut d, m.ask.owner.as_str(), &qd, net);
                due(&mut d, buyer, &m.ask.base, m.size);
            }
        }
        out.push(Settlement {
            dues: d,
            bidfee,
            spent_q: og,
            spent_f: bidfee.saturating_add(refund_f),
        });
    }
    if out.is_empty() {
        return Err("a bid fee is due but no bid fee account is configured".to_string());
    }
    Ok(out)
}

/// the ask after `size` was taken from it (None = it leaves the book)
fn ask_after(a: &AskRec, size: u128) -> Option<AskRec> {
    let left = a.size.checked_sub(size)?;
    if left == 0 {
        return None;
    }
    let mut n = a.clone();
    n.size = left;
    if let AskClass::Ready { converted_base, .. } = &mut n.class {
        converted_base.amount = left;
    }
    Some(n)
}

fn bid_after(b: &BidRec, db: u128, dq: u128, df: u128) -> Option<BidRec> {
    let mut n = b.clone();
    n.accumulated_base = b.accumulated_base.checked_add(db)?;
    n.accumulated_quote = b.accumulated_quote.checked_add(dq)?;
    n.accumulated_fee = b.accumulated_fee.checked_add(df)?;
    if n.accumulated_base == n.base.amount {
        None
    } else {
        Some(n)
    }
}

fn settlement(world: &World, ctx: &StepCtx) -> Option<OracleResult> {
    if !ctx.ok {
        return None;
    }
    let msg = exec_msg(ctx)?;
    let (ask_id, bid_id) = match msg {
        ExecuteMsg::ExecuteMatch { ask_id, bid_id, .. } => (ask_id, bid_id),
        _ => return None,
    };
    let j = judge_match(ctx, msg)?;
    let m = match &j.facts {
        Some(m) => m,
        None => {
            return verdict(
                vec![format!("a match was settled although {}", j.unmet.join("; "))],
                "",
            )
        }
    };
    let mut failures = vec![];
    let paid = match paid_out(world, ctx.messages) {
        Ok(p) => p,
        Err(e) => return verdict(vec![e], ""),
    };
    let cases = match settlements(world, ctx, m) {
        Ok(c) => c,
        Err(e) => return verdict(vec![format!("a match was settled although its dues are undefined: {e}")], ""),
    };
    let ask_post = ctx.post.ask(ask_id);
    let bid_post_raw = ctx.post.bid_raw(bid_id).is_some();
    let bid_post = ctx.post.bid(bid_id);
    let mut why = vec![];
    let mut good = false;
    for s in &cases {
        let mut w = vec![];
        if paid != s.dues {
            w.push(format!("paid {} but the dues are {}", fmt_dues(&paid), fmt_dues(&s.dues)));
        }
        let want_ask = ask_after(&m.ask, m.size);
        if ask_post != want_ask || (want_ask.is_none() && ctx.post.ask_raw(ask_id).is_some()) {
            w.push(format!("ask after the match is {:?}, expected {:?}", ask_post, want_ask));
        }
        let want_bid = bid_after(&m.bid, m.size, s.spent_q, s.spent_f);
        if bid_post != want_bid || (want_bid.is_none() && bid_post_raw) {
            w.push(format!("bid after the match is {:?}, expected {:?}", bid_post, want_bid));
        }
        if w.is_empty() {
            good = true;
            break;
        }
        why.push(w.join("; "));
    }
    if !good {
        failures.push(why.join(" | "));
    }
    // nothing but the two orders changed
    let mut ka = ASK_PREFIX.to_vec();
    ka.extend_from_slice(ask_id.as_bytes());
    let mut kb = BID_PREFIX.to_vec();
    kb.extend_from_slice(bid_id.as_bytes());
    if !ctx.pre.same_except(ctx.post, &[&ka, &kb]) {
        failures.push("storage other than the two matched orders changed".to_string());
    }
    verdict(
        failures,
        format!(
            "size {} at {}: paid {}",
            m.size,
            if m.improved { "an improved price" } else { "the bid price" },
            fmt_dues(&paid)
        ),
    )
}

// ---------------------------------------------------------------------------
// queries (C16)
// ---------------------------------------------------------------------------

fn uuid_parses(s: &str) -> bool {
    let hex = |t: &str| t.bytes().all(|c| c.is_ascii_hexdigit());
    let hyphenated = |t: &str| {
        let b = t.as_bytes();
        b.len() == 36
            && b.iter().enumerate().all(|(i, c)| match i {
                8 | 13 | 18 | 23 => *c == b'-',
                _ => c.is_ascii_hexdigit(),
            })
    };
    if let Some(t) = s.strip_prefix("urn:uuid:") {
        return hyphenated(t);
    }
    if let Some(t) = s.strip_prefix('{').and_then(|t| t.strip_suffix('}')) {
        return hyphenated(t);
    }
    (s.len() == 32 && hex(s)) || hyphenated(s)
}

fn query_value(world: &World, msg: QueryMsg) -> Result<Value, String> {
    match world.query_on(&world.deps.storage, msg) {
        CallResult::Ok(bin) => serde_json::from_slice::<Value>(bin.as_slice()).map_err(|e| format!("unreadable answer: {e}")),
        CallResult::Err(e) => Err(e),
        CallResult::Panic(e) => Err(format!("panic: {e}")),
    }
}

fn id_variants(id: &str) -> Vec<String> {
    let mut v = vec![id.to_string()];
    let simple = id.replace('-', "");
    if simple != id {
        v.push(simple);
    }
    let upper = id.to_uppercase();
    if upper != id {
        v.push(upper);
    }
    if id.len() == 32 && id.bytes().all(|c| c.is_ascii_hexdigit()) {
        v.push(format!("{}-{}-{}-{}-{}", &id[0..8], &id[8..12], &id[12..16], &id[16..20], &id[20..32]));
    }
    v
}

fn queries(world: &World, ctx: &StepCtx) -> Option<OracleResult> {
    if !ctx.ok || ctx.kind == "query" {
        return None;
    }
    let mut failures = vec![];
    let before: Vec<(Vec<u8>, Vec<u8>)> = world.deps.storage.range(None, None, Order::Ascending).collect();
    // ids: everything on the book now, everything that was on it before the step, the ids the
    // request named, each also in its other written forms
    let mut ids: BTreeSet<String> = BTreeSet::new();
    for snap in [ctx.pre, ctx.post] {
        for (k, _) in snap.asks().into_iter().chain(snap.bids()) {
            if let Ok(s) = std::str::from_utf8(k) {
                ids.extend(id_variants(s));
            }
        }
    }
    if let Request::Execute(m) = ctx.request {
        let named: Vec<&String> = match m {
            ExecuteMsg::ApproveAsk { id, .. }
            | ExecuteMsg::CancelAsk { id }
            | ExecuteMsg::CancelBid { id }
            | ExecuteMsg::CreateAsk { id, .. }
            | ExecuteMsg::CreateBid { id, .. }
            | ExecuteMsg::ExpireAsk { id }
            | ExecuteMsg::ExpireBid { id }
            | ExecuteMsg::RejectAsk { id, .. }
            | ExecuteMsg::RejectBid { id, .. } => vec![id],
            ExecuteMsg::ExecuteMatch { ask_id, bid_id, .. } => vec![ask_id, bid_id],
            ExecuteMsg::ModifyContract { .. } => vec![],
        };
        for id in named {
            ids.extend(id_variants(id));
        }
    }
    ids.insert("00000000-0000-4000-8000-00000000ffff".to_string());
    let mut n = 0;
    for id in &ids {
        for side in ["ask", "bid"] {
            n += 1;
            let (stored, answer) = if side == "ask" {
                (ctx.post.ask_raw(id), query_value(world, QueryMsg::GetAsk { id: id.clone() }))
            } else {
                (ctx.post.bid_raw(id), query_value(world, QueryMsg::GetBid { id: id.clone() }))
            };
            match (stored, answer) {
                (None, Ok(v)) => failures.push(format!("get_{side} {id}: answered {v} although no {side} is on the book under that id")),
                (None, Err(_)) => {}
                (Some(raw), Ok(v)) => {
                    if json_of(raw).as_ref() != Some(&v) {
                        failures.push(format!(
                            "get_{side} {id}: answered {v}, stored is {}",
                            String::from_utf8_lossy(raw)
                        ));
                    }
                    // an order a query shows is open: something is left of it
                    let left = if side == "ask" {
                        format::read_ask(&v).ok().map(|a| a.size)
                    } else {
                        format::read_bid(&v).ok().and_then(|b| rem_base(&b))
                    };
                    if left == Some(0) {
                        failures.push(format!("get_{side} {id}: answers with a completely filled / returned order"));
                    }
                }
                (Some(raw), Err(e)) => {
                    let current = if side == "ask" {
                        format::ask_of(raw).is_ok()
                    } else {
                        format::current_bid_of(raw).is_some()
                    };
                    // legacy-format bids are not served before migration; ids that are no UUID
                    // in any written form are refused at the message level
                    if current && uuid_parses(id) {
                        failures.push(format!("get_{side} {id}: failed ({e}) although the order is on the book"));
                    }
                }
            }
        }
    }
    for (what, key, msg) in [
        ("contract_info", CONTRACT_INFO_KEY, QueryMsg::GetContractInfo {}),
        ("version_info", VERSION_INFO_KEY, QueryMsg::GetVersionInfo {}),
    ] {
        match (ctx.post.get(key), query_value(world, msg)) {
            (Some(raw), Ok(v)) => {
                if json_of(raw).as_ref() != Some(&v) {
                    failures.push(format!("get_{what}: answered {v}, stored is {}", String::from_utf8_lossy(raw)));
                }
            }
            (Some(_), Err(e)) => failures.push(format!("get_{what}: failed ({e})")),
            (None, Ok(v)) => failures.push(format!("get_{what}: answered {v} although nothing is stored")),
            (None, Err(_)) => {}
        }
    }
    let after: Vec<(Vec<u8>, Vec<u8>)> = world.deps.storage.range(None, None, Order::Ascending).collect();
    if before != after || after != ctx.post.raw {
        failures.push("the storage differs after the queries".to_string());
    }
    verdict(failures, format!("{} order queries + 2 info queries faithful, state untouched", n))
}

// ---------------------------------------------------------------------------
// attributes (C17)
// ---------------------------------------------------------------------------

fn has_attr(ctx: &StepCtx, k: &str, v: &str) -> bool {
    ctx.attributes.iter().any(|(a, b)| a == k && b == v)
}

fn attr_values<'a>(ctx: &'a StepCtx, k: &str) -> Vec<&'a str> {
    ctx.attributes.iter().filter(|(a, _)| a == k).map(|(_, b)| b.as_str()).collect()
}

fn want_attr(ctx: &StepCtx, k: &str, v: &str, failures: &mut Vec<String>) {
    if !has_attr(ctx, k, v) {
        failures.push(format!("attribute {k} = {:?}, expected \"{v}\"", attr_values(ctx, k)));
    }
}

/// the single value reported under a key (None if absent or reported with different values)
fn reported<'a>(ctx: &'a StepCtx, k: &str) -> Option<&'a str> {
    let v = attr_values(ctx, k);
    match v.first() {
        Some(first) if v.iter().all(|x| x == first) => Some(first),
        _ => None,
    }
}

/// off-chain record: id -> (remaining size, approved)
type Shadow = BTreeMap<String, (u128, bool)>;

fn shadow_asks(s: &Snap) -> Shadow {
    s.asks()
        .into_iter()
        .filter_map(|(k, v)| {
            let a = format::ask_of(v).ok()?;
            Some((id_str(k), (a.size, ready(&a).is_some())))
        })
        .collect()
}

fn shadow_bids(s: &Snap) -> Shadow {
    s.bids()
        .into_iter()
        .filter_map(|(k, v)| {
            let b = format::current_bid_of(v)?;
            Some((id_str(k), (rem_base(&b)?, false)))
        })
        .collect()
}

fn attributes(world: &World, ctx: &StepCtx) -> Option<OracleResult> {
    if !ctx.ok {
        return None;
    }
    let msg = exec_msg(ctx)?;
    let mut failures = vec![];
    let mut asks = shadow_asks(ctx.pre);
    let mut bids = shadow_bids(ctx.pre);
    // the shadow record is advanced from the REPORTED values only
    let rep_size = |k: &str| reported(ctx, k).and_then(|s| s.parse::<u128>().ok());
    let reduce = |book: &mut Shadow, id: Option<&str>, by: Option<u128>, open: Option<bool>| {
        if let (Some(id), Some(by)) = (id, by) {
            if let Some(e) = book.get_mut(id) {
                e.0 = e.0.saturating_sub(by);
                let close = match open {
                    Some(o) => !o,
                    None => e.0 == 0,
                };
                if close {
                    book.remove(id);
                }
            }
        }
    };
    match msg {
        ExecuteMsg::CreateAsk { id, base, quote, price, size } => {
            want_attr(ctx, "action", "create_ask", &mut failures);
            want_attr(ctx, "id", id, &mut failures);
            want_attr(ctx, "base", base, &mut failures);
            want_attr(ctx, "quote", quote, &mut failures);
            want_attr(ctx, "price", price, &mut failures);
            want_attr(ctx, "size", &size.to_string(), &mut failures);
            if let (Some(id), Some(sz)) = (reported(ctx, "id"), rep_size("size")) {
                asks.insert(id.to_string(), (sz, false));
            }
        }
        ExecuteMsg::CreateBid { id, base, price, quote, quote_size, size, .. } => {
            want_attr(ctx, "action", "create_bid", &mut failures);
            want_attr(ctx, "id", id, &mut failures);
            want_attr(ctx, "base", base, &mut failures);
            want_attr(ctx, "quote", quote, &mut failures);
            want_attr(ctx, "price", price, &mut failures);
            want_attr(ctx, "quote_size", &quote_size.to_string(), &mut failures);
            want_attr(ctx, "size", &size.to_string(), &mut failures);
            if let (Some(id), Some(sz)) = (reported(ctx, "id"), rep_size("size")) {
                bids.insert(id.to_string(), (sz, false));
            }
        }
        ExecuteMsg::ApproveAsk { id, .. } => {
            want_attr(ctx, "action", "approve_ask", &mut failures);
            want_attr(ctx, "id", id, &mut failures);
            if let Some(a) = ctx.pre.ask(id) {
                want_attr(ctx, "quote", &a.quote, &mut failures);
                want_attr(ctx, "price", &a.price, &mut failures);
                want_attr(ctx, "size", &a.size.to_string(), &mut failures);
            }
            if let Some(e) = reported(ctx, "id").and_then(|id| asks.get_mut(id)) {
                e.1 = true;
            }
        }
        ExecuteMsg::CancelAsk { id } => {
            want_attr(ctx, "action", "cancel_ask", &mut failures);
            want_attr(ctx, "id", id, &mut failures);
            if let Some(id) = reported(ctx, "id") {
                asks.remove(id);
            }
        }
        ExecuteMsg::ExpireAsk { id } | ExecuteMsg::RejectAsk { id, .. } => {
            let action = if matches!(msg, ExecuteMsg::ExpireAsk { .. }) { "expire_ask" } else { "reject_ask" };
            want_attr(ctx, "action", action, &mut failures);
            want_attr(ctx, "id", id, &mut failures);
            let before = ctx.pre.ask(id).map(|a| a.size).unwrap_or(0);
            let after = ctx.post.ask(id).map(|a| a.size).unwrap_or(0);
            want_attr(ctx, "reverse_size", &before.saturating_sub(after).to_string(), &mut failures);
            // ... which is what actually went back to the owner
            if let (Some(a), Ok(paid)) = (ctx.pre.ask(id), paid_out(world, ctx.messages)) {
                let got = paid.get(&(a.owner.clone(), a.base.clone())).copied().unwrap_or(0);
                let extra = match ready(&a) {
                    Some((ap, cb)) if ap == a.owner && cb.denom == a.base => before.saturating_sub(after),
                    _ => 0,
                };
                if rep_size("reverse_size").map(|r| r.saturating_add(extra)) != Some(got) {
                    failures.push(format!(
                        "reverse_size reported {:?} but {got}{} went back to the owner",
                        reported(ctx, "reverse_size"),
                        a.base
                    ));
                }
            }
            let open = ctx.post.ask_raw(id).is_some();
            want_attr(ctx, "order_open", if open { "true" } else { "false" }, &mut failures);
            reduce(
                &mut asks,
                reported(ctx, "id"),
                rep_size("reverse_size"),
                reported(ctx, "order_open").map(|o| o == "true"),
            );
        }
        ExecuteMsg::CancelBid { id } | ExecuteMsg::ExpireBid { id } | ExecuteMsg::RejectBid { id, .. } => {
            let action = match msg {
                ExecuteMsg::CancelBid { .. } => "cancel_bid",
                ExecuteMsg::ExpireBid { .. } => "expire_bid",
                _ => "reject_bid",
            };
            want_attr(ctx, "action", action, &mut failures);
            want_attr(ctx, "id", id, &mut failures);
            let before = ctx.pre.bid(id).and_then(|b| rem_base(&b)).unwrap_or(0);
            let after = ctx.post.bid(id).and_then(|b| rem_base(&b)).unwrap_or(0);
            want_attr(ctx, "reverse_size", &before.saturating_sub(after).to_string(), &mut failures);
            let open = ctx.post.bid_raw(id).is_some();
            want_attr(ctx, "order_open", if open { "true" } else { "false" }, &mut failures);
            reduce(
                &mut bids,
                reported(ctx, "id"),
                rep_size("reverse_size"),
                reported(ctx, "order_open").map(|o| o == "true"),
            );
        }
        ExecuteMsg::ExecuteMatch { ask_id, bid_id, price, size } => {
            want_attr(ctx, "action", "execute", &mut failures);
            want_attr(ctx, "ask_id", ask_id, &mut failures);
            want_attr(ctx, "bid_id", bid_id, &mut failures);
            want_attr(ctx, "size", &size.to_string(), &mut failures);
            // the execution price, as a number
            match (reported(ctx, "price").and_then(parse_dec), parse_dec(price)) {
                (Some(r), Some(e)) if r.eq_value(&e) => {}
                _ => failures.push(format!(
                    "attribute price = {:?} is not the execution price {price}",
                    attr_values(ctx, "price")
                )),
            }
            // fees as executed and paid
            if let Some(j) = judge_match(ctx, msg) {
                if let Some(m) = &j.facts {
                    if let Some(f) = m.askfee {
                        want_attr(ctx, "ask_fee", &f.to_string(), &mut failures);
                    }
                    if let Ok(cases) = settlements(world, ctx, m) {
                        let rep = rep_size("bid_fee");
                        let paid = paid_out(world, ctx.messages).ok();
                        let consistent = cases.iter().any(|s| rep == Some(s.bidfee) && paid.as_ref() == Some(&s.dues));
                        let any_paid = cases.iter().any(|s| paid.as_ref() == Some(&s.dues));
                        // judged only when the payouts themselves are a correct settlement
                        if any_paid && !consistent {
                            failures.push(format!(
                                "attribute bid_fee = {:?} is not the bid fee paid ({:?})",
                                attr_values(ctx, "bid_fee"),
                                cases.iter().map(|s| s.bidfee).collect::<Vec<_>>()
                            ));
                        }
                    }
                }
            }
            reduce(&mut asks, reported(ctx, "ask_id"), rep_size("size"), None);
            reduce(&mut bids, reported(ctx, "bid_id"), rep_size("size"), None);
        }
        ExecuteMsg::ModifyContract { .. } => {
            want_attr(ctx, "action", "modify_contract", &mut failures);
        }
    }
    // the attribute-driven record equals the real book after the step
    let (real_asks, real_bids) = (shadow_asks(ctx.post), shadow_bids(ctx.post));
    if asks != real_asks {
        failures.push(format!("off-chain ask record {asks:?} diverges from the book {real_asks:?}"));
    }
    if bids != real_bids {
        failures.push(format!("off-chain bid record {bids:?} diverges from the book {real_bids:?}"));
    }
    verdict(failures, format!("{} attribute(s) truthful", ctx.attributes.len()))
}

// ---------------------------------------------------------------------------
// instantiate_coherence (C13)
// ---------------------------------------------------------------------------

fn fee_pair_conditions(
    side: &str,
    account: &Option<String>,
    rate: &Option<String>,
    unmet: &mut Vec<String>,
    unjudged: &mut bool,
) -> Option<(String, String)> {
    match (account, rate) {
        (None, None) => None,
        (Some(a), Some(r)) => {
            if a.is_empty() && r.is_empty() {
                return None;
            }
            if parse_dec(r).is_none() {
                unmet.push(format!("{side} fee rate \"{r}\" does not parse"));
            }
            match valid_addr(a) {
                Some(true) => {}
                Some(false) => unmet.push(format!("{side} fee account \"{a}\" is not a valid address")),
                None => *unjudged = true,
            }
            Some((a.clone(), r.clone()))
        }
        _ => {
            unmet.push(format!("{side} fee given as a rate without an account or vice versa"));
            None
        }
    }
}

fn instantiate_coherence(_world: &World, ctx: &StepCtx) -> Option<OracleResult> {
    if ctx.kind != "instantiate" {
        return None;
    }
    let m: &InstantiateMsg = match ctx.request {
        Request::Instantiate(m) => m,
        _ => return None,
    };
    let mut unmet = vec![];
    let mut unjudged = false;
    if m.name.is_empty() {
        unmet.push("empty name".to_string());
    }
    if m.base_denom.is_empty() {
        unmet.push("empty base denomination".to_string());
    }
    if m.supported_quote_denoms.is_empty() {
        unmet.push("no quote denomination".to_string());
    }
    if m.executors.is_empty() {
        unmet.push("no executor".to_string());
    }
    let p = m.price_precision.u128();
    if p > 18 {
        unmet.push(format!("price precision {p} above 18"));
    }
    let inc = m.size_increment.u128();
    if inc < 1 {
        unmet.push("size increment below 1".to_string());
    } else if p <= 18 && inc % pow10(p as u32) != 0 {
        unmet.push(format!("size increment {inc} is not a multiple of 10^{p}"));
    }
    for a in m.approvers.iter().chain(m.executors.iter()) {
        match valid_addr(a) {
            Some(true) => {}
            Some(false) => unmet.push(format!("\"{a}\" is not a valid address")),
            None => unjudged = true,
        }
    }
    let ask_fee = fee_pair_conditions("ask", &m.ask_fee_account, &m.ask_fee_rate, &mut unmet, &mut unjudged);
    let bid_fee = fee_pair_conditions("bid", &m.bid_fee_account, &m.bid_fee_rate, &mut unmet, &mut unjudged);
    if !ctx.ok {
        return if unmet.is_empty() && !unjudged {
            verdict(
                vec![format!("a coherent configuration was refused: {}", ctx.error.unwrap_or("?"))],
                "",
            )
        } else {
            verdict(vec![], format!("refused; incoherent: {}", unmet.join("; ")))
        };
    }
    let mut failures: Vec<String> = unmet.iter().map(|u| format!("instantiated although {u}")).collect();
    match ctx.post.contract_info() {
        None => failures.push(match ctx.post.get(CONTRACT_INFO_KEY) {
            None => "no configuration stored".to_string(),
            Some(raw) => format!(
                "the stored configuration is not a record in the released shape ({}): {}",
                format::config_of(raw).err().unwrap_or_default(),
                String::from_utf8_lossy(raw)
            ),
        }),
        Some(ci) => {
            if ci.name != m.name
                || ci.base_denom != m.base_denom
                || ci.convertible_base_denoms != m.convertible_base_denoms
                || ci.supported_quote_denoms != m.supported_quote_denoms
                || addr_strs(&ci.approvers) != m.approvers
                || addr_strs(&ci.executors) != m.executors
                || ci.ask_required_attributes != m.ask_required_attributes
                || ci.bid_required_attributes != m.bid_required_attributes
                || ci.price_precision != m.price_precision.u128()
                || ci.size_increment != m.size_increment.u128()
            {
                failures.push(format!("stored configuration {:?} differs from the request {:?}", ci, m));
            }
            if fee_pair(&ci.ask_fee_info) != ask_fee {
                failures.push(format!("stored ask fee {:?}, requested {:?}", fee_pair(&ci.ask_fee_info), ask_fee));
            }
            if fee_pair(&ci.bid_fee_info) != bid_fee {
                failures.push(format!("stored bid fee {:?}, requested {:?}", fee_pair(&ci.bid_fee_info), bid_fee));
            }
            // consequence: an admissible price times an admissible size is an integer
            let (pp, ii) = (ci.price_precision, ci.size_increment);
            if pp <= 18 && ii >= 1 {
                let unit = Dec { neg: false, mant: 1, scale: pp as u32 };
                if !unit.times(ii).whole {
                    failures.push(format!("the smallest admissible price 10^-{pp} times the increment {ii} is not an integer"));
                }
            }
        }
    }
    match ctx.post.version() {
        Some(v) if v.version == PACKAGE_VERSION && v.definition == CRATE_NAME => {}
        other => failures.push(format!(
            "version record {:?}, expected {CRATE_NAME} {PACKAGE_VERSION}",
            other.map(|v| (v.definition, v.version))
        )),
    }
    if !ctx.messages.is_empty() {
        failures.push("instantiate emitted messages".to_string());
    }
    if !ctx.post.asks().is_empty() || !ctx.post.bids().is_empty() {
        failures.push("the book is not empty after instantiation".to_string());
    }
    verdict(failures, "coherent configuration stored as requested")
}

// ---------------------------------------------------------------------------
// storage_format (C14 "migration preserves the book", C16 "queries report the book faithfully", C13)
// ---------------------------------------------------------------------------

fn shape_name(s: BidShape) -> &'static str {
    match s {
        BidShape::Current => "current-format shape",
        BidShape::Legacy => "legacy-format shape",
        BidShape::Unknown => "no known shape",
    }
}

/// After every successful step:
/// (a) every storage entry the contract wrote in the step is a record in its golden shape;
/// (b) every golden record in storage is read back by the contract as what it says;
/// (c) a migration from a version inside the conversion window leaves no legacy-format bid.
fn storage_format(world: &World, ctx: &StepCtx) -> Option<OracleResult> {
    if !ctx.ok || ctx.kind == "query" {
        return None;
    }
    let mut failures = vec![];
    // ---- (a) what the contract wrote
    let by_contract = matches!(ctx.kind, "instantiate" | "execute" | "migrate");
    let mut n_written = 0;
    if by_contract {
        for (k, v) in &ctx.post.raw {
            if ctx.pre.get(k) == Some(v.as_slice()) {
                continue;
            }
            n_written += 1;
            let shown = || String::from_utf8_lossy(v).to_string();
            if let Some(key) = k.strip_prefix(ASK_PREFIX) {
                let key = id_str(key);
                match format::ask_of(v) {
                    Ok(a) => {
                        let drift_before = ctx.pre.ask(&key).map(|p| p.id == a.id).unwrap_or(false);
                        if a.id != key && !drift_before {
                            failures.push(format!("ask written under key {key} names itself {}", a.id));
                        }
                    }
                    Err(why) => failures.push(format!(
                        "ask {key} was written in a shape other than the released one ({why}): {}",
                        shown()
                    )),
                }
            } else if let Some(key) = k.strip_prefix(BID_PREFIX) {
                let key = id_str(key);
                match format::classify_bid(v) {
                    StoredBid::Current(b) => {
                        let drift_before = ctx.pre.bid(&key).map(|p| p.id == b.id).unwrap_or(false);
                        if b.id != key && !drift_before {
                            failures.push(format!("bid written under key {key} names itself {}", b.id));
                        }
                    }
                    StoredBid::Legacy(_) => failures.push(format!(
                        "bid {key} was written in the legacy (event log) format: {}",
                        shown()
                    )),
                    StoredBid::Malformed { shape, why } => failures.push(format!(
                        "bid {key} was written in a shape other than the released one ({}; {why}): {}",
                        shape_name(shape),
                        shown()
                    )),
                }
            } else if k.as_slice() == CONTRACT_INFO_KEY {
                if let Err(why) = format::config_of(v) {
                    failures.push(format!(
                        "the configuration was written in a shape other than the released one ({why}): {}",
                        shown()
                    ));
                }
            } else if k.as_slice() == VERSION_INFO_KEY {
                if let Err(why) = format::version_of(v) {
                    failures.push(format!(
                        "the version record was written in a shape other than the released one ({why}): {}",
                        shown()
                    ));
                }
            } else {
                failures.push(format!(
                    "a storage entry the released contract does not have was written: key {:?} = {}",
                    String::from_utf8_lossy(k),
                    shown()
                ));
            }
        }
        // an entry that disappeared can only be an order
        for (k, _) in &ctx.pre.raw {
            if ctx.post.get(k).is_none() && !k.starts_with(ASK_PREFIX) && !k.starts_with(BID_PREFIX) {
                failures.push(format!("the storage entry {:?} was removed", String::from_utf8_lossy(k)));
            }
        }
    }
    // ---- (b) what the contract reads back
    let (mut n_read, mut n_unjudged) = (0, 0);
    for (k, v) in ctx.post.asks() {
        let key = id_str(k);
        if format::ask_of(v).is_err() {
            n_unjudged += 1;
            continue;
        }
        if !uuid_parses(&key) {
            n_unjudged += 1;
            continue;
        }
        n_read += 1;
        match query_value(world, QueryMsg::GetAsk { id: key.clone() }) {
            Ok(ans) if Some(&ans) == json_of(v).as_ref() => {}
            Ok(ans) => failures.push(format!(
                "get_ask {key} answers {ans}, the stored record is {}",
                String::from_utf8_lossy(v)
            )),
            Err(e) => failures.push(format!(
                "get_ask {key} fails ({e}) although a released-format ask is stored: {}",
                String::from_utf8_lossy(v)
            )),
        }
    }
    let mut legacy_left: Vec<String> = vec![];
    for (k, v) in ctx.post.bids() {
        let key = id_str(k);
        let stored = format::classify_bid(v);
        if let StoredBid::Legacy(_) = &stored {
            legacy_left.push(key.clone());
        }
        if matches!(stored, StoredBid::Malformed { .. }) || !uuid_parses(&key) {
            n_unjudged += 1;
            continue;
        }
        n_read += 1;
        let answer = query_value(world, QueryMsg::GetBid { id: key.clone() });
        match (stored, answer) {
            (StoredBid::Current(_), Ok(ans)) if Some(&ans) == json_of(v).as_ref() => {}
            (StoredBid::Current(_), Ok(ans)) => failures.push(format!(
                "get_bid {key} answers {ans}, the stored record is {}",
                String::from_utf8_lossy(v)
            )),
            (StoredBid::Current(_), Err(e)) => failures.push(format!(
                "get_bid {key} fails ({e}) although a released-format bid is stored: {}",
                String::from_utf8_lossy(v)
            )),
            // a legacy-format record is either not served, or served as what it says:
            // original amounts, accumulated = sums over its event log
            (StoredBid::Legacy(_), Err(_)) => {}
            (StoredBid::Legacy(l), Ok(ans)) => {
                let says = l.as_current().map(|b| format::bid_value(&b));
                if says.as_ref() != Some(&ans) {
                    failures.push(format!(
                        "get_bid {key} answers {ans} for a legacy-format record that says {} (original minus event sums {:?}): {}",
                        says.map(|s| s.to_string()).unwrap_or_else(|| "nothing representable".to_string()),
                        l.sums(),
                        String::from_utf8_lossy(v)
                    ));
                }
            }
            (StoredBid::Malformed { .. }, _) => {}
        }
    }
    for (what, key, msg) in [
        ("contract_info", CONTRACT_INFO_KEY, QueryMsg::GetContractInfo {}),
        ("version_info", VERSION_INFO_KEY, QueryMsg::GetVersionInfo {}),
    ] {
        let raw = match ctx.post.get(key) {
            Some(r) => r,
            None => continue,
        };
        let golden = if what == "contract_info" {
            format::config_of(raw).is_ok()
        } else {
            format::version_of(raw).is_ok()
        };
        if !golden {
            n_unjudged += 1;
            continue;
        }
        n_read += 1;
        match query_value(world, msg) {
            Ok(ans) if Some(&ans) == json_of(raw).as_ref() => {}
            Ok(ans) => failures.push(format!(
                "get_{what} answers {ans}, the stored record is {}",
                String::from_utf8_lossy(raw)
            )),
            Err(e) => failures.push(format!(
                "get_{what} fails ({e}) although a released-format record is stored: {}",
                String::from_utf8_lossy(raw)
            )),
        }
    }
    // ---- (c) a migration out of the conversion window's versions leaves no legacy-format bid
    if ctx.kind == "migrate" {
        let from = ctx.pre.version().map(|v| v.version);
        if in_conversion_window(from.as_deref()) && !legacy_left.is_empty() {
            failures.push(format!(
                "after the migration from {} the bid(s) {} are still in the legacy format (no later request can read them)",
                from.unwrap_or_default(),
                legacy_left.join(", ")
            ));
        }
    }
    verdict(
        failures,
        format!(
            "{n_written} written record(s) in the released shape, {n_read} stored record(s) read back faithfully ({n_unjudged} not judged)"
        ),
    )
}

#[cfg(test)]
mod tests {
    use super::*;

    #[test]
    fn uuid_forms_agree_with_the_uuid_crate() {
        let base = "a0000000-0000-4000-8000-00000000000b";
        let mut cases: Vec<String> = vec![
            base.into(),
            base.to_uppercase(),
            base.replace('-', ""),
            format!("{{{base}}}"),
            format!("urn:uuid:{base}"),
            format!("{{{}}}", base.replace('-', "")),
            "".into(),
            "abc".into(),
            "a0000000-0000-4000-8000-00000000000".into(),
            "a0000000-0000-4000-8000-00000000000bb".into(),
            "a0000000-0000-4000-8000_00000000000b".into(),
            "g0000000-0000-4000-8000-00000000000b".into(),
            "a00000000000-4000-8000-0000-0000000b".into(),
            "a0000000-0000-4000-800000000000000b-".into(),
        ];
        cases.push(base.replace('-', "").to_uppercase());
        for c in cases {
            assert_eq!(uuid_parses(&c), uuid::Uuid::parse_str(&c).is_ok(), "{c}");
            let canonical = uuid::Uuid::parse_str(&c).map(|u| u.hyphenated().to_string() == c).unwrap_or(false);
            assert_eq!(canonical_uuid(&c), canonical, "{c}");
        }
    }
}
