//! Exact (unbounded-precision) arithmetic and independent re-statements of the parsing rules
//! the new oracles need.  Nothing in here calls into the contract.
//!
//! A decimal string is read with `rust_decimal`'s parser (that *is* the meaning of "the price /
//! rate parses", the uninterpreted `parse_dec` of /verif/spec) and is then only used through its
//! exact mantissa and scale; every product, quotient and rounding below is integer arithmetic in
//! 256 / 512 bits, never `Decimal` arithmetic.

use cosmwasm_std::{Uint128, Uint256, Uint512};
use rust_decimal::Decimal;
use std::cmp::Ordering;
use std::str::FromStr;

/// value = (-1)^neg * mant / 10^scale, mant < 2^96, scale <= 28
#[derive(Clone, Copy, Debug)]
pub struct Dec {
    pub neg: bool,
    pub mant: u128,
    pub scale: u32,
}

pub const LIMIT96: u128 = 1u128 << 96;

pub fn pow10(k: u32) -> u128 {
    10u128.pow(k.min(38))
}

fn u256(x: u128) -> Uint256 {
    Uint256::from(x)
}

fn to_u128(x: Uint256) -> Option<u128> {
    Uint128::try_from(x).ok().map(|v| v.u128())
}

pub fn parse_dec(s: &str) -> Option<Dec> {
    let d = Decimal::from_str(s).ok()?;
    let m = d.mantissa();
    Some(Dec {
        neg: m < 0,
        mant: m.unsigned_abs(),
        scale: d.scale(),
    })
}

impl Dec {
    pub fn is_positive(&self) -> bool {
        !self.neg && self.mant > 0
    }
    /// numeric comparison (2 == 2.0 == 2.00)
    pub fn cmp_value(&self, other: &Dec) -> Ordering {
        let sa = if self.mant == 0 { 0 } else if self.neg { -1 } else { 1 };
        let sb = if other.mant == 0 { 0 } else if other.neg { -1 } else { 1 };
        if sa != sb {
            return sa.cmp(&sb);
        }
        let a = Uint128::new(self.mant).full_mul(pow10(other.scale));
        let b = Uint128::new(other.mant).full_mul(pow10(self.scale));
        if sa >= 0 {
            a.cmp(&b)
        } else {
            b.cmp(&a)
        }
    }
    pub fn eq_value(&self, other: &Dec) -> bool {
        self.cmp_value(other) == Ordering::Equal
    }
    /// value * 10^precision is an integer
    pub fn within_precision(&self, precision: u32) -> bool {
        let p = Uint128::new(self.mant).full_mul(pow10(precision));
        (p % u256(pow10(self.scale))).is_zero()
    }
    /// |value| * n as an exact fraction over 10^scale
    pub fn times(&self, n: u128) -> Product {
        let p = Uint128::new(self.mant).full_mul(n);
        let den = u256(pow10(self.scale));
        Product {
            whole: (p % den).is_zero(),
            quot: p / den,
            num: p,
        }
    }
}

pub struct Product {
    /// the product is an integer
    pub whole: bool,
    /// floor of the product
    pub quot: Uint256,
    /// mant * n (the product times 10^scale)
    pub num: Uint256,
}

impl Product {
    /// the product as u128, if it is an integer that fits
    pub fn whole_u128(&self) -> Option<u128> {
        if self.whole {
            to_u128(self.quot)
        } else {
            None
        }
    }
}

/// rate * amount rounded half away from zero; `None` if the result is negative (nonzero) or does
/// not fit 128 bits
pub fn fee_of(rate: &Dec, amount: u128) -> Option<u128> {
    let num = Uint512::from(Uint128::new(rate.mant).full_mul(amount));
    let den = Uint512::from(pow10(rate.scale));
    let two = Uint512::from(2u32);
    let r = (num * two + den) / (den * two);
    let r = Uint256::try_from(r).ok().and_then(to_u128)?;
    if rate.neg && r != 0 {
        None
    } else {
        Some(r)
    }
}

/// The pro-rata share `fee * num / den` as /verif/spec defines it (`prorata` in 00_math.rs):
/// the quotient num/den formed by the decimal library's division (28 digits), multiplied by the
/// fee with the library's (rounded) product, and the result rounded half away from zero.  Only
/// the division and the product are the library's; the rounding is done here on the exact
/// mantissa.  The statement of C09 leaves the outcome at an exact half-unit tie open ("the next
/// lower unit is accepted as well"); the spec files pin it to this one function and so does
/// this oracle.  `None` when the library refuses the operation (den = 0, overflow).
pub fn prorata(fee: u128, num: u128, den: u128) -> Option<u128> {
    use rust_decimal::prelude::FromPrimitive;
    if den == 0 {
        return None;
    }
    let ratio = Decimal::from_u128(num)?.checked_div(Decimal::from_u128(den)?)?;
    let x = ratio.checked_mul(Decimal::from_u128(fee)?)?;
    let m = x.mantissa();
    if m < 0 {
        return None;
    }
    let den10 = Uint512::from(pow10(x.scale()));
    let two = Uint512::from(2u32);
    let r = (Uint512::from(m as u128) * two + den10) / (den10 * two);
    Uint256::try_from(r).ok().and_then(to_u128)
}

/// the canonical hyphenated lower-case form 8-4-4-4-12 of a UUID
pub fn canonical_uuid(s: &str) -> bool {
    let b = s.as_bytes();
    if b.len() != 36 {
        return false;
    }
    b.iter().enumerate().all(|(i, c)| match i {
        8 | 13 | 18 | 23 => *c == b'-',
        _ => c.is_ascii_digit() || (b'a'..=b'f').contains(c),
    })
}

#[derive(Clone, Copy, Debug, PartialEq, Eq)]
pub struct Ver {
    pub major: u64,
    pub minor: u64,
    pub patch: u64,
    pub pre: bool,
}

impl Ver {
    pub fn at_least(&self, a: u64, b: u64, c: u64) -> bool {
        (self.major, self.minor, self.patch) >= (a, b, c)
    }
}

fn numeric_id(s: &str) -> Option<u64> {
    if s.is_empty() || !s.bytes().all(|c| c.is_ascii_digit()) {
        return None;
    }
    if s.len() > 1 && s.starts_with('0') {
        return None;
    }
    s.parse::<u64>().ok()
}

fn ident_ok(s: &str, numeric_no_leading_zero: bool) -> bool {
    if s.is_empty() {
        return false;
    }
    s.split('.').all(|id| {
        !id.is_empty()
            && id.bytes().all(|c| c.is_ascii_alphanumeric() || c == b'-')
            && !(numeric_no_leading_zero
                && id.bytes().all(|c| c.is_ascii_digit())
                && id.len() > 1
                && id.starts_with('0'))
    })
}

/// SemVer 2.0: MAJOR.MINOR.PATCH[-pre][+build]
pub fn parse_semver(s: &str) -> Option<Ver> {
    let (rest, build) = match s.split_once('+') {
        Some((r, b)) => (r, Some(b)),
        None => (s, None),
    };
    if let Some(b) = build {
        if !ident_ok(b, false) {
            return None;
        }
    }
    let (core, pre) = match rest.split_once('-') {
        Some((c, p)) => (c, Some(p)),
        None => (rest, None),
    };
    if let Some(p) = pre {
        if !ident_ok(p, true) {
            return None;
        }
    }
    let mut it = core.split('.');
    let major = numeric_id(it.next()?)?;
    let minor = numeric_id(it.next()?)?;
    let patch = numeric_id(it.next()?)?;
    if it.next().is_some() {
        return None;
    }
    Some(Ver {
        major,
        minor,
        patch,
        pre: pre.is_some(),
    })
}

/// What the chain API of this test bed accepts as an address (`MockApi::addr_validate`):
/// 3..=90 bytes, already in lower case, no trailing NUL.  `None` for non-ASCII input (not judged).
pub fn valid_addr(s: &str) -> Option<bool> {
    if !s.is_ascii() {
        return None;
    }
    Some(
        s.len() >= 3
            && s.len() <= 90
            && !s.bytes().any(|c| c.is_ascii_uppercase())
            && !s.ends_with('\0'),
    )
}

#[cfg(test)]
mod tests {
    use super::*;

    /// the hand-written SemVer reader agrees with the `semver` crate (parse, pre-release flag,
    /// and the three version gates the contract uses)
    #[test]
    fn semver_agrees_with_the_semver_crate() {
        let mut cases: Vec<String> = [
            "0.16.2", "1.0.0", "0.19.1-rc.1", "0.16.2+build.5", "10.20.30", "1.0.0-alpha-1", "1.2.3-0",
            "1.2.3-0a", "1.2.3-a.b.c+x.y", "0.16.1", "0.16.2-rc.1", "0.16.3", "0.17.0", "0.18.2", "0.19.0",
            "0.19.0+b1", "0.19.1-beta", "0.19.1", "0.19.2", "0.20.0", "1.0.0-rc.1", "0.15.0", "0.9.9", "0.16",
            "abc", "", "01.0.0", "2.3.4", "0.16.2+build", "0.16.10", "1.0.1", "1.0.0-", "1.0.0+", "1.0.0-01",
            "1.0.0-a..b", "1.0.0.0", " 1.0.0", "1.0.0 ", "v1.0.0", "1.0", "1", "1.0.0-a+b-c", "1.0.0+a+b",
            "99999999999999999999.0.0", "0.0.0", "1.00.0", "1.0.0-rc_1", "1.0.0-\u{e9}",
        ]
        .iter()
        .map(|s| s.to_string())
        .collect();
        for a in 0..3u64 {
            for b in [0u64, 15, 16, 19, 20] {
                for c in 0..3u64 {
                    cases.push(format!("{a}.{b}.{c}"));
                    cases.push(format!("{a}.{b}.{c}-x"));
                }
            }
        }
        let gate = semver::VersionReq::parse(">=0.16.2").unwrap();
        let window = semver::VersionReq::parse(">=0.16.2, <0.19.1").unwrap();
        let below = semver::VersionReq::parse("<0.16.2").unwrap();
        for s in cases {
            let mine = parse_semver(&s);
            let theirs = semver::Version::parse(&s).ok();
            assert_eq!(mine.is_some(), theirs.is_some(), "parse {s:?}");
            if let (Some(m), Some(t)) = (mine, theirs) {
                assert_eq!(m.pre, !t.pre.is_empty(), "pre {s}");
                assert_eq!(!m.pre && m.at_least(0, 16, 2), gate.matches(&t), "gate {s}");
                assert_eq!(
                    !m.pre && m.at_least(0, 16, 2) && !m.at_least(0, 19, 1),
                    window.matches(&t),
                    "window {s}"
                );
                assert_eq!(!m.pre && !m.at_least(0, 16, 2), below.matches(&t), "below {s}");
            }
        }
    }

    #[test]
    fn rounding_and_products() {
        let half = parse_dec("0.5").unwrap();
        assert_eq!(fee_of(&half, 1), Some(1));
        assert_eq!(fee_of(&half, 5), Some(3));
        assert_eq!(fee_of(&half, 4), Some(2));
        assert_eq!(fee_of(&parse_dec("0.333").unwrap(), 10), Some(3));
        assert_eq!(fee_of(&parse_dec("-0.5").unwrap(), 1), None);
        assert_eq!(fee_of(&parse_dec("-0.001").unwrap(), 1), Some(0));
        assert_eq!(fee_of(&parse_dec("0").unwrap(), 12345), Some(0));
        let p = parse_dec("2.50").unwrap();
        assert!(p.eq_value(&parse_dec("2.5").unwrap()));
        assert!(p.within_precision(1) && !p.within_precision(0));
        assert_eq!(p.times(4).whole_u128(), Some(10));
        assert_eq!(p.times(3).whole_u128(), None);
        assert_eq!(parse_dec("1").unwrap().cmp_value(&parse_dec("1.01").unwrap()), Ordering::Less);
        // the pro-rata share: 15 * 5/6 = 12.5 is formed as 0.8333...(28 digits) * 15
        assert_eq!(prorata(15, 5, 6), Some(13));
        assert_eq!(prorata(3, 5, 6), Some(2)); // exact tie 2.5, the truncated quotient falls below it
        assert_eq!(prorata(10, 0, 7), Some(0));
        assert_eq!(prorata(10, 7, 7), Some(10));
        assert_eq!(prorata(1, 1, 0), None);
    }

    #[test]
    fn addresses() {
        use cosmwasm_std::testing::MockApi;
        use cosmwasm_std::Api;
        let api = MockApi::default();
        let long = "a".repeat(91);
        let max = "a".repeat(90);
        for s in ["", "ab", "abc", "exec", "Exec", "EXEC", "approver2", "a b", "abc\0", long.as_str(), max.as_str(), "x-y_z.9"] {
            assert_eq!(valid_addr(s), Some(api.addr_validate(s).is_ok()), "{s:?}");
        }
    }
}
