//! Randomised witness search: generates small histories step by step against the
//! live state of the real contract and stops at the first oracle violation.

use crate::gen2::{Scn2, P2};
use crate::oracles::{OracleSel, ORACLES};
use crate::run::{run_history, World};
use crate::format::{AskClass, AskRec, BidRec};
use rust_decimal::prelude::{FromPrimitive, ToPrimitive};
use rust_decimal::{Decimal, RoundingStrategy};
use serde_json::{json, Value};
use std::collections::{BTreeMap, VecDeque};
use std::str::FromStr;

// ---------------------------------------------------------------------------
// PRNG (splitmix64-seeded xorshift64*)
// ---------------------------------------------------------------------------

pub struct Rng(u64);

impl Rng {
    pub fn new(seed: u64) -> Rng {
        let mut z = seed.wrapping_add(0x9E37_79B9_7F4A_7C15);
        z = (z ^ (z >> 30)).wrapping_mul(0xBF58_476D_1CE4_E5B9);
        z = (z ^ (z >> 27)).wrapping_mul(0x94D0_49BB_1331_11EB);
        z ^= z >> 31;
        Rng(if z == 0 { 0x2545_F491_4F6C_DD1D } else { z })
    }
    pub fn next(&mut self) -> u64 {
        let mut x = self.0;
        x ^= x >> 12;
        x ^= x << 25;
        x ^= x >> 27;
        self.0 = x;
        x.wrapping_mul(0x2545_F491_4F6C_DD1D)
    }
    pub fn below(&mut self, n: u64) -> u64 {
        if n == 0 {
            0
        } else {
            (self.next() >> 11) % n
        }
    }
    /// inclusive range
    pub fn range(&mut self, lo: u128, hi: u128) -> u128 {
        if hi <= lo {
            lo
        } else {
            let span = (hi - lo + 1).min(u64::MAX as u128) as u64;
            lo + self.below(span) as u128
        }
    }
    pub fn chance(&mut self, pct: u64) -> bool {
        self.below(100) < pct
    }
    pub fn pick<'a, T>(&mut self, xs: &'a [T]) -> &'a T {
        &xs[self.below(xs.len() as u64) as usize]
    }
    /// index chosen proportionally to the weights
    pub fn weighted(&mut self, weights: &[u64]) -> usize {
        let total: u64 = weights.iter().sum();
        if total == 0 {
            return 0;
        }
        let mut r = self.below(total);
        for (i, w) in weights.iter().enumerate() {
            if r < *w {
                return i;
            }
            r -= *w;
        }
        weights.len() - 1
    }
}

// ---------------------------------------------------------------------------
// scenario
// ---------------------------------------------------------------------------

#[derive(Clone, Copy, PartialEq, Debug)]
enum Profile {
    Default,
    Convertible,
    Fees,
    Nonlot,
    Markers,
    /// the profiles of the second-generation generator (gen2.rs)
    New(P2),
}

impl Profile {
    fn parse(s: &str) -> Option<Profile> {
        match s {
            "default" => Some(Profile::Default),
            "convertible" => Some(Profile::Convertible),
            "fees" => Some(Profile::Fees),
            "nonlot" => Some(Profile::Nonlot),
            "markers" => Some(Profile::Markers),
            "auth" => Some(Profile::New(P2::Auth)),
            "config" => Some(Profile::New(P2::Config)),
            "admission" => Some(Profile::New(P2::Admission)),
            "match" => Some(Profile::New(P2::Match)),
            "migration" => Some(Profile::New(P2::Migration)),
            "instantiate" => Some(Profile::New(P2::Instantiate)),
            _ => None,
        }
    }
}

/// Which profiles generate the steps an oracle speaks about (`--profile auto` cycles through
/// them; `search --oracle all --profile P` evaluates the oracles registered for P).
pub fn profiles_for(oracle: &str) -> &'static [&'static str] {
    match oracle {
        "authorization" => &["auth", "config", "default", "convertible", "markers"],
        "config_change" => &["config", "auth", "default", "fees"],
        "migration" => &["migration"],
        "admission" => &["admission", "default", "markers", "fees"],
        "match_eligibility" | "settlement" => {
            &["match", "migration", "default", "convertible", "fees", "nonlot", "markers"]
        }
        "queries" => &["match", "config", "migration", "admission", "default"],
        "attributes" => &["match", "auth", "admission", "default", "convertible", "fees", "nonlot", "migration"],
        "instantiate_coherence" => &["instantiate"],
        // every profile builds a book or a configuration
        "storage_format" => &[
            "migration", "instantiate", "config", "match", "admission", "auth", "default",
            "convertible", "fees", "nonlot", "markers",
        ],
        // the state-level oracles: every profile whose books are produced by requests only
        _ => &[
            "default", "convertible", "fees", "nonlot", "markers", "auth", "config", "admission",
            "match",
        ],
    }
}

fn oracles_for_profile(profile: &str) -> Vec<String> {
    ORACLES
        .iter()
        .filter(|o| profiles_for(o).contains(&profile))
        .map(|o| o.to_string())
        .collect()
}

const FEE_RATES: [&str; 6] = ["0.01", "0.1", "0.5", "0.005", "0.333", "1"];
const PRICES: [&str; 9] = ["1", "2", "2.5", "10", "100", "0.5", "0.25", "1.5", "3"];
const MARKER_TYPES: [&str; 3] = ["restricted", "coin", "none"];

enum Planned {
    CreateAsk,
    CreateBid,
    Approve(String),
}

struct Scn {
    profile: Profile,
    has_con: bool,
    precision: u32,
    increment: u128,
    ask_fee: Option<(String, String)>,
    bid_fee: Option<(String, String)>,
    sellers: Vec<String>,
    buyers: Vec<String>,
    approver: String,
    exec: String,
    prices: Vec<&'static str>,
    markers: BTreeMap<String, String>,
    next_id: u32,
    plan: VecDeque<Planned>,
}

fn dec(s: &str) -> Decimal {
    Decimal::from_str(s).unwrap_or(Decimal::ONE)
}

fn price_ok(price: &str, precision: u32) -> bool {
    let p = dec(price);
    (p * Decimal::from(10u64.pow(precision))).fract().is_zero()
}

fn fee_for(rate: &str, total: u128) -> u128 {
    Decimal::from_u128(total)
        .and_then(|t| dec(rate).checked_mul(t))
        .map(|f| f.round_dp_with_strategy(0, RoundingStrategy::MidpointAwayFromZero))
        .and_then(|f| f.to_u128())
        .unwrap_or(0)
}

impl Scn {
    fn generate(rng: &mut Rng, profile: Profile) -> Scn {
        let has_con = match profile {
            Profile::Convertible => true,
            Profile::Markers => rng.chance(70),
            // pure families: no convertible asks, so that D1-style hits do not mask them
            Profile::Fees | Profile::Nonlot => false,
            Profile::Default | Profile::New(_) => rng.chance(50),
        };
        let (precision, increment) = match profile {
            Profile::Fees => (0u32, 1u128),
            Profile::Nonlot => {
                let inc = *rng.pick(&[10u128, 10, 100]);
                let max_p = if inc == 10 { 1 } else { 2 };
                (rng.below(max_p + 1) as u32, inc)
            }
            _ => {
                let precision = rng.below(3) as u32;
                let mut incs: Vec<u128> = vec![1, 10, 100];
                incs.retain(|i| i % 10u128.pow(precision) == 0);
                (precision, *rng.pick(&incs))
            }
        };
        let fee_pct = match profile {
            Profile::Fees => 90,
            _ => 45,
        };
        let ask_fee = if rng.chance(fee_pct) {
            let acct = match rng.below(100) {
                0..=69 => "askfee",
                70..=84 => "approver",
                _ => "seller1",
            };
            Some((rng.pick(&FEE_RATES).to_string(), acct.to_string()))
        } else {
            None
        };
        let bid_fee = if rng.chance(fee_pct) {
            let acct = match rng.below(100) {
                0..=69 => "bidfee",
                70..=84 => "buyer1",
                _ => "approver",
            };
            Some((rng.pick(&FEE_RATES).to_string(), acct.to_string()))
        } else {
            None
        };
        let mut buyers = vec!["buyer1".to_string(), "buyer2".to_string()];
        if rng.chance(10) {
            buyers.push("seller1".to_string());
        }
        let approver = if rng.chance(5) { "exec" } else { "approver" }.to_string();

        let mut markers = BTreeMap::new();
        let denoms = ["base", "con", "usd"];
        match profile {
            Profile::Markers => {
                for d in denoms {
                    markers.insert(d.to_string(), rng.pick(&MARKER_TYPES).to_string());
                }
                if !markers.values().any(|v| v == "restricted") {
                    let d = *rng.pick(&denoms);
                    markers.insert(d.to_string(), "restricted".to_string());
                }
            }
            _ => {
                let all = match profile {
                    Profile::Default => rng.chance(50),
                    _ => rng.chance(15),
                };
                for d in denoms {
                    let t = if all {
                        *rng.pick(&MARKER_TYPES)
                    } else {
                        *rng.pick(&["coin", "none"])
                    };
                    markers.insert(d.to_string(), t.to_string());
                }
            }
        }
        if !has_con {
            markers.remove("con");
        }

        let prices: Vec<&'static str> = PRICES
            .iter()
            .copied()
            .filter(|p| price_ok(p, precision))
            .collect();

        let mut plan = VecDeque::new();
        let n_asks = rng.range(1, 3);
        let n_bids = rng.range(1, 3);
        let (mut a, mut b) = (n_asks, n_bids);
        while a + b > 0 {
            if b == 0 || (a > 0 && rng.chance(55)) {
                plan.push_back(Planned::CreateAsk);
                a -= 1;
            } else {
                plan.push_back(Planned::CreateBid);
                b -= 1;
            }
        }

        Scn {
            profile,
            has_con,
            precision,
            increment,
            ask_fee,
            bid_fee,
            sellers: vec!["seller1".to_string(), "seller2".to_string()],
            buyers,
            approver,
            exec: "exec".to_string(),
            prices,
            markers,
            next_id: 0,
            plan,
        }
    }

    fn header(&self) -> Value {
        let conv: Vec<&str> = if self.has_con { vec!["con"] } else { vec![] };
        json!({
            "markers": self.markers,
            "attributes": {},
            "instantiate": {
                "sender": "admin",
                "msg": {
                    "name": "ats-replay-search",
                    "base_denom": "base",
                    "convertible_base_denoms": conv,
                    "supported_quote_denoms": ["usd"],
                    "approvers": [self.approver],
                    "executors": [self.exec],
                    "ask_fee_rate": self.ask_fee.as_ref().map(|f| f.0.clone()),
                    "ask_fee_account": self.ask_fee.as_ref().map(|f| f.1.clone()),
                    "bid_fee_rate": self.bid_fee.as_ref().map(|f| f.0.clone()),
                    "bid_fee_account": self.bid_fee.as_ref().map(|f| f.1.clone()),
                    "ask_required_attributes": [],
                    "bid_required_attributes": [],
                    "price_precision": self.precision.to_string(),
                    "size_increment": self.increment.to_string(),
                }
            },
        })
    }

    fn marker(&self, denom: &str) -> &str {
        self.markers.get(denom).map(|s| s.as_str()).unwrap_or("none")
    }

    fn new_id(&mut self, side: char) -> String {
        self.next_id += 1;
        // a = ask, b = bid; any hyphenated lower-case hex string of UUID shape is accepted
        format!("{}0000000-0000-4000-8000-{:012x}", side, self.next_id)
    }

    fn funds(&self, denom: &str, amount: u128) -> Value {
        if self.marker(denom) == "restricted" {
            json!([])
        } else {
            json!([{"denom": denom, "amount": amount.to_string()}])
        }
    }

    fn maybe_wrong(&self, rng: &mut Rng, right: &str) -> String {
        if rng.chance(10) {
            let all = [
                "seller1", "seller2", "buyer1", "buyer2", "approver", "exec", "askfee", "bidfee",
            ];
            rng.pick(&all).to_string()
        } else {
            right.to_string()
        }
    }

    fn pick_price(&self, rng: &mut Rng, low_bias: Option<bool>) -> String {
        if self.prices.is_empty() {
            return "1".to_string();
        }
        match (self.profile, low_bias) {
            (Profile::Fees, Some(low)) if rng.chance(70) => {
                // spread asks low and bids high so that price improvement happens
                let mut sorted = self.prices.clone();
                sorted.sort_by_key(|p| dec(p));
                let half = (sorted.len() + 1) / 2;
                let slice = if low {
                    &sorted[..half]
                } else {
                    &sorted[sorted.len() - half..]
                };
                rng.pick(slice).to_string()
            }
            _ => rng.pick(&self.prices).to_string(),
        }
    }

    fn create_ask(&mut self, rng: &mut Rng) -> Value {
        let con_pct = match self.profile {
            Profile::Convertible => 85,
            _ => 50,
        };
        let base = if self.has_con && rng.chance(con_pct) {
            "con"
        } else {
            "base"
        };
        let id = self.new_id('a');
        let size = self.increment * rng.range(1, 5);
        let price = self.pick_price(rng, Some(true));
        let seller = rng.pick(&self.sellers).clone();
        if base == "con" && rng.chance(80) {
            self.plan.push_front(Planned::Approve(id.clone()));
        }
        json!({
            "execute": {"create_ask": {
                "id": id, "base": base, "quote": "usd", "price": price, "size": size.to_string()
            }},
            "sender": seller,
            "funds": self.funds(base, size),
        })
    }

    fn create_bid(&mut self, rng: &mut Rng, world: &World) -> Value {
        let id = self.new_id('b');
        let size = self.increment * rng.range(1, 5);
        let price = self.pick_price(rng, Some(false));
        let total = (dec(&price) * Decimal::from_u128(size).unwrap_or(Decimal::ONE))
            .to_u128()
            .unwrap_or(0);
        // the live rate (modify_contract may have changed it since instantiation)
        let live_rate: Option<String> = match world.contract_info() {
            Some(ci) => ci.bid_fee_info.map(|f| f.rate),
            None => self.bid_fee.as_ref().map(|f| f.0.clone()),
        };
        let fee_amount = live_rate.map(|rate| fee_for(&rate, total));
        let fee = match fee_amount {
            Some(f) if f > 0 => Some(f),
            Some(_) if rng.chance(10) => Some(0),
            _ => None,
        };
        let buyer = rng.pick(&self.buyers).clone();
        json!({
            "execute": {"create_bid": {
                "id": id, "base": "base",
                "fee": fee.map(|f| json!({"denom": "usd", "amount": f.to_string()})),
                "price": price, "quote": "usd",
                "quote_size": total.to_string(), "size": size.to_string()
            }},
            "sender": buyer,
            "funds": self.funds("usd", total + fee.unwrap_or(0)),
        })
    }

    fn approve(&self, rng: &mut Rng, ask: &AskRec) -> Value {
        json!({
            "execute": {"approve_ask": {"id": ask.id, "base": "base", "size": ask.size.to_string()}},
            "sender": self.maybe_wrong(rng, &self.approver),
            "funds": self.funds("base", ask.size),
        })
    }

    fn exec_step(&self, rng: &mut Rng, right_sender: &str, msg: Value) -> Value {
        json!({"execute": msg, "sender": self.maybe_wrong(rng, right_sender), "funds": []})
    }

    /// Next step, generated from the live state of the world.
    fn gen_step(&mut self, rng: &mut Rng, world: &World) -> Value {
        let book = world.book();
        let asks: Vec<AskRec> = book.v1_asks().cloned().collect();
        let bids: Vec<BidRec> = book.v3_bids().cloned().collect();

        while let Some(p) = self.plan.pop_front() {
            match p {
                Planned::CreateAsk => return self.create_ask(rng),
                Planned::CreateBid => return self.create_bid(rng, world),
                Planned::Approve(id) => {
                    if let Some(a) = asks.iter().find(|a| a.id == id) {
                        return self.approve(rng, a);
                    }
                }
            }
        }

        let pending: Vec<&AskRec> = asks
            .iter()
            .filter(|a| matches!(a.class, AskClass::Pending))
            .collect();
        let matchable: Vec<&AskRec> = asks
            .iter()
            .filter(|a| !matches!(a.class, AskClass::Pending))
            .collect();

        let has_a = !asks.is_empty();
        let has_b = !bids.is_empty();
        let can_match = !matchable.is_empty() && has_b;
        // order: match, reject_ask, reject_bid, expire_ask, expire_bid, cancel_ask, cancel_bid,
        //        modify, create_ask, create_bid, approve
        let mut w: [u64; 11] = match self.profile {
            Profile::Convertible => [25, 25, 5, 5, 3, 15, 5, 3, 6, 4, 10],
            Profile::Fees => [50, 5, 10, 3, 5, 4, 8, 5, 4, 6, 4],
            Profile::Nonlot => [40, 6, 8, 8, 8, 8, 8, 2, 4, 4, 4],
            Profile::Markers => [35, 10, 8, 5, 5, 10, 10, 2, 5, 5, 8],
            Profile::Default | Profile::New(_) => [30, 12, 10, 6, 6, 10, 10, 4, 5, 5, 8],
        };
        if !can_match {
            w[0] = 0;
        }
        if !has_a {
            w[1] = 0;
            w[3] = 0;
            w[5] = 0;
        }
        if !has_b {
            w[2] = 0;
            w[4] = 0;
            w[6] = 0;
        }
        if pending.is_empty() {
            w[10] = 0;
        }

        match rng.weighted(&w) {
            0 => {
                // try a few pairs for overlapping prices
                let mut ask = *rng.pick(&matchable);
                let mut bid = rng.pick(&bids);
                for _ in 0..4 {
                    if dec(&ask.price) <= dec(&bid.price) {
                        break;
                    }
                    ask = *rng.pick(&matchable);
                    bid = rng.pick(&bids);
                }
                let price = if rng.chance(50) {
                    ask.price.clone()
                } else {
                    bid.price.clone()
                };
                let rem = bid.base.amount.saturating_sub(bid.accumulated_base);
                let max = ask.size.min(rem).max(1);
                let arbitrary_pct = if self.profile == Profile::Nonlot { 70 } else { 30 };
                let size = if rng.chance(arbitrary_pct) {
                    rng.range(1, max)
                } else if rng.chance(55) || max < self.increment {
                    max
                } else {
                    self.increment * rng.range(1, max / self.increment)
                };
                self.exec_step(
                    rng,
                    &self.exec,
                    json!({"execute_match": {
                        "ask_id": ask.id, "bid_id": bid.id, "price": price, "size": size.to_string()
                    }}),
                )
            }
            1 => {
                let ask = rng.pick(&asks);
                let lots = (ask.size / self.increment).max(1);
                let size = if rng.chance(75) {
                    Some((self.increment * rng.range(1, lots)).to_string())
                } else {
                    None
                };
                self.exec_step(
                    rng,
                    &self.exec,
                    json!({"reject_ask": {"id": ask.id, "size": size}}),
                )
            }
            2 => {
                let bid = rng.pick(&bids);
                let rem = bid.base.amount.saturating_sub(bid.accumulated_base);
                let lots = (rem / self.increment).max(1);
                let size = if rng.chance(75) {
                    Some((self.increment * rng.range(1, lots)).to_string())
                } else {
                    None
                };
                self.exec_step(
                    rng,
                    &self.exec,
                    json!({"reject_bid": {"id": bid.id, "size": size}}),
                )
            }
            3 => {
                let ask = rng.pick(&asks);
                self.exec_step(rng, &self.exec, json!({"expire_ask": {"id": ask.id}}))
            }
            4 => {
                let bid = rng.pick(&bids);
                self.exec_step(rng, &self.exec, json!({"expire_bid": {"id": bid.id}}))
            }
            5 => {
                let ask = rng.pick(&asks);
                self.exec_step(rng, ask.owner.as_str(), json!({"cancel_ask": {"id": ask.id}}))
            }
            6 => {
                let bid = rng.pick(&bids);
                self.exec_step(rng, bid.owner.as_str(), json!({"cancel_bid": {"id": bid.id}}))
            }
            7 => {
                // change a fee account (same rate, so that it is allowed with open orders)
                let ci = world.contract_info();
                let ask_side = rng.chance(50);
                let cur = ci.as_ref().and_then(|c| {
                    if ask_side {
                        c.ask_fee_info.clone()
                    } else {
                        c.bid_fee_info.clone()
                    }
                });
                let rate = match cur {
                    Some(f) => f.rate,
                    None => rng.pick(&FEE_RATES).to_string(),
                };
                let acct = rng
                    .pick(&["askfee", "bidfee", "approver", "seller1", "buyer1", "feeacct2"])
                    .to_string();
                let (ar, aa, br, ba) = if ask_side {
                    (Some(rate), Some(acct), None, None)
                } else {
                    (None, None, Some(rate), Some(acct))
                };
                self.exec_step(
                    rng,
                    &self.exec,
                    json!({"modify_contract": {
                        "approvers": null, "executors": null,
                        "ask_fee_rate": ar, "ask_fee_account": aa,
                        "bid_fee_rate": br, "bid_fee_account": ba,
                        "ask_required_attributes": null, "bid_required_attributes": null
                    }}),
                )
            }
            8 => self.create_ask(rng),
            9 => self.create_bid(rng, world),
            _ => {
                if let Some(a) = pending.first() {
                    self.approve(rng, a)
                } else {
                    self.create_ask(rng)
                }
            }
        }
    }
}

// ---------------------------------------------------------------------------
// search driver
// ---------------------------------------------------------------------------

struct Hit {
    history: Value,
    step: usize,
    oracle: String,
}

fn with_steps(header: &Value, steps: &[Value]) -> Value {
    let mut h = header.clone();
    if let Some(o) = h.as_object_mut() {
        o.insert("steps".to_string(), Value::Array(steps.to_vec()));
    }
    h
}

/// index used for "the instantiate step" in a hit
const AT_INSTANTIATE: usize = usize::MAX;

/// First step (successful, or refused where an oracle judges refusals) at which a selected
/// oracle fails.
fn first_failure(history: &Value, sel: &OracleSel) -> Option<(usize, String)> {
    let (_, res) = run_history(history, sel, |_| {}).ok()?;
    if let Some(name) = res.instantiate.failing_oracles().into_iter().next() {
        return Some((AT_INSTANTIATE, name));
    }
    if !res.instantiate.ok {
        return None;
    }
    for s in &res.steps {
        if let Some(name) = s.failing_oracles().into_iter().next() {
            return Some((s.index, name));
        }
    }
    None
}

#[derive(Default)]
struct Stats {
    inst: u64,
    inst_ok: u64,
    steps: u64,
    steps_ok: u64,
    by_kind: BTreeMap<String, (u64, u64)>,
    errors: BTreeMap<String, u64>,
}

fn one_iteration(
    rng: &mut Rng,
    profile: Profile,
    max_steps: usize,
    sel: &OracleSel,
    stats: &mut Stats,
) -> Option<Hit> {
    enum G {
        Old(Scn),
        New(Scn2),
    }
    let mut scn = match profile {
        Profile::New(P2::Instantiate) => G::New(Scn2::generate_instantiate(rng)),
        Profile::New(p) => G::New(Scn2::generate(rng, p)),
        _ => G::Old(Scn::generate(rng, profile)),
    };
    let header = match &scn {
        G::Old(s) => s.header(),
        G::New(s) => s.header(),
    };
    let mut world = World::new(&header).ok()?;
    // the original profiles do not judge the instantiate step (behaviour unchanged), except for
    // the shape of the records it writes
    let inst_sel = match &scn {
        G::Old(_) if sel.wants("storage_format") => OracleSel::One("storage_format".to_string()),
        G::Old(_) => OracleSel::Nothing,
        G::New(_) => sel.clone(),
    };
    let inst = world.instantiate(header.get("instantiate"), &inst_sel);
    stats.inst += 1;
    if inst.ok {
        stats.inst_ok += 1;
    }
    if let Some(name) = inst.failing_oracles().into_iter().next() {
        return Some(Hit {
            history: with_steps(&header, &[]),
            step: AT_INSTANTIATE,
            oracle: name,
        });
    }
    if !inst.ok {
        return None;
    }
    let mut steps: Vec<Value> = vec![];
    // a scenario that planned a large book (dozens of raw records) gets the steps it needs on top of the budget
    let max_steps = max_steps + match &scn {
        G::New(s) => s.planned_len().saturating_sub(8),
        _ => 0,
    };
    for i in 0..max_steps {
        let step = match &mut scn {
            G::Old(s) => s.gen_step(rng, &world),
            G::New(s) => s.gen_step(rng, &world),
        };
        let out = world.step(i, &step, sel).ok()?;
        steps.push(step);
        stats.steps += 1;
        let e = stats
            .by_kind
            .entry(out.exec_kind.clone().unwrap_or_else(|| out.kind.clone()))
            .or_insert((0, 0));
        e.0 += 1;
        if out.ok {
            stats.steps_ok += 1;
            e.1 += 1;
        } else {
            let key = format!(
                "{}: {}",
                out.exec_kind.clone().unwrap_or_else(|| out.kind.clone()),
                out.error.clone().unwrap_or_default()
            );
            *stats.errors.entry(key).or_insert(0) += 1;
        }
        if let Some(name) = out.failing_oracles().into_iter().next() {
            return Some(Hit {
                history: with_steps(&header, &steps),
                step: i,
                oracle: name,
            });
        }
    }
    None
}

/// Greedy one-step-at-a-time removal while the same oracle still fails.
fn shrink(hit: Hit) -> Hit {
    let sel = OracleSel::One(hit.oracle.clone());
    let header = {
        let mut h = hit.history.clone();
        if let Some(o) = h.as_object_mut() {
            o.remove("steps");
        }
        h
    };
    let mut steps: Vec<Value> = hit
        .history
        .get("steps")
        .and_then(|s| s.as_array())
        .cloned()
        .unwrap_or_default();
    if hit.step == AT_INSTANTIATE {
        return Hit {
            history: with_steps(&header, &[]),
            step: hit.step,
            oracle: hit.oracle,
        };
    }
    steps.truncate(hit.step + 1);
    let mut fail_step = hit.step;
    for _pass in 0..4 {
        let mut changed = false;
        let mut i = steps.len();
        while i > 0 {
            i -= 1;
            if steps.len() <= 1 {
                break;
            }
            let mut cand = steps.clone();
            cand.remove(i);
            if let Some((fs, _)) = first_failure(&with_steps(&header, &cand), &sel) {
                if fs == AT_INSTANTIATE {
                    continue;
                }
                cand.truncate(fs + 1);
                steps = cand;
                fail_step = fs;
                changed = true;
                i = i.min(steps.len());
            }
        }
        if !changed {
            break;
        }
    }
    Hit {
        history: with_steps(&header, &steps),
        step: fail_step,
        oracle: hit.oracle,
    }
}

const SEARCH_USAGE: &str = "usage: ats-replay search --oracle <name|all|new> --seed <u64> --iters <n> [--max-steps k] [--out <file.json>] [--profile default|convertible|fees|nonlot|markers|auth|config|admission|match|migration|instantiate|auto] [--stats]
  --oracle all   every oracle registered for the profile;  --oracle new   the ten step-level oracles registered for it
  --profile auto cycles through the profiles registered for the oracle (see `ats-replay oracles --profiles`)";

pub fn cmd_search(args: &[String]) -> i32 {
    let mut oracle: Option<String> = None;
    let mut seed: Option<u64> = None;
    let mut iters: Option<u64> = None;
    let mut max_steps: Option<usize> = None;
    let mut out: Option<String> = None;
    let mut profile = Profile::Default;
    let mut profile_name = "default".to_string();
    let mut auto_profile = false;
    let mut profile_given = false;
    let mut show_stats = false;
    let mut i = 0;
    while i < args.len() {
        let key = args[i].as_str();
        if key == "--stats" {
            show_stats = true;
            i += 1;
            continue;
        }
        let val = args.get(i + 1);
        let need = |v: Option<&String>| -> Result<String, i32> {
            v.cloned().ok_or_else(|| {
                eprintln!("option {key} needs a value\n{SEARCH_USAGE}");
                2
            })
        };
        let r: Result<(), i32> = (|| {
            match key {
                "--oracle" => oracle = Some(need(val)?),
                "--seed" => {
                    seed = Some(need(val)?.parse::<u64>().map_err(|_| {
                        eprintln!("--seed must be a u64");
                        2
                    })?)
                }
                "--iters" => {
                    iters = Some(need(val)?.parse::<u64>().map_err(|_| {
                        eprintln!("--iters must be an unsigned integer");
                        2
                    })?)
                }
                "--max-steps" => {
                    max_steps = Some(need(val)?.parse::<usize>().map_err(|_| {
                        eprintln!("--max-steps must be an unsigned integer");
                        2
                    })?)
                }
                "--out" => out = Some(need(val)?),
                "--profile" => {
                    let v = need(val)?;
                    profile_given = true;
                    if v == "auto" {
                        auto_profile = true;
                    } else {
                        profile = Profile::parse(&v).ok_or_else(|| {
                            eprintln!("unknown profile {v}\n{SEARCH_USAGE}");
                            2
                        })?;
                    }
                    profile_name = v;
                }
                _ => {
                    eprintln!("unknown option {key}\n{SEARCH_USAGE}");
                    return Err(2);
                }
            }
            Ok(())
        })();
        if let Err(c) = r {
            return c;
        }
        i += 2;
    }
    let (oracle, seed, iters) = match (oracle, seed, iters) {
        (Some(o), Some(s), Some(n)) => (o, s, n),
        _ => {
            eprintln!("{SEARCH_USAGE}");
            return 2;
        }
    };
    if oracle != "all" && oracle != "new" && !ORACLES.contains(&oracle.as_str()) {
        eprintln!(
            "unknown oracle {oracle} (known: {}, all, new)",
            ORACLES.join(", ")
        );
        return 2;
    }
    if auto_profile && (oracle == "all" || oracle == "new") {
        eprintln!("--profile auto needs a single oracle\n{SEARCH_USAGE}");
        return 2;
    }
    // (profile, its name, oracle selection, history length) per iteration slot
    let plan_for = |name: &str| -> Option<(Profile, String, OracleSel, usize)> {
        let p = Profile::parse(name)?;
        let sel = match (oracle.as_str(), p) {
            // the original profiles keep "all" = every oracle
            ("all", Profile::New(_)) => OracleSel::Set(oracles_for_profile(name)),
            ("all", _) => OracleSel::All,
            ("new", _) => OracleSel::Set(
                oracles_for_profile(name)
                    .into_iter()
                    .filter(|o| crate::props::STEP_ORACLES.iter().any(|(n, _)| n == o))
                    .collect(),
            ),
            _ => OracleSel::One(oracle.clone()),
        };
        let steps = max_steps
            .unwrap_or(match p {
                Profile::New(p2) => Scn2::default_steps(p2),
                _ => 10,
            })
            .max(1);
        Some((p, name.to_string(), sel, steps))
    };
    // without --profile: the original oracles keep the profile "default"; a step-level oracle
    // cycles through the profiles registered for it
    if !profile_given && crate::props::STEP_ORACLES.iter().any(|(n, _)| *n == oracle) {
        auto_profile = true;
        profile_name = "auto".to_string();
    }
    let plans: Vec<(Profile, String, OracleSel, usize)> = if auto_profile {
        profiles_for(&oracle).iter().filter_map(|n| plan_for(n)).collect()
    } else {
        let _ = profile;
        plan_for(&profile_name).into_iter().collect()
    };
    if plans.is_empty() {
        eprintln!("no profile to run\n{SEARCH_USAGE}");
        return 2;
    }
    let mut stats = Stats::default();
    let print_stats = |stats: &Stats| {
        if show_stats {
            eprintln!(
                "stats: {} instantiate(s), {} succeeded; {} step(s) generated, {} succeeded",
                stats.inst, stats.inst_ok, stats.steps, stats.steps_ok
            );
            for (k, (n, ok)) in &stats.by_kind {
                eprintln!("stats:   {k}: {ok}/{n} ok");
            }
            let mut errs: Vec<(&String, &u64)> = stats.errors.iter().collect();
            errs.sort_by(|a, b| b.1.cmp(a.1));
            for (e, n) in errs.into_iter().take(25) {
                eprintln!("stats:   {n:6} x {e}");
            }
        }
    };

    for it in 0..iters {
        // independent, reproducible stream per iteration
        let mut rng = Rng::new(seed ^ it.wrapping_mul(0xA076_1D64_78BD_642F).rotate_left(17));
        let (profile, profile_name, sel, max_steps) = &plans[(it % plans.len() as u64) as usize];
        let (profile, max_steps) = (*profile, *max_steps);
        if let Some(hit) = one_iteration(&mut rng, profile, max_steps, sel, &mut stats) {
            let hit = shrink(hit);
            // was the judged step carried out or refused?
            let at_inst = hit.step == AT_INSTANTIATE;
            let carried_out = run_history(&hit.history, &OracleSel::Nothing, |_| {})
                .ok()
                .map(|(_, r)| {
                    if at_inst {
                        r.instantiate.ok
                    } else {
                        r.steps.get(hit.step).map(|s| s.ok).unwrap_or(true)
                    }
                })
                .unwrap_or(true);
            let file = out
                .clone()
                .unwrap_or_else(|| format!("hit-{}-seed{}.json", hit.oracle, seed));
            let mut h = hit.history.clone();
            if let Some(o) = h.as_object_mut() {
                o.insert(
                    "comment".to_string(),
                    json!(format!(
                        "found by: ats-replay search --oracle {oracle} --seed {seed} --iters {iters} --max-steps {max_steps} --profile {profile_name} (iteration {it}); oracle {} fails at {}",
                        hit.oracle,
                        if at_inst { "instantiate".to_string() } else { format!("step {}", hit.step) }
                    )),
                );
                let asserts = if at_inst {
                    json!([
                        {"assert": if carried_out { "instantiate_ok" } else { "instantiate_err" }},
                        {"assert": "oracle_fails", "after_step": -1, "oracle": hit.oracle}
                    ])
                } else {
                    json!([
                        {"assert": if carried_out { "step_ok" } else { "step_err" }, "step": hit.step},
                        {"assert": "oracle_fails", "after_step": hit.step, "oracle": hit.oracle}
                    ])
                };
                o.insert("asserts".to_string(), asserts);
            }
            let text = serde_json::to_string_pretty(&h).unwrap_or_else(|_| h.to_string());
            if let Err(e) = std::fs::write(&file, text + "\n") {
                eprintln!("error: cannot write {file}: {e}");
                return 2;
            }
            print_stats(&stats);
            println!(
                "HIT oracle={} step={} file={} iteration={}",
                hit.oracle,
                if at_inst { "instantiate".to_string() } else { hit.step.to_string() },
                file,
                it
            );
            return 1;
        }
    }
    print_stats(&stats);
    println!("NO-HIT iters={iters}");
    0
}
