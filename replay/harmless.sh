#!/usr/bin/env bash
# The property-preserving edits of /verif/seeded/harmless (8 single-file diffs + 30 directories
# with patch.diff) must not raise any alarm:  for each, `search --oracle new` (every step-level
# oracle registered for the profile, storage_format included) over the profiles below.
#   ./harmless.sh            ITERS=4000 by default; output target/seedtest/harmless.txt
set -u
cd "$(dirname "$0")"
export ITERS="${ITERS:-4000}"
PROFILES="${PROFILES:-match auth admission config migration instantiate}"
mkdir -p target/seedtest
: > target/seedtest/harmless.txt
export SNAPSHOT=1
for p in /verif/seeded/harmless/*.diff /verif/seeded/harmless/*/patch.diff; do
  case "$p" in
    */patch.diff) name="harmless/$(basename "$(dirname "$p")")" ;;
    *) name="harmless/$(basename "$p")" ;;
  esac
  ./seedtest.sh "$name" new $PROFILES | tee -a target/seedtest/harmless.txt
  export SNAPSHOT=0
done
echo "alarms: $(grep -c ' HIT ' target/seedtest/harmless.txt)   errors: $(grep -c -E 'ERROR|does not apply|build failed' target/seedtest/harmless.txt)   no-hit lines: $(grep -c 'NO-HIT' target/seedtest/harmless.txt)"
