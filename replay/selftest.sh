#!/usr/bin/env bash
# Self-test of ats-replay.
#
#   ./selftest.sh            build offline against the contract tree named in Cargo.toml, run the
#                            unit cross-checks (cargo test), run every history in histories/
#                            (D*, ok_*, golden_state_* must exit 0: their asserts describe the
#                            correct behaviour; K* are recorded known findings and must still
#                            reproduce: exit 3),
#                            then run the randomized search over the original and the new
#                            profiles (must report NO-HIT).
#   ./selftest.sh --pinned   additionally extract the pinned defective tree (PINNED_REV, default
#                            3673442) read-only from /repo's git objects into target/pinned/,
#                            build a copy of this crate against it and check the opposite:
#                            every D*.json history exits 3, ok_basic exits 0, search HITs.
#
# Nothing outside this directory is written (the pinned copy lives under target/).
set -u
cd "$(dirname "$0")"
export CARGO_NET_OFFLINE=true
PINNED_REV="${PINNED_REV:-3673442}"
REPO=$(sed -n 's/^ats-smart-contract = { path = "\(.*\)" }.*/\1/p' Cargo.toml)
BIN=target/debug/ats-replay
fail=0
note() { printf '%s\n' "$*"; }
check() { # check <label> <expected-exit> <actual-exit>
  if [ "$3" -eq "$2" ]; then note "PASS  $1 (exit $3)"; else note "FAIL  $1 (exit $3, expected $2)"; fail=1; fi
}

note "== build (offline) against $REPO working tree ($(git -C "$REPO" log --oneline -1 2>/dev/null || echo '?'))"
start=$(date +%s)
mkdir -p target/selftest
if ! cargo build --offline 2> target/selftest/build.log; then
  cat target/selftest/build.log; note "FAIL  build"; exit 1
fi
note "PASS  build ($(( $(date +%s) - start )) s)"

note "== unit cross-checks: hand-written parsers vs the semver / uuid crates and MockApi; golden storage shapes (format.rs) vs the real types"
if cargo test --offline > target/selftest/test.log 2>&1; then note "PASS  cargo test"; else tail -20 target/selftest/test.log; note "FAIL  cargo test"; fail=1; fi

note "== histories on the current tree (expected exit 0; K* = known finding still reproduces, exit 3)"
for h in histories/*.json; do
  $BIN run "$h" --quiet > /dev/null; rc=$?
  case "$(basename "$h")" in
    K*) check "run $h (known finding)" 3 $rc ;;
    *)  check "run $h" 0 $rc ;;
  esac
done

note "== randomized search on the current tree (expected NO-HIT)"
out=$($BIN search --oracle solvency --seed 1 --iters 3000 --out target/selftest/hit-solvency.json); rc=$?
note "      $out"
check "search --oracle solvency --seed 1 --iters 3000" 0 $rc
for p in default convertible fees nonlot markers; do
  out=$($BIN search --oracle all --seed 1 --iters 1000 --profile $p --out target/selftest/hit-all-$p.json); rc=$?
  note "      $out"
  check "search --oracle all --seed 1 --iters 1000 --profile $p" 0 $rc
done

note "== step-level oracles: new profiles, all registered oracles (expected NO-HIT)"
for p in auth config admission match migration instantiate; do
  out=$($BIN search --oracle all --seed 1 --iters 600 --profile $p --out target/selftest/hit-all-$p.json); rc=$?
  note "      $out"
  check "search --oracle all --seed 1 --iters 600 --profile $p" 0 $rc
done
for o in authorization config_change migration admission match_eligibility settlement queries attributes instantiate_coherence storage_format; do
  out=$($BIN search --oracle $o --seed 2 --iters 400 --out target/selftest/hit-$o.json); rc=$?
  note "      $out"
  check "search --oracle $o --seed 2 --iters 400 (profile auto)" 0 $rc
done

note "== golden histories are hand-checkable: regenerating them from histories/make_golden.py gives the same files"
if command -v python3 >/dev/null 2>&1; then
  mkdir -p target/selftest/golden && cp histories/make_golden.py target/selftest/golden/ && python3 target/selftest/golden/make_golden.py >/dev/null
  same=0
  for v in 0.16.3 0.18.2 0.19.0; do cmp -s histories/golden_state_$v.json target/selftest/golden/golden_state_$v.json || same=1; done
  check "golden_state_*.json equal their generator's output" 0 $same
else
  note "SKIP  python3 not available"
fi

if [ "${1:-}" = "--pinned" ]; then
  note "== pinned defective tree $PINNED_REV (expected: D* exit 3, ok_basic exit 0, search HIT)"
  P="$PWD/target/pinned"
  rm -rf "$P/repo" "$P/replay"
  mkdir -p "$P/repo" "$P/replay/.cargo"
  if ! git -C "$REPO" archive "$PINNED_REV" | tar -x -C "$P/repo"; then
    note "FAIL  cannot extract $PINNED_REV from $REPO"; exit 1
  fi
  cp Cargo.lock "$P/replay/Cargo.lock"
  cp .cargo/config.toml "$P/replay/.cargo/config.toml"
  cp -r src "$P/replay/src"
  sed "s#path = \"$REPO\"#path = \"$P/repo\"#" Cargo.toml > "$P/replay/Cargo.toml"
  if ! (cd "$P/replay" && CARGO_TARGET_DIR="$P/target" cargo build --offline 2> "$P/build.log"); then
    cat "$P/build.log"; note "FAIL  pinned build"; exit 1
  fi
  PBIN="$P/target/debug/ats-replay"
  for h in histories/D*.json; do
    "$PBIN" run "$h" --quiet > /dev/null
    check "pinned run $h" 3 $?
  done
  "$PBIN" run histories/ok_basic.json --quiet > /dev/null
  check "pinned run histories/ok_basic.json" 0 $?
  "$PBIN" run histories/K1_prorata_precision.json --quiet > /dev/null
  check "pinned run histories/K1_prorata_precision.json (known finding)" 3 $?
  out=$("$PBIN" search --oracle solvency --seed 1 --iters 3000 --out target/selftest/pinned-hit-solvency.json); rc=$?
  note "      $out"
  check "pinned search --oracle solvency --seed 1 --iters 3000 (HIT)" 1 $rc
  if [ $rc -eq 1 ]; then
    "$PBIN" run target/selftest/pinned-hit-solvency.json --quiet > /dev/null
    check "pinned run of the found witness (defect reproduces)" 0 $?
    $BIN run target/selftest/pinned-hit-solvency.json --quiet > /dev/null
    check "current-/repo run of the found witness (defect gone)" 3 $?
  fi
  for spec in "exit_liveness nonlot" "mechanism fees" "mechanism markers" "solvency fees" "approver_tracks_size convertible" "config_change config" "settlement fees"; do
    set -- $spec
    out=$("$PBIN" search --oracle $1 --seed 1 --iters 3000 --profile $2 --out target/selftest/pinned-hit-$1-$2.json); rc=$?
    note "      $out"
    check "pinned search --oracle $1 --profile $2 (HIT)" 1 $rc
  done
fi

if [ $fail -eq 0 ]; then note "SELFTEST OK"; else note "SELFTEST FAILED"; fi
exit $fail
