#!/usr/bin/env bash
# No-false-alarm campaign: on the unchanged contract every (oracle, registered profile) pair is
# searched with several seeds; every run must report NO-HIT.
#   ./campaign.sh [iters-per-seed] [seed ...]        (default 50000 and seeds 11 22 33 44)
#   ORACLES="a b c" ./campaign.sh ...                only these oracles (default: the ten step-level
#                                                    ones; ORACLES=state = the six state-level ones;
#                                                    ORACLES=every = all sixteen)
# Results: target/campaign/<oracle>-<profile>-<seed>.txt ; summary on stdout.
set -u
cd "$(dirname "$0")"
BIN="${BIN:-target/release/ats-replay}"
ITERS="${1:-50000}"; shift || true
SEEDS="${*:-11 22 33 44}"
JOBS="${JOBS:-14}"
mkdir -p target/campaign
STEP="authorization config_change migration admission match_eligibility settlement queries attributes instantiate_coherence storage_format"
STATE="solvency approver_tracks_size mechanism bid_consistency ask_consistency exit_liveness"
case "${ORACLES:-}" in
  "") NEW="$STEP" ;;
  state) NEW="$STATE" ;;
  every) NEW="$STEP $STATE" ;;
  *) NEW="$ORACLES" ;;
esac
jobs=()
for o in $NEW; do
  for p in $($BIN oracles --profiles | sed -n "s/^$o: //p"); do
    for s in $SEEDS; do
      jobs+=("$o $p $s")
    done
  done
done
printf '%s\n' "${jobs[@]}" | xargs -P "$JOBS" -L 1 bash -c '
  o=$0; p=$1; s=$2
  f=target/campaign/$o-$p-$s
  start=$(date +%s)
  '"$BIN"' search --oracle $o --seed $s --iters '"$ITERS"' --profile $p --out $f.hit.json > $f.txt 2>&1
  echo "rc=$? secs=$(( $(date +%s) - start ))" >> $f.txt
'
echo "oracle profile seed result"
for j in "${jobs[@]}"; do
  set -- $j
  echo "$1 $2 $3 $(tr '\n' ' ' < target/campaign/$1-$2-$3.txt)"
done
