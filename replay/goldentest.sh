#!/usr/bin/env bash
# Runs the golden-state histories against a seeded change: the patch is applied to a scratch copy
# of the clean contract tree (target/goldwork/repo; the worktree named in Cargo.toml stays clean),
# a copy of this crate is built against it, and every histories/golden_state_*.json is run.
#   ./goldentest.sh <seed-name> [...]      e.g. ./goldentest.sh R4_C15_A R4_C16_A
# Output, one line per seed and history:  <seed> <history> exit=<code>  (3 = some assert fails)
set -u
cd "$(dirname "$0")"
export CARGO_NET_OFFLINE=true
CLEAN=$(sed -n 's/^ats-smart-contract = { path = "\(.*\)" }.*/\1/p' Cargo.toml)
SEEDS="${SEEDS:-/verif/seeded}"
W="$PWD/target/goldwork"
mkdir -p "$W/repo" "$W/crate/.cargo" target/seedtest
rm -rf "$W/crate/src"; cp -r src "$W/crate/src"
cp Cargo.lock "$W/crate/Cargo.lock"; cp .cargo/config.toml "$W/crate/.cargo/config.toml"
sed "s#path = \"$CLEAN\"#path = \"$W/repo\"#" Cargo.toml > "$W/crate/Cargo.toml"
for name in "$@"; do
  rsync -a --delete --exclude .git --exclude target "$CLEAN/" "$W/repo/"
  if [ "$name" != "clean" ]; then
    if ! (cd "$W/repo" && git apply "$SEEDS/$name/patch.diff"); then echo "$name: patch does not apply"; continue; fi
  fi
  if ! (cd "$W/crate" && CARGO_TARGET_DIR="$W/target" cargo build --release --offline 2> "$OLDPWD/target/seedtest/goldbuild-$name.log"); then
    echo "$name: build failed"; continue
  fi
  for h in histories/golden_state_*.json; do
    "$W/target/release/ats-replay" run "$h" > "target/seedtest/golden-$name-$(basename "$h")" 2> "target/seedtest/golden-$name-$(basename "$h" .json).err"
    rc=$?
    nfail=$(grep -c "DOES-NOT-HOLD" "target/seedtest/golden-$name-$(basename "$h" .json).err")
    first=$(grep -m1 "DOES-NOT-HOLD" "target/seedtest/golden-$name-$(basename "$h" .json).err" | cut -c1-260)
    echo "$name $(basename "$h") exit=$rc failing_asserts=$nfail ${first:+first: $first}"
  done
done
