#!/usr/bin/env bash
# Runs seedtest.sh for every seeded change of the properties covered by the step-level oracles.
# Output: target/seedtest/results.txt (one line per seed x oracle x profile).
#   ./seedall.sh            the 40 changes of rounds 1 and 2 (table of ORACLES.md section 5)
#   ./seedall.sh R4_        only the lines matching the regular expression
#   TABLE_SEL=r34 ./seedall.sh  the round 3 / round 4 changes of C13..C17 (incl. the wire-format changes
#                           R4_C13_B, R4_C15_A, R4_C16_A), each with its own oracle and storage_format
set -u
cd "$(dirname "$0")"
mkdir -p target/seedtest
OUT="target/seedtest/results${TABLE_SEL:+-$TABLE_SEL}.txt"
: > "$OUT"
first=1
run() { # run <seed> <oracle> <profiles...>
  if [ $first -eq 1 ]; then export SNAPSHOT=1; first=0; else export SNAPSHOT=0; fi
  ./seedtest.sh "$@" | tee -a "$OUT"
}
TABLE="
C02_A settlement match fees migration
C02_B settlement match nonlot
R2_C02_A settlement match fees
R2_C02_B settlement match fees
C03_A match_eligibility match nonlot
C03_B match_eligibility match default
R2_C03_A match_eligibility match default
R2_C03_B match_eligibility match default
C05_A authorization auth config default
C05_B authorization auth config
R2_C05_A authorization auth config default
R2_C05_B config_change config auth
R2_C05_B authorization auth config
C07_A admission admission fees
C07_B admission admission default
R2_C07_A admission admission fees
R2_C07_B admission admission default
C12_A_fee_cleared_under_open_orders config_change config auth
C12_B_approver_dropped_via_duplicate config_change config auth
R2_C12_A config_change config auth
R2_C12_B config_change config auth
C13_A instantiate_coherence instantiate
C13_B instantiate_coherence instantiate
R2_C13_A instantiate_coherence instantiate
R2_C13_B instantiate_coherence instantiate
C14_A migration migration
C14_B migration migration
R2_C14_A migration migration
R2_C14_B migration migration
C15_A migration migration
C15_B migration migration
R2_C15_A migration migration
R2_C15_B migration migration
C16_A queries match migration default
C16_B queries match default
R2_C16_A queries match default
R2_C16_B queries config match
C17_A attributes match auth default
C17_B attributes match default
R2_C17_A attributes match auth default
R2_C17_B attributes match fees
"
R34="
R4_C13_B instantiate_coherence instantiate
R4_C13_B storage_format instantiate migration config
R4_C15_A migration migration
R4_C15_A storage_format migration
R4_C16_A queries migration
R4_C16_A storage_format migration
R4_C17_A attributes migration
R4_C17_A storage_format migration
R4_C13_A instantiate_coherence instantiate
R4_C14_A migration migration
R4_C14_B migration migration
R4_C15_B migration migration
R4_C15_B storage_format migration
R4_C16_B queries match migration
R4_C16_B storage_format match migration
R4_C17_B attributes match
R3_C13_A instantiate_coherence instantiate
R3_C13_B instantiate_coherence instantiate
R3_C14_A migration migration
R3_C14_B migration migration
R3_C15_A migration migration
R3_C15_B migration migration
R3_C15_B storage_format migration
R3_C16_A queries migration
R3_C16_A storage_format migration
R3_C16_B queries match config
R3_C17_A attributes match
R3_C17_B attributes match
"
if [ "${TABLE_SEL:-}" = "r34" ]; then TABLE="$R34"; fi
if [ $# -gt 0 ]; then TABLE=$(echo "$TABLE" | grep -E "$1"); fi
echo "$TABLE" | while read -r line; do
  [ -z "$line" ] && continue
  run $line
done
