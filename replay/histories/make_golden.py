#!/usr/bin/env python3
"""Writes histories/golden_state_{0.16.3,0.18.2,0.19.0}.json.

Fixed, hand-checkable histories: a realistic book in RAW golden bytes as the named contract
version wrote it (configuration, version record, plain / pending / approved asks, current-format
bids, legacy event-log bids with fills, refunds and rejects, with and without fees, some under
un-hyphenated ids), then queries, `migrate`, queries again, a match on a converted bid, cancels and
rejects with the exact payouts.  Every number below is a literal worked out by hand (see the
comments); nothing is computed by the tool.  All three must exit 0 on the unchanged contract.

    0.16.3  market without fees (fee members null everywhere), migrate without overrides
    0.18.2  ask fee 0.01 -> askfee, bid fee 0.02 -> bidfee, migrate without overrides
    0.19.0  as 0.18.2, migrate installs a second approver and a required bid attribute
"""
import json, os

A1 = "a1000000-0000-4000-8000-000000000001"   # plain ask
A2 = "a2000000-0000-4000-8000-000000000002"   # convertible, pending
A3 = "a3000000-0000-4000-8000-000000000003"   # convertible, approved
A4 = "a4000000000040008000000000000004"       # plain ask under an un-hyphenated id
B1 = "b1000000-0000-4000-8000-000000000001"   # current-format bid, untouched
B2 = "b2000000-0000-4000-8000-000000000002"   # current-format bid, partly filled
L1 = "c1000000-0000-4000-8000-000000000001"   # legacy bid: fill at a better price + refund + reject
L2 = "c2000000000040008000000000000002"       # legacy bid under an un-hyphenated id: fill + reject, no fee
L3 = "c3000000-0000-4000-8000-000000000003"   # legacy bid with an empty event log


def coin(denom, amount):
    return {"denom": denom, "amount": str(amount)}


def block(h):
    return {"height": h, "time": "1571797419879305533"}


def make(version, fees, migrate_msg, config_after):
    fee = (lambda a: coin("usd", a)) if fees else (lambda a: None)
    config = {
        "name": "ats-golden", "bind_name": "ats.golden.pb", "base_denom": "base",
        "convertible_base_denoms": ["con"], "supported_quote_denoms": ["usd"],
        "approvers": ["approver"], "executors": ["exec"],
        "ask_fee_info": {"account": "askfee", "rate": "0.01"} if fees else None,
        "bid_fee_info": {"account": "bidfee", "rate": "0.02"} if fees else None,
        "ask_required_attributes": [], "bid_required_attributes": [],
        "price_precision": "2", "size_increment": "100",
    }
    version_rec = {"definition": "ats_smart_contract", "version": version}
    ask1 = {"id": A1, "owner": "seller1", "class": "Basic", "base": "base", "quote": "usd", "price": "2.50", "size": "400"}
    ask2 = {"id": A2, "owner": "seller2", "class": {"Convertible": {"status": "PendingIssuerApproval"}},
            "base": "con", "quote": "usd", "price": "3", "size": "200"}
    ask3 = {"id": A3, "owner": "seller2",
            "class": {"Convertible": {"status": {"Ready": {"approver": "approver", "converted_base": coin("base", 300)}}}},
            "base": "con", "quote": "usd", "price": "2", "size": "300"}
    ask4 = {"id": A4, "owner": "seller1", "class": "Basic", "base": "base", "quote": "usd", "price": "4", "size": "100"}
    # fee of a bid = 0.02 * quote
    bid1 = {"base": coin("base", 200), "accumulated_base": "0", "accumulated_quote": "0", "accumulated_fee": "0",
            "fee": fee(10), "id": B1, "owner": "buyer1", "price": "2.50", "quote": coin("usd", 500)}
    # 100 of 400 filled at the limit: quote 200 spent, fee 16 * 200/800 = 4 paid
    bid2 = {"base": coin("base", 400), "accumulated_base": "100", "accumulated_quote": "200",
            "accumulated_fee": "4" if fees else "0",
            "fee": fee(16), "id": B2, "owner": "buyer2", "price": "2", "quote": coin("usd", 800)}
    # L1: 1000 base at 3 = 3000 usd, fee 60.
    #  fill 200 at 2.50: quote 500, fee released 60 - round(60*2500/3000) = 60 - 50 = 10
    #  refund of the price improvement: quote 600 - 500 = 100, fee 50 - round(60*2400/3000) = 50 - 48 = 2
    #  reject 300: quote 900, fee 48 - round(60*1500/3000) = 48 - 30 = 18
    #  sums: base 500, quote 1500, fee 30  ->  remaining base 500, quote 1500 (= 3 * 500), fee 30
    leg1 = {"base": coin("base", 1000), "events": [
        {"action": {"Fill": {"base": coin("base", 200), "fee": fee(10), "price": "2.50", "quote": coin("usd", 500)}}, "block_info": block(101)},
        {"action": {"Refund": {"fee": fee(2), "quote": coin("usd", 100)}}, "block_info": block(101)},
        {"action": {"Reject": {"base": coin("base", 300), "fee": fee(18), "quote": coin("usd", 900)}}, "block_info": block(140)},
    ], "fee": fee(60), "id": L1, "owner": "buyer2", "price": "3", "quote": coin("usd", 3000)}
    # L2: 600 base at 1.50 = 900 usd, never carried a fee.  fill 200 (300 usd), reject 100 (150 usd)
    #  sums: base 300, quote 450, fee 0  ->  remaining base 300, quote 450
    leg2 = {"base": coin("base", 600), "events": [
        {"action": {"Fill": {"base": coin("base", 200), "fee": None, "price": "1.50", "quote": coin("usd", 300)}}, "block_info": block(77)},
        {"action": {"Reject": {"base": coin("base", 100), "fee": None, "quote": coin("usd", 150)}}, "block_info": block(90)},
    ], "fee": None, "id": L2, "owner": "buyer1", "price": "1.50", "quote": coin("usd", 900)}
    # L3: untouched legacy bid
    leg3 = {"base": coin("base", 100), "events": [], "fee": fee(4), "id": L3, "owner": "buyer2", "price": "2", "quote": coin("usd", 200)}

    conv1 = {"base": coin("base", 1000), "accumulated_base": "500", "accumulated_quote": "1500",
             "accumulated_fee": "30" if fees else "0", "fee": fee(60), "id": L1, "owner": "buyer2",
             "price": "3", "quote": coin("usd", 3000)}
    conv2 = {"base": coin("base", 600), "accumulated_base": "300", "accumulated_quote": "450", "accumulated_fee": "0",
             "fee": None, "id": L2, "owner": "buyer1", "price": "1.50", "quote": coin("usd", 900)}
    conv3 = {"base": coin("base", 100), "accumulated_base": "0", "accumulated_quote": "0", "accumulated_fee": "0",
             "fee": fee(4), "id": L3, "owner": "buyer2", "price": "2", "quote": coin("usd", 200)}

    steps, asserts = [], []

    def step(s, *checks, ok=True):
        i = len(steps)
        steps.append(s)
        asserts.append({"assert": "step_ok" if ok else "step_err", "step": i})
        for c in checks:
            c = dict(c)
            for k in ("step", "after_step"):
                if c.get(k) == "here":
                    c[k] = i
            asserts.append(c)
        return i

    def q_eq(value):
        return {"assert": "query_eq", "step": "here", "value": value}

    def stored(ns, key, value):
        return {"assert": "stored_eq", "after_step": "here", "namespace": ns, "key": key, "value": value}

    def absent(ns, key):
        return {"assert": "stored_absent", "after_step": "here", "namespace": ns, "key": key}

    def holds(o):
        return {"assert": "oracle_holds", "after_step": "here", "oracle": o}

    def paid(to, denom, amount):
        return {"assert": "message_present", "step": "here", "message": {"kind": "bank", "to": to, "denom": denom, "amount": str(amount)}}

    def ledger(account, denom, value):
        return {"assert": "ledger_eq", "after_step": "here", "account": account, "denom": denom, "value": str(value)}

    # ---- the state as the old version left it, in raw bytes
    step({"put_raw": {"namespace": "contract_info", "value": config}}, holds("storage_format"))
    step({"put_raw": {"namespace": "version_info", "value": version_rec}}, holds("storage_format"))
    for a in (ask1, ask2, ask3, ask4):
        step({"put_ask": a}, holds("storage_format"))
    for b in (bid1, bid2):
        step({"put_bid": b}, holds("storage_format"))
    for l in (leg1, leg2, leg3):
        step({"put_bid_v2": l}, holds("storage_format"), holds("queries"))
    # escrow held for the book: base 400 + 300 (approver) + 100, con 200 + 300,
    # usd (500+10) + (600+12) + (1500+30) + 450 + (200+4) = 3306 with fees, 500+600+1500+450+200 = 3250 without
    step({"query": {"get_contract_info": {}}}, q_eq(config),
         ledger("contract", "base", 800), ledger("contract", "con", 500),
         ledger("contract", "usd", 3306 if fees else 3250))
    step({"query": {"get_version_info": {}}}, q_eq(version_rec))
    step({"query": {"get_ask": {"id": A1}}}, q_eq(ask1))
    step({"query": {"get_ask": {"id": A2}}}, q_eq(ask2))
    step({"query": {"get_ask": {"id": A3}}}, q_eq(ask3))
    step({"query": {"get_ask": {"id": A4}}}, q_eq(ask4))
    step({"query": {"get_bid": {"id": B1}}}, q_eq(bid1))
    step({"query": {"get_bid": {"id": B2}}}, q_eq(bid2))
    # legacy-format records are not served before the migration
    step({"query": {"get_bid": {"id": L1}}}, ok=False)
    step({"query": {"get_bid": {"id": L2}}}, ok=False)
    step({"query": {"get_bid": {"id": L3}}}, ok=False)

    # ---- the migration
    version_after = {"definition": "ats_smart_contract", "version": "1.0.0"}
    step({"migrate": migrate_msg},
         holds("migration"), holds("storage_format"), holds("queries"), holds("solvency"),
         holds("bid_consistency"), holds("ask_consistency"), holds("exit_liveness"),
         stored("contract_info", None, config_after), stored("version_info", None, version_after),
         stored("ask", A1, ask1), stored("ask", A2, ask2), stored("ask", A3, ask3), stored("ask", A4, ask4),
         stored("bid", B1, bid1), stored("bid", B2, bid2),
         stored("bid", L1, conv1), stored("bid", L2, conv2), stored("bid", L3, conv3))
    step({"query": {"get_contract_info": {}}}, q_eq(config_after))
    step({"query": {"get_version_info": {}}}, q_eq(version_after))
    step({"query": {"get_ask": {"id": A3}}}, q_eq(ask3))
    step({"query": {"get_bid": {"id": B2}}}, q_eq(bid2))
    step({"query": {"get_bid": {"id": L1}}}, q_eq(conv1))
    step({"query": {"get_bid": {"id": L2}}}, q_eq(conv2))
    step({"query": {"get_bid": {"id": L3}}}, q_eq(conv3))
    # a second migration changes nothing (it is refused or leaves every byte)
    # ---- a match on the converted bid L1 (limit 3) against the plain ask A1 (limit 2.50) at 2.50, size 200
    #  gross 200 * 2.50 = 500; at the bid's limit it would have been 600 -> 100 usd go back to the buyer
    #  ask fee 0.01 * 500 = 5 -> askfee; seller1 receives 495 (500 without fees)
    #  bid fee: held 30, kept round(60 * (1500-500)/3000) = 20 -> 10 -> bidfee;
    #           at the limit kept round(60 * 900/3000) = 18 -> released 12, so 2 go back to the buyer with the 100
    after_match = dict(conv1, accumulated_base="700", accumulated_quote="2100", accumulated_fee="42" if fees else "0")
    ask1_after = dict(ask1, size="200")
    checks = [holds("settlement"), holds("match_eligibility"), holds("attributes"), holds("storage_format"), holds("solvency"),
              stored("bid", L1, after_match), stored("ask", A1, ask1_after),
              paid("buyer2", "base", 200), paid("buyer2", "usd", 100), ledger("buyer2", "base", 200)]
    if fees:
        checks += [paid("buyer2", "usd", 2)]
        checks += [paid("askfee", "usd", 5), paid("seller1", "usd", 495), paid("bidfee", "usd", 10),
                   ledger("askfee", "usd", 5), ledger("bidfee", "usd", 10)]
        # seller1 escrowed 400 + 100 base and has received 495 usd
        checks += [ledger("seller1", "usd", 495)]
        # buyer2 escrowed 612 + 1530 + 204 = 2346 usd and got 100 + 2 back
        checks += [ledger("buyer2", "usd", -2346 + 102)]
    else:
        checks += [paid("seller1", "usd", 500), ledger("seller1", "usd", 500), ledger("buyer2", "usd", -2300 + 100)]
    step({"execute": {"execute_match": {"ask_id": A1, "bid_id": L1, "price": "2.50", "size": "200"}},
          "sender": "exec", "funds": []}, *checks)
    # ---- the owner cancels the converted bid L2 through its un-hyphenated id: the unspent 450 usd come back
    step({"execute": {"cancel_bid": {"id": L2}}, "sender": "buyer1", "funds": []},
         paid("buyer1", "usd", 450), absent("bid", L2), holds("storage_format"), holds("attributes"), holds("solvency"))
    # ---- the executor rejects the untouched converted bid L3 completely: 200 usd + the 4 usd fee come back
    #      (quote and fee are two separate sends)
    step({"execute": {"reject_bid": {"id": L3, "size": None}}, "sender": "exec", "funds": []},
         paid("buyer2", "usd", 200), *([paid("buyer2", "usd", 4)] if fees else []),
         absent("bid", L3), holds("storage_format"), holds("solvency"))
    # ---- partial reject of 100 of the native bid B2 (300 left of 400 at 2): 200 usd and
    #      fee 12 - round(16 * 400/800) = 12 - 8 = 4 come back
    b2_after = dict(bid2, accumulated_base="200", accumulated_quote="400", accumulated_fee="8" if fees else "0")
    step({"execute": {"reject_bid": {"id": B2, "size": "100"}}, "sender": "exec", "funds": []},
         paid("buyer2", "usd", 200), *([paid("buyer2", "usd", 4)] if fees else []),
         stored("bid", B2, b2_after), holds("storage_format"), holds("solvency"),
         # buyer2 so far: escrowed 2346 (2300), back 102 (100) + 204 (200) + 204 (200)
         ledger("buyer2", "usd", -2346 + 102 + 204 + 204 if fees else -2300 + 100 + 200 + 200))
    # ---- the approved convertible ask is cancelled: 300 con to its owner, the approver's 300 base back
    step({"execute": {"cancel_ask": {"id": A3}}, "sender": "seller2", "funds": []},
         paid("seller2", "con", 300), paid("approver", "base", 300), absent("ask", A3), holds("storage_format"), holds("solvency"))
    # ---- the plain ask under the un-hyphenated id is cancelled through that id
    step({"execute": {"cancel_ask": {"id": A4}}, "sender": "seller1", "funds": []},
         paid("seller1", "base", 100), absent("ask", A4), holds("storage_format"), holds("solvency"),
         holds("exit_liveness"), holds("queries"),
         # what is left: A1 200 base, A2 200 con; B1 500 + 10, B2 400 + 8, L1 900 + 18
         ledger("contract", "base", 200), ledger("contract", "con", 200),
         ledger("contract", "usd", 1836 if fees else 1800))

    return {
        "comment": (
            f"GOLDEN STATE of contract version {version}: the book, the configuration and the version record are written as the "
            "RAW bytes that version left in storage (put_raw / put_ask / put_bid / put_bid_v2 store the JSON as given, validated "
            "against the golden shapes of src/format.rs, never through a type of the contract).  Then: queries, migrate, queries "
            "again, a match on a converted bid, cancels / rejects with the exact payouts.  Every expected value is a hand-computed "
            "literal (see histories/make_golden.py for the arithmetic).  Must exit 0 on the unchanged contract; a change of the wire "
            "format of a persisted type (R4_C15_A: legacy bids no longer converted; R4_C16_A: legacy bids served with zero totals) makes it exit 3."
        ),
        "markers": {"base": "none", "con": "none", "usd": "none"},
        "attributes": {},
        "instantiate": {"sender": "admin", "msg": {
            "name": "ats-golden", "base_denom": "base", "convertible_base_denoms": ["con"],
            "supported_quote_denoms": ["usd"], "approvers": ["approver"], "executors": ["exec"],
            "ask_fee_rate": "0.01" if fees else None, "ask_fee_account": "askfee" if fees else None,
            "bid_fee_rate": "0.02" if fees else None, "bid_fee_account": "bidfee" if fees else None,
            "ask_required_attributes": [], "bid_required_attributes": [],
            "price_precision": "2", "size_increment": "100"}},
        "steps": steps,
        "asserts": [{"assert": "instantiate_ok"}] + asserts,
    }


NO_OVERRIDES = {"approvers": None, "ask_fee_rate": None, "ask_fee_account": None, "bid_fee_rate": None,
                "bid_fee_account": None, "ask_required_attributes": None, "bid_required_attributes": None}


def config(fees, **over):
    c = {
        "name": "ats-golden", "bind_name": "ats.golden.pb", "base_denom": "base",
        "convertible_base_denoms": ["con"], "supported_quote_denoms": ["usd"],
        "approvers": ["approver"], "executors": ["exec"],
        "ask_fee_info": {"account": "askfee", "rate": "0.01"} if fees else None,
        "bid_fee_info": {"account": "bidfee", "rate": "0.02"} if fees else None,
        "ask_required_attributes": [], "bid_required_attributes": [],
        "price_precision": "2", "size_increment": "100",
    }
    c.update(over)
    return c


here = os.path.dirname(os.path.abspath(__file__))
variants = [
    ("0.16.3", False, NO_OVERRIDES, config(False)),
    ("0.18.2", True, NO_OVERRIDES, config(True)),
    ("0.19.0", True, dict(NO_OVERRIDES, approvers=["approver", "approver2"], bid_required_attributes=["kyc"]),
     config(True, approvers=["approver", "approver2"], bid_required_attributes=["kyc"])),
]
for version, fees, msg, after in variants:
    path = os.path.join(here, f"golden_state_{version}.json")
    with open(path, "w") as f:
        json.dump(make(version, fees, msg, after), f, indent=1)
        f.write("\n")
    print("wrote", path)
