#!/usr/bin/env bash
# Effectiveness check for one seeded property-breaking change (/verif/seeded/<name>/patch.diff):
# the change is applied to a scratch copy of the contract tree (target/seedwork/repo, refreshed from
# the clean worktree named in Cargo.toml before every run, so that worktree itself always stays
# clean), a copy of this crate is built against it (target/seedwork/crate, own target dir) and
# `search --oracle <oracle>` is run over the given profiles.
#
#   ./seedtest.sh <seed-name> <oracle> <profile> [<profile> ...]       ITERS=20000 SEED=1 by default
#   SNAPSHOT=1 re-copies src/ into the scratch crate first (done automatically when it is missing).
# Output, one line per profile:
#   <seed> <oracle> <profile> HIT iteration=<n> step=<k> time=<s>s file=<history> | NO-HIT iters=<n> time=<s>s
set -u
cd "$(dirname "$0")"
export CARGO_NET_OFFLINE=true
CLEAN=$(sed -n 's/^ats-smart-contract = { path = "\(.*\)" }.*/\1/p' Cargo.toml)
SEEDS="${SEEDS:-/verif/seeded}"
W="$PWD/target/seedwork"
ITERS="${ITERS:-20000}"
SEED="${SEED:-1}"
name="$1"; oracle="$2"; shift 2
mkdir -p "$W/repo" "$W/crate/.cargo" target/seedtest
if [ -n "$(git -C $CLEAN status --porcelain)" ]; then echo "worktree $CLEAN not clean"; exit 2; fi
# fresh copy of the clean tree (sources + manifest), preserving mtimes so that cargo only rebuilds what changed
rsync -a --delete --exclude .git --exclude target "$CLEAN/" "$W/repo/"
if [ ! -d "$W/crate/src" ] || [ "${SNAPSHOT:-0}" = 1 ]; then
  rm -rf "$W/crate/src"; cp -r src "$W/crate/src"
  cp Cargo.lock "$W/crate/Cargo.lock"; cp .cargo/config.toml "$W/crate/.cargo/config.toml"
  sed "s#path = \"$CLEAN\"#path = \"$W/repo\"#" Cargo.toml > "$W/crate/Cargo.toml"
fi
patch="$SEEDS/$name/patch.diff"
[ -f "$SEEDS/$name" ] && patch="$SEEDS/$name"        # e.g. harmless/H2_reorder_sends.diff
name=$(echo "$name" | tr '/' '_')
if ! (cd "$W/repo" && git apply "$patch"); then echo "$name: patch does not apply"; exit 2; fi
if ! (cd "$W/crate" && CARGO_TARGET_DIR="$W/target" cargo build --release --offline 2> "$OLDPWD/target/seedtest/build-$name.log"); then
  echo "$name: build failed (target/seedtest/build-$name.log)"; exit 2
fi
for p in "$@"; do
  out_file="target/seedtest/$name-$oracle-$p.json"
  start=$(date +%s.%N)
  out=$("$W/target/release/ats-replay" search --oracle "$oracle" --seed "$SEED" --iters "$ITERS" --profile "$p" --out "$out_file")
  rc=$?
  el=$(printf '%.1f' "$(echo "$(date +%s.%N) - $start" | bc)")
  if [ $rc -eq 1 ]; then
    it=$(echo "$out" | sed -n 's/.*iteration=\([0-9]*\).*/\1/p')
    step=$(echo "$out" | sed -n 's/.*step=\([a-z0-9]*\).*/\1/p')
    echo "$name $oracle $p HIT iteration=$it step=$step time=${el}s file=$out_file"
  elif [ $rc -eq 0 ]; then
    echo "$name $oracle $p NO-HIT iters=$ITERS time=${el}s"
  else
    echo "$name $oracle $p ERROR rc=$rc $out"
  fi
done
