// Configuration: instantiate, modify_contract(_info), migrate(_contract_info) (C12, C13, C14).
use crate::shim::flat::{valid_addr, ver_parse, req_parse, req_matches, ver_ge, Ver};

pub open spec fn addrs_are(list: Seq<Addr>, strs: Seq<String>) -> bool {
    list.len() == strs.len() && forall|i: int| 0 <= i < strs.len() ==> (#[trigger] list[i]).s@ == strs[i]@ && valid_addr(strs[i]@)
}
pub open spec fn all_valid_addrs(strs: Seq<String>) -> bool {
    forall|i: int| 0 <= i < strs.len() ==> valid_addr((#[trigger] strs[i])@)
}
pub open spec fn strs_eq(a: Seq<String>, b: Seq<String>) -> bool {
    a.len() == b.len() && forall|i: int| 0 <= i < a.len() ==> (#[trigger] a[i])@ == b[i]@
}
pub open spec fn addrs_eq(a: Seq<Addr>, b: Seq<Addr>) -> bool {
    a.len() == b.len() && forall|i: int| 0 <= i < a.len() ==> (#[trigger] a[i]).s@ == b[i].s@
}
pub open spec fn fee_same(a: Option<FeeInfo>, b: Option<FeeInfo>) -> bool {
    (a is Some <==> b is Some) && (a is Some ==> a->0.account.s@ == b->0.account.s@ && a->0.rate@ == b->0.rate@)
}
/// a fee pair request applied to the current fee: absent or half-supplied => kept; ("","") => cleared;
/// otherwise the rate must parse, the account must be a valid address and both are installed exactly
pub open spec fn fee_update(old: Option<FeeInfo>, account: Option<String>, rate: Option<String>, new: Option<FeeInfo>) -> bool {
    if account is Some && rate is Some {
        if account->0@ == ""@ && rate->0@ == ""@ { new is None }
        else { parse_dec(rate->0@) is Some && valid_addr(account->0@) && new is Some
               && new->0.account.s@ == account->0@ && new->0.rate@ == rate->0@ }
    } else { fee_same(new, old) }
}
pub open spec fn fee_rate_value(f: Option<FeeInfo>) -> Option<int> {
    match f { Some(fi) => Some(pq(fi.rate@)), None => None }
}
pub open spec fn market_params_same(a: ContractInfoV3, b: ContractInfoV3) -> bool {
    &&& a.name@ == b.name@ && a.bind_name@ == b.bind_name@ && a.base_denom@ == b.base_denom@
    &&& strs_eq(a.convertible_base_denoms@, b.convertible_base_denoms@)
    &&& strs_eq(a.supported_quote_denoms@, b.supported_quote_denoms@)
    &&& a.price_precision.v == b.price_precision.v && a.size_increment.v == b.size_increment.v
}
/// field-wise effect of a modify request on the configuration
pub open spec fn info_modified(old: ContractInfoV3, new: ContractInfoV3,
    approvers: Option<Vec<String>>, executors: Option<Vec<String>>,
    ask_fee_rate: Option<String>, ask_fee_account: Option<String>, bid_fee_rate: Option<String>, bid_fee_account: Option<String>,
    ask_required_attributes: Option<Vec<String>>, bid_required_attributes: Option<Vec<String>>) -> bool {
    &&& market_params_same(old, new)
    &&& (match approvers { Some(l) => addrs_are(new.approvers@, l@), None => addrs_eq(new.approvers@, old.approvers@) })
    &&& (match executors { Some(l) => addrs_are(new.executors@, l@), None => addrs_eq(new.executors@, old.executors@) })
    &&& fee_update(old.ask_fee_info, ask_fee_account, ask_fee_rate, new.ask_fee_info)
    &&& fee_update(old.bid_fee_info, bid_fee_account, bid_fee_rate, new.bid_fee_info)
    &&& (match ask_required_attributes { Some(l) => strs_eq(new.ask_required_attributes@, l@), None => strs_eq(new.ask_required_attributes@, old.ask_required_attributes@) })
    &&& (match bid_required_attributes { Some(l) => strs_eq(new.bid_required_attributes@, l@), None => strs_eq(new.bid_required_attributes@, old.bid_required_attributes@) })
}
pub open spec fn only_info_changed(st: StoreV, st2: StoreV) -> bool {
    st2.asks == st.asks && st2.bids == st.bids && st2.version == st.version && st2.info is Some
}
pub open spec fn stored_version(st: StoreV) -> Option<Ver> {
    if st.version is Some { ver_parse(st.version->0.version@) } else { None }
}
/// what `<0.16.2` not matching means (a pre-release version never matches a plain comparator)
pub open spec fn version_not_below(st: StoreV) -> bool {
    stored_version(st) is Some && (stored_version(st)->0.pre || ver_ge(stored_version(st)->0, 0, 16, 2))
}
/// the stored version is readable and at least 0.16.2 (no pre-release)
pub open spec fn version_supported(st: StoreV) -> bool {
    stored_version(st) is Some && !stored_version(st)->0.pre && ver_ge(stored_version(st)->0, 0, 16, 2)
}

// ---- modify_contract (C05, C12)
pub open spec fn side_frozen(has_orders: bool, old_fee: Option<FeeInfo>, new_rate: Option<String>, new_attrs: Option<Vec<String>>) -> bool {
    has_orders ==> new_attrs is None
        && (new_rate is Some ==> old_fee is Some && parse_dec(old_fee->0.rate@) is Some && parse_dec(new_rate->0@) is Some
                && pq(old_fee->0.rate@) == pq(new_rate->0@))
}
/// every current approver is still on the new list
pub open spec fn approvers_kept(old: Seq<Addr>, new: Seq<String>) -> bool {
    forall|s: Seq<char>| #[trigger] in_addrs(old, s) ==> in_strs(new, s)
}
pub open spec fn asks_open(st: StoreV) -> bool { !(st.asks.dom() =~= Set::<Seq<u8>>::empty()) }
pub open spec fn bids_open(st: StoreV) -> bool { !(st.bids.dom() =~= Set::<Seq<u8>>::empty()) }

// ---- instantiate (C13)
pub open spec fn inst_only_if(m: InstantiateMsg) -> bool {
    &&& inst_msg_valid(m)
    &&& all_valid_addrs(m.approvers@) && all_valid_addrs(m.executors@)
    &&& (m.size_increment.v as int) % pow10(m.price_precision.v as int) == 0
}
pub open spec fn inst_stored(m: InstantiateMsg, i: ContractInfoV3) -> bool {
    &&& i.name@ == m.name@ && i.base_denom@ == m.base_denom@
    &&& strs_eq(i.convertible_base_denoms@, m.convertible_base_denoms@)
    &&& strs_eq(i.supported_quote_denoms@, m.supported_quote_denoms@)
    &&& addrs_are(i.approvers@, m.approvers@) && addrs_are(i.executors@, m.executors@)
    &&& fee_update(None, m.ask_fee_account, m.ask_fee_rate, i.ask_fee_info)
    &&& fee_update(None, m.bid_fee_account, m.bid_fee_rate, i.bid_fee_info)
    &&& strs_eq(i.ask_required_attributes@, m.ask_required_attributes@)
    &&& strs_eq(i.bid_required_attributes@, m.bid_required_attributes@)
    &&& i.price_precision.v == m.price_precision.v && i.size_increment.v == m.size_increment.v
}
