// Migration and bid format conversion (C14, C15), queries (C16).

// ---- event sums of a legacy bid (C15)
pub open spec fn ev_base(e: Event) -> int {
    match e.action { Action::Fill { base, .. } => base.amount.v as int, Action::Reject { base, .. } => base.amount.v as int, _ => 0 }
}
pub open spec fn ev_quote(e: Event) -> int {
    match e.action {
        Action::Fill { quote, .. } => quote.amount.v as int,
        Action::Refund { quote, .. } => quote.amount.v as int,
        Action::Reject { quote, .. } => quote.amount.v as int,
    }
}
pub open spec fn ev_fee(e: Event) -> int {
    match e.action {
        Action::Fill { fee, .. } => coin_amt(fee),
        Action::Refund { fee, .. } => coin_amt(fee),
        Action::Reject { fee, .. } => coin_amt(fee),
    }
}
pub open spec fn sum_base_spec(s: Seq<Event>) -> int decreases s.len() {
    if s.len() == 0 { 0 } else { sum_base_spec(s.drop_last()) + ev_base(s.last()) }
}
pub open spec fn sum_quote_spec(s: Seq<Event>) -> int decreases s.len() {
    if s.len() == 0 { 0 } else { sum_quote_spec(s.drop_last()) + ev_quote(s.last()) }
}
pub open spec fn sum_fee_spec(s: Seq<Event>) -> int decreases s.len() {
    if s.len() == 0 { 0 } else { sum_fee_spec(s.drop_last()) + ev_fee(s.last()) }
}
/// the current-format bid a legacy bid converts to: same terms, accumulated amounts = event sums
pub open spec fn conv_bid(o: BidOrderV2) -> BidOrderV3 {
    BidOrderV3 {
        base: o.base,
        accumulated_base: Uint128 { v: sum_base_spec(o.events@) as u128 },
        accumulated_quote: Uint128 { v: sum_quote_spec(o.events@) as u128 },
        accumulated_fee: Uint128 { v: sum_fee_spec(o.events@) as u128 },
        fee: o.fee, id: o.id, owner: o.owner, price: o.price, quote: o.quote,
    }
}
impl vstd::std_specs::convert::FromSpecImpl<BidOrderV2> for BidOrderV3 {
    open spec fn obeys_from_spec() -> bool { false }
    open spec fn from_spec(o: BidOrderV2) -> BidOrderV3 { conv_bid(o) }
}
impl vstd::std_specs::convert::FromSpecImpl<crate::shim::flat::BlockInfo> for crate::common::BlockInfo {
    open spec fn obeys_from_spec() -> bool { false }
    open spec fn from_spec(o: crate::shim::flat::BlockInfo) -> crate::common::BlockInfo { arbitrary() }
}
pub open spec fn sums_fit(o: BidOrderV2) -> bool {
    sum_base_spec(o.events@) <= u128::MAX && sum_quote_spec(o.events@) <= u128::MAX && sum_fee_spec(o.events@) <= u128::MAX
}
/// the conversion window 0.16.2 <= v < 0.19.1
pub open spec fn in_conversion_window(st: StoreV) -> bool {
    stored_version(st) is Some && !stored_version(st)->0.pre && ver_ge(stored_version(st)->0, 0, 16, 2) && !ver_ge(stored_version(st)->0, 0, 19, 1)
}
/// every legacy entry is converted in place, everything else is untouched, no key appears or disappears
pub open spec fn bids_converted(old: Map<Seq<u8>, BidEntry>, new: Map<Seq<u8>, BidEntry>) -> bool {
    &&& new.dom() =~= old.dom()
    &&& forall|k: Seq<u8>| #[trigger] old.dom().contains(k) ==> new[k] == (match old[k] {
            BidEntry::V2(o) => BidEntry::V3(conv_bid(o)),
            BidEntry::V3(b) => BidEntry::V3(b),
        })
}
/// the first n keys of the work list are done, the others still as before
pub open spec fn bids_partly_converted(old: Map<Seq<u8>, BidEntry>, new: Map<Seq<u8>, BidEntry>, keys: Seq<Vec<u8>>, n: int) -> bool {
    &&& new.dom() =~= old.dom()
    &&& forall|k: Seq<u8>| #[trigger] old.dom().contains(k) ==> new[k] == (
            if exists|j: int| 0 <= j < n && (#[trigger] keys[j])@ == k {
                match old[k] { BidEntry::V2(o) => BidEntry::V3(conv_bid(o)), BidEntry::V3(b) => BidEntry::V3(b) }
            } else { old[k] })
}
pub open spec fn version_stamped(st: StoreV, pkg: Seq<char>, name: Seq<char>) -> bool {
    st.version is Some && st.version->0.version@ == pkg && st.version->0.definition@ == name
}
/// effect of a migrate message on the configuration (approver list, fee pairs, attribute lists only)
pub open spec fn info_migrated(old: ContractInfoV3, new: ContractInfoV3, m: MigrateMsg) -> bool {
    &&& market_params_same(old, new)
    &&& addrs_eq(new.executors@, old.executors@)
    &&& (match m.approvers { Some(l) => addrs_are(new.approvers@, l@), None => addrs_eq(new.approvers@, old.approvers@) })
    &&& fee_update(old.ask_fee_info, m.ask_fee_account, m.ask_fee_rate, new.ask_fee_info)
    &&& fee_update(old.bid_fee_info, m.bid_fee_account, m.bid_fee_rate, new.bid_fee_info)
    &&& (match m.ask_required_attributes { Some(l) => strs_eq(new.ask_required_attributes@, l@), None => strs_eq(new.ask_required_attributes@, old.ask_required_attributes@) })
    &&& (match m.bid_required_attributes { Some(l) => strs_eq(new.bid_required_attributes@, l@), None => strs_eq(new.bid_required_attributes@, old.bid_required_attributes@) })
}
pub open spec fn migrate_post(st: StoreV, st2: StoreV, m: MigrateMsg, pkg: Seq<char>, name: Seq<char>) -> bool {
    &&& version_supported(st)
    &&& st.info is Some && st2.info is Some && info_migrated(st.info->0, st2.info->0, m)
    &&& st2.asks == st.asks
    &&& (if in_conversion_window(st) { bids_converted(st.bids, st2.bids) } else { st2.bids == st.bids })
    &&& version_stamped(st2, pkg, name)
}
