// The representation invariant wf(S) of DESIGN.md 5.4, as separately named conjuncts W1..W7, and the
// predicates about responses (C10 / C17) shared by all handlers.
use crate::shim::flat::{Addr, Coin, Uint128, restricted, has_all_attrs, canonical_id, uuid_parse};

pub open spec fn info_of(st: StoreV) -> ContractInfoV3 { st.info->0 }

/// W1: configuration sanity
pub open spec fn w1(st: StoreV) -> bool {
    &&& st.info is Some
    &&& info_of(st).size_increment.v >= 1
    &&& info_of(st).price_precision.v <= 18
    &&& (info_of(st).size_increment.v as int) % pow10(info_of(st).price_precision.v as int) == 0
    &&& (info_of(st).ask_fee_info is Some ==> parse_dec(info_of(st).ask_fee_info->0.rate@) is Some)
    &&& (info_of(st).bid_fee_info is Some ==> parse_dec(info_of(st).bid_fee_info->0.rate@) is Some)
    &&& info_of(st).executors@.len() > 0
}
pub open spec fn price_ok(price: Seq<char>, i: ContractInfoV3) -> bool {
    &&& parse_dec(price) is Some
    &&& pq(price) > 0
    &&& is_whole(pmul(pq(price), pow10(i.price_precision.v as int)))
}
/// W2 + W3 + W4 for one ask stored under key k
pub open spec fn ask_wf(a: AskOrderV1, k: Seq<u8>, i: ContractInfoV3) -> bool {
    &&& k == str_bytes(a.id@) && uuid_parse(a.id@) is Some                                  // W2
    &&& a.size.v > 0                                                                        // W3
    &&& price_ok(a.price@, i)
    &&& (a.class is Basic <==> a.base@ == i.base_denom@)
    &&& (!(a.class is Basic) ==> str_member(i.convertible_base_denoms@, a.base@))
    &&& str_member(i.supported_quote_denoms@, a.quote@)
    &&& (is_ready(a) ==> ready_coin(a).denom@ == i.base_denom@ && ready_coin(a).amount.v == a.size.v)   // W4
}
/// W2 + W5 + W6 + W7 for one current-format bid stored under key k
pub open spec fn bid_wf(b: BidOrderV3, k: Seq<u8>, i: ContractInfoV3) -> bool {
    &&& k == str_bytes(b.id@) && uuid_parse(b.id@) is Some                                  // W2
    &&& b.base.denom@ == i.base_denom@                                                      // W5
    &&& str_member(i.supported_quote_denoms@, b.quote.denom@)
    &&& price_ok(b.price@, i)
    &&& b.quote.amount.v >= 1
    &&& (b.fee is Some ==> b.fee->0.denom@ == b.quote.denom@)
    &&& of_int(b.quote.amount.v as int) == pmul(pq(b.price@), b.base.amount.v as int)
    &&& (b.base.amount.v as int) < LIMIT96() && (b.quote.amount.v as int) < LIMIT96() && coin_amt(b.fee) < LIMIT96()   // W8 (admission converts them to Decimal)
    &&& b.accumulated_base.v < b.base.amount.v                                              // W6
    &&& b.accumulated_quote.v <= b.quote.amount.v
    &&& pmul(pq(b.price@), rem_base(b)) == of_int(rem_quote(b))
    &&& (b.fee is Some ==> b.accumulated_fee.v <= b.fee->0.amount.v                         // W7
            && rem_fee(b) == prorata(b.fee->0.amount.v as int, rem_quote(b), b.quote.amount.v as int))
}
pub open spec fn asks_wf(st: StoreV) -> bool {
    forall|k: Seq<u8>| #[trigger] st.asks.dom().contains(k) ==> ask_wf(st.asks[k], k, info_of(st))
}
pub open spec fn bids_wf(st: StoreV) -> bool {
    forall|k: Seq<u8>| #[trigger] st.bids.dom().contains(k) && st.bids[k] is V3 ==> bid_wf(st.bids[k]->V3_0, k, info_of(st))
}
pub open spec fn wf(st: StoreV) -> bool { w1(st) && asks_wf(st) && bids_wf(st) && st.asks.dom().finite() && st.bids.dom().finite() }

// ---- messages (C10)
/// a payout: drawn from the contract, mechanism chosen by the denomination's marker type, amount > 0
pub open spec fn payout_ok(m: Msg, c: Seq<char>) -> bool {
    match m {
        Msg::Bank { to, denom, amount } => amount > 0 && !restricted(denom),
        Msg::Marker { from, to, admin, denom, amount } => amount > 0 && restricted(denom) && admin == c && from == c,
        Msg::Other => false,
    }
}
pub open spec fn payouts_ok(msgs: Seq<Msg>, c: Seq<char>) -> bool {
    forall|i: int| 0 <= i < msgs.len() ==> payout_ok(#[trigger] msgs[i], c)
}
/// an escrow pull-in of a restricted marker: from the requesting sender to the contract, contract as administrator
pub open spec fn pull_ok(m: Msg, c: Seq<char>, sender: Seq<char>) -> bool {
    match m {
        Msg::Marker { from, to, admin, denom, amount } => amount > 0 && restricted(denom) && admin == c && from == sender && to == c,
        _ => false,
    }
}
/// the escrow rule of C07/C08: exactly (amount, denom) moves from the sender into the contract, by attached funds
/// of exactly that one coin for an ordinary denomination or by one pull transfer and no funds for a restricted marker
pub open spec fn escrowed_exactly(funds: Seq<Coin>, msgs: Seq<Msg>, c: Seq<char>, sender: Seq<char>, amount: int, denom: Seq<char>) -> bool {
    if restricted(denom) {
        funds.len() == 0 && msgs == seq![Msg::Marker { from: sender, to: c, admin: c, denom: denom, amount: amount }]
    } else {
        crate::shim::flat::funds_are(funds, amount, denom) && msgs == Seq::<Msg>::empty()
    }
}
pub proof fn lemma_payouts_push(msgs: Seq<Msg>, m: Msg, c: Seq<char>)
    requires payouts_ok(msgs, c), payout_ok(m, c)
    ensures payouts_ok(msgs.push(m), c)
{}
