// Liveness premises (strict mode): conditions under which a request must be accepted (C03, C06, C07, C13).

// ---- C06 exits
pub open spec fn exit_cancel_ask_ok(st: StoreV, sender: Addr, funds: Seq<Coin>, id: Seq<char>) -> bool {
    wf(st) && has_ask(st, id) && funds.len() == 0 && sender.s@ == the_ask(st, id).owner.s@
}
pub open spec fn exit_expire_ask_ok(st: StoreV, sender: Addr, funds: Seq<Coin>, id: Seq<char>, cancel_size: Option<Uint128>) -> bool {
    wf(st) && has_ask(st, id) && id.len() > 0 && funds.len() == 0 && is_member(info_of(st).executors@, sender) && cancel_size is None
}
pub open spec fn exit_bid_ok(st: StoreV, sender: Addr, funds: Seq<Coin>, id: Seq<char>, action: ContractAction, cancel_size: Option<Uint128>) -> bool {
    &&& wf(st) && has_bid(st, id) && id.len() > 0 && funds.len() == 0 && cancel_size is None
    &&& (action is CancelBid ==> sender.s@ == the_bid(st, id).owner.s@)
    &&& (!(action is CancelBid) ==> is_member(info_of(st).executors@, sender))
}
/// an exit request at the API: owner cancel or executor expire of an order that is on the book (legacy ids included)
pub open spec fn exit_request_ok(st: StoreV, sender: Addr, funds: Seq<Coin>, msg: ExecuteMsg) -> bool {
    match msg {
        ExecuteMsg::CancelAsk { id } => uuid_parse(id@) is Some && exit_cancel_ask_ok(st, sender, funds, id@),
        ExecuteMsg::ExpireAsk { id } => uuid_parse(id@) is Some && exit_expire_ask_ok(st, sender, funds, id@, None),
        ExecuteMsg::CancelBid { id } => uuid_parse(id@) is Some && exit_bid_ok(st, sender, funds, id@, ContractAction::CancelBid, None),
        ExecuteMsg::ExpireBid { id } => uuid_parse(id@) is Some && exit_bid_ok(st, sender, funds, id@, ContractAction::ExpireBid, None),
        _ => false,
    }
}
/// ... and what it achieves: the order is gone and the whole remaining escrow went back (ledger over all accounts)
pub open spec fn exit_made_whole(st: StoreV, st2: StoreV, c: Seq<char>, msg: ExecuteMsg, msgs: Seq<Msg>) -> bool {
    match msg {
        ExecuteMsg::CancelAsk { id } => !has_ask(st2, id@) && cancel_ask_ledger(st, c, id@, msgs),
        ExecuteMsg::ExpireAsk { id } => !has_ask(st2, id@) && reverse_ask_ledger(st, c, id@, None, msgs),
        ExecuteMsg::CancelBid { id } => !has_bid(st2, id@) && reverse_bid_ledger(st, c, id@, None, msgs),
        ExecuteMsg::ExpireBid { id } => !has_bid(st2, id@) && reverse_bid_ledger(st, c, id@, None, msgs),
        _ => true,
    }
}

// ---- C13: every coherent configuration is accepted
pub open spec fn fee_pair_live(account: Option<String>, rate: Option<String>) -> bool {
    (account is Some && rate is Some && !(account->0@ == ""@ && rate->0@ == ""@)) ==> parse_dec(rate->0@) is Some && valid_addr(account->0@)
}
pub open spec fn inst_live(m: InstantiateMsg) -> bool {
    inst_only_if(m) && fee_pair_live(m.ask_fee_account, m.ask_fee_rate) && fee_pair_live(m.bid_fee_account, m.bid_fee_rate)
}

// ---- C07: every request meeting the admission conditions is accepted
pub open spec fn funds_escrow_ok(funds: Seq<Coin>, amount: int, denom: Seq<char>) -> bool {
    if restricted(denom) { funds.len() == 0 } else { crate::shim::flat::funds_are(funds, amount, denom) }
}
pub open spec fn attrs_query_live(sender: Seq<char>, required: Seq<String>) -> bool {
    required.len() > 0 ==> has_all_attrs(sender, required)
}
pub open spec fn create_ask_live(st: StoreV, a: AskOrderV1, sender: Addr, funds: Seq<Coin>) -> bool {
    &&& wf(st) && a.class is Basic && a.owner.s@ == sender.s@
    &&& create_ask_only_if(st, a, sender.s@)
    &&& funds_escrow_ok(funds, a.size.v as int, a.base@)
    &&& fits(pmul(pq(a.price@), pow10(info_of(st).price_precision.v as int)))      // A-RANGE
}
pub open spec fn create_bid_live(st: StoreV, b: BidOrderV3, sender: Addr, funds: Seq<Coin>) -> bool {
    &&& wf(st) && b.owner.s@ == sender.s@
    &&& b.accumulated_base.v == 0 && b.accumulated_quote.v == 0 && b.accumulated_fee.v == 0 && b.quote.amount.v >= 1
    &&& create_bid_only_if(st, b, sender.s@)
    &&& funds_escrow_ok(funds, b.quote.amount.v + coin_amt(b.fee), b.quote.denom@)
    &&& fits(pmul(pq(b.price@), pow10(info_of(st).price_precision.v as int)))      // A-RANGE
    &&& fits(pmul(bid_fee_rate(info_of(st)), b.quote.amount.v as int))              // A-RANGE
}

/// a create request at the API that meets every admission condition
pub open spec fn create_request_ok(st: StoreV, sender: Addr, funds: Seq<Coin>, msg: ExecuteMsg) -> bool {
    match msg {
        ExecuteMsg::CreateAsk { id, base, quote, price, size } =>
            exec_msg_valid(msg) && create_ask_live(st, mk_ask(id, base, quote, price, size, sender), sender, funds),
        ExecuteMsg::CreateBid { id, base, fee, price, quote, quote_size, size } =>
            exec_msg_valid(msg) && create_bid_live(st, mk_bid(id, base, fee, price, quote, quote_size, size, sender), sender, funds),
        _ => false,
    }
}

// ---- C03: an executor's request that meets the eligibility conditions, with the configured fees payable, is carried out
pub open spec fn match_live(st: StoreV, sender: Addr, funds: Seq<Coin>, ask_id: Seq<char>, bid_id: Seq<char>, price: Seq<char>, size: int) -> bool {
    let q = match_q(st, ask_id, bid_id, price, size);
    &&& wf(st) && match_only_if(st, sender, funds, ask_id, bid_id, price, size)
    &&& (info_of(st).ask_fee_info is Some ==> fits(pmul(pq(info_of(st).ask_fee_info->0.rate@), q.g)))      // A-RANGE
    &&& fits(pq(price))
}
/// everything the no-abort proof of execute_match needs, derived once from the premise
pub proof fn lemma_match_live_facts(st: StoreV, sender: Addr, funds: Seq<Coin>, ask_id: Seq<char>, bid_id: Seq<char>, price: Seq<char>, size: int)
    requires match_live(st, sender, funds, ask_id, bid_id, price, size)
    ensures ({ let q = match_q(st, ask_id, bid_id, price, size); let b = the_bid(st, bid_id); let a = the_ask(st, ask_id);
        &&& size < LIMIT96() && 0 <= q.g <= q.og <= rem_quote(b) && q.bidfee <= q.origfee
        &&& fits(pmul(q.ep, size)) && fits(pmul(q.bp, size)) && fits(dsub(pmul(q.bp, size), pmul(q.ep, size)))
        &&& 0 <= pmul(q.ep, size) <= pmul(q.bp, size) && dsub(pmul(q.bp, size), pmul(q.ep, size)) >= 0
        &&& fee_step_live(b, q.g) && fee_step_live(b, q.og)
        &&& b.accumulated_base.v + size <= b.base.amount.v
        &&& b.accumulated_quote.v + q.og <= b.quote.amount.v
        &&& (b.fee is Some ==> b.accumulated_fee.v + q.origfee <= b.fee->0.amount.v && q.origfee >= 0)
        &&& bid_wf(b, str_bytes(bid_id), info_of(st)) && ask_wf(a, str_bytes(ask_id), info_of(st))
    })
{
    broadcast use dec_lemmas, axiom_ddiv;
    let q = match_q(st, ask_id, bid_id, price, size); let b = the_bid(st, bid_id); let a = the_ask(st, ask_id);
    let kb = str_bytes(bid_id); let ka = str_bytes(ask_id);
    assert(st.bids.dom().contains(kb) && st.bids[kb] is V3);
    assert(bid_wf(b, kb, info_of(st)));
    assert(st.asks.dom().contains(ka));
    assert(ask_wf(a, ka, info_of(st)));
    lemma_match_fee_share(st, sender, funds, ask_id, bid_id, price, size);
    lemma_pmul_sign(q.ep, size);
    // ranges: 0 <= ep*s <= bp*s <= bp*rem_base = rem_quote < 2^96
    lemma_pmul_price_mono(q.ep, q.bp, size);
    lemma_pmul_mono(q.bp, size, rem_base(b));
    lemma_pmul_sign(q.bp, size);
    axiom_fits_bounded(pmul(q.ep, size), rem_quote(b));
    axiom_fits_bounded(pmul(q.bp, size), rem_quote(b));
    reveal(dsub);
    axiom_fits_bounded(dsub(pmul(q.bp, size), pmul(q.ep, size)), rem_quote(b));
    // fee steps
    if b.fee is Some {
        let f = b.fee->0.amount.v as int; let qa = b.quote.amount.v as int;
        lemma_prorata_mono(f, rem_quote(b) - q.g, rem_quote(b), qa);
        lemma_prorata_mono(f, rem_quote(b) - q.og, rem_quote(b), qa);
        lemma_prorata_nonneg(f, rem_quote(b) - q.og, qa);
        lemma_prorata_nonneg(f, rem_quote(b) - q.g, qa);
        lemma_fee_step_fits(f, rem_quote(b) - q.g, qa);
        lemma_fee_step_fits(f, rem_quote(b) - q.og, qa);
    }
}
pub proof fn lemma_fee_step_fits(f: int, n: int, q: int)
    requires 0 <= n <= q, 1 <= q < LIMIT96(), 0 <= f < LIMIT96()
    ensures fits(ddiv(of_int(n), of_int(q))), fits(rmul(ddiv(of_int(n), of_int(q)), of_int(f)))
{
    broadcast use dec_lemmas, axiom_ddiv, axiom_rmul;
    lemma_of_int_inj(n, q); lemma_of_int_inj(0, n);
    assert(of_int(q) > 0);
    let r = ddiv(of_int(n), of_int(q));
    assert(0 <= r <= D());
    assert(D() == of_int(1)) by { reveal(of_int); }
    axiom_fits_bounded(r, 1);
    assert(0 <= rmul(r, of_int(f)) <= of_int(f));
    axiom_fits_bounded(rmul(r, of_int(f)), f);
}

pub open spec fn match_request_ok(st: StoreV, sender: Addr, funds: Seq<Coin>, msg: ExecuteMsg) -> bool {
    match msg {
        ExecuteMsg::ExecuteMatch { ask_id, bid_id, price, size } =>
            exec_msg_valid(msg) && match_live(st, sender, funds, ask_id@, bid_id@, price@, size.v as int),
        _ => false,
    }
}
