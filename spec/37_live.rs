// Liveness premises (strict mode): conditions under which a request must be accepted (C03, C06, C07, C13).

// ---- C06 exits
pub open spec fn exit_cancel_ask_ok(st: StoreV, sender: Addr, funds: Seq<Coin>, id: Seq<char>) -> bool {
    wf(st) && has_ask(st, id) && funds.len() == 0 && sender.s@ == the_ask(st, id).owner.s@
}
pub open spec fn exit_expire_ask_ok(st: StoreV, sender: Addr, funds: Seq<Coin>, id: Seq<char>, cancel_size: Option<Uint128>) -> bool {
    wf(st) && has_ask(st, id) && id.len() > 0 && funds.len() == 0 && is_member(info_of(st).executors@, sender) && cancel_size is None
}
pub open spec fn exit_bid_ok(st: StoreV, sender: Addr, funds: Seq<Coin>, id: Seq<char>, action: ContractAction, cancel_size: Option<Uint128>) -> bool {
    &&& wf(st) && has_bid(st, id) && id.len() > 0 && funds.len() == 0 && cancel_size is None
    &&& (action is CancelBid ==> sender.s@ == the_bid(st, id).owner.s@)
    &&& (!(action is CancelBid) ==> is_member(info_of(st).executors@, sender))
}
/// an exit request at the API: owner cancel or executor expire of an order that is on the book (legacy ids included)
pub open spec fn exit_request_ok(st: StoreV, sender: Addr, funds: Seq<Coin>, msg: ExecuteMsg) -> bool {
    match msg {
        ExecuteMsg::CancelAsk { id } => uuid_parse(id@) is Some && exit_cancel_ask_ok(st, sender, funds, id@),
        ExecuteMsg::ExpireAsk { id } => uuid_parse(id@) is Some && exit_expire_ask_ok(st, sender, funds, id@, None),
        ExecuteMsg::CancelBid { id } => uuid_parse(id@) is Some && exit_bid_ok(st, sender, funds, id@, ContractAction::CancelBid, None),
        ExecuteMsg::ExpireBid { id } => uuid_parse(id@) is Some && exit_bid_ok(st, sender, funds, id@, ContractAction::ExpireBid, None),
        _ => false,
    }
}
/// ... and what it achieves: the order is gone and the whole remaining escrow went back (ledger over all accounts)
pub open spec fn exit_made_whole(st: StoreV, st2: StoreV, c: Seq<char>, msg: ExecuteMsg, msgs: Seq<Msg>) -> bool {
    match msg {
        ExecuteMsg::CancelAsk { id } => !has_ask(st2, id@) && cancel_ask_ledger(st, c, id@, msgs),
        ExecuteMsg::ExpireAsk { id } => !has_ask(st2, id@) && reverse_ask_ledger(st, c, id@, None, msgs),
        ExecuteMsg::CancelBid { id } => !has_bid(st2, id@) && reverse_bid_ledger(st, c, id@, None, msgs),
        ExecuteMsg::ExpireBid { id } => !has_bid(st2, id@) && reverse_bid_ledger(st, c, id@, None, msgs),
        _ => true,
    }
}
