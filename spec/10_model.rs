// Ghost model of the contract's storage (DESIGN.md 5.1) and order-level quantities.
use crate::ask_order::{AskOrderV1, AskOrderClass, AskOrderStatus};
use crate::bid_order::{BidOrderV2, BidOrderV3};
use crate::common::{Action, Event, FeeInfo, ContractAction};
use crate::contract_info::ContractInfoV3;
use crate::version_info::VersionInfoV1;

pub enum BidEntry { V3(BidOrderV3), V2(BidOrderV2) }

pub ghost struct StoreV {
    pub asks: Map<Seq<u8>, AskOrderV1>,       // namespace "ask"
    pub bids: Map<Seq<u8>, BidEntry>,         // namespace "bid" (two formats share it)
    pub info: Option<ContractInfoV3>,         // item "contract_info"
    pub version: Option<VersionInfoV1>,       // item "version_info"
}

/// what cw_storage_plus::Map<&[u8], Self> does to the storage view (A-STORE)
pub trait MapStored: Sized {
    spec fn m_raw(st: StoreV, k: Seq<u8>) -> bool;               // some value is stored under k in this namespace
    spec fn m_get(st: StoreV, k: Seq<u8>) -> Option<Self>;       // ... and it deserialises as Self
    spec fn m_put(st: StoreV, k: Seq<u8>, v: Self) -> StoreV;
    spec fn m_del(st: StoreV, k: Seq<u8>) -> StoreV;
    spec fn m_empty(st: StoreV) -> bool;
}
impl MapStored for AskOrderV1 {
    open spec fn m_raw(st: StoreV, k: Seq<u8>) -> bool { st.asks.dom().contains(k) }
    open spec fn m_get(st: StoreV, k: Seq<u8>) -> Option<AskOrderV1> { if st.asks.dom().contains(k) { Some(st.asks[k]) } else { None } }
    open spec fn m_put(st: StoreV, k: Seq<u8>, v: AskOrderV1) -> StoreV { StoreV { asks: st.asks.insert(k, v), ..st } }
    open spec fn m_del(st: StoreV, k: Seq<u8>) -> StoreV { StoreV { asks: st.asks.remove(k), ..st } }
    open spec fn m_empty(st: StoreV) -> bool { st.asks.dom() =~= Set::<Seq<u8>>::empty() }
}
impl MapStored for BidOrderV3 {
    open spec fn m_raw(st: StoreV, k: Seq<u8>) -> bool { st.bids.dom().contains(k) }
    open spec fn m_get(st: StoreV, k: Seq<u8>) -> Option<BidOrderV3> {
        if st.bids.dom().contains(k) { match st.bids[k] { BidEntry::V3(b) => Some(b), _ => None } } else { None }
    }
    open spec fn m_put(st: StoreV, k: Seq<u8>, v: BidOrderV3) -> StoreV { StoreV { bids: st.bids.insert(k, BidEntry::V3(v)), ..st } }
    open spec fn m_del(st: StoreV, k: Seq<u8>) -> StoreV { StoreV { bids: st.bids.remove(k), ..st } }
    open spec fn m_empty(st: StoreV) -> bool { st.bids.dom() =~= Set::<Seq<u8>>::empty() }
}
impl MapStored for BidOrderV2 {
    open spec fn m_raw(st: StoreV, k: Seq<u8>) -> bool { st.bids.dom().contains(k) }
    open spec fn m_get(st: StoreV, k: Seq<u8>) -> Option<BidOrderV2> {
        if st.bids.dom().contains(k) { match st.bids[k] { BidEntry::V2(b) => Some(b), _ => None } } else { None }
    }
    open spec fn m_put(st: StoreV, k: Seq<u8>, v: BidOrderV2) -> StoreV { StoreV { bids: st.bids.insert(k, BidEntry::V2(v)), ..st } }
    open spec fn m_del(st: StoreV, k: Seq<u8>) -> StoreV { StoreV { bids: st.bids.remove(k), ..st } }
    open spec fn m_empty(st: StoreV) -> bool { st.bids.dom() =~= Set::<Seq<u8>>::empty() }
}
pub trait ItemStored: Sized {
    spec fn i_get(st: StoreV) -> Option<Self>;
    spec fn i_put(st: StoreV, v: Self) -> StoreV;
}
impl ItemStored for ContractInfoV3 {
    open spec fn i_get(st: StoreV) -> Option<ContractInfoV3> { st.info }
    open spec fn i_put(st: StoreV, v: ContractInfoV3) -> StoreV { StoreV { info: Some(v), ..st } }
}
impl ItemStored for VersionInfoV1 {
    open spec fn i_get(st: StoreV) -> Option<VersionInfoV1> { st.version }
    open spec fn i_put(st: StoreV, v: VersionInfoV1) -> StoreV { StoreV { version: Some(v), ..st } }
}

// ---- order-level quantities
pub open spec fn rem_base(b: BidOrderV3) -> int { b.base.amount.v - b.accumulated_base.v }
pub open spec fn rem_quote(b: BidOrderV3) -> int { b.quote.amount.v - b.accumulated_quote.v }
pub open spec fn rem_fee(b: BidOrderV3) -> int { match b.fee { None => 0, Some(f) => f.amount.v - b.accumulated_fee.v } }
pub open spec fn coin_amt(c: Option<crate::shim::flat::Coin>) -> int { match c { None => 0, Some(c) => c.amount.v as int } }

pub open spec fn ask_key(st: StoreV, id: Seq<char>) -> Seq<u8> { str_bytes(id) }
pub open spec fn has_ask(st: StoreV, id: Seq<char>) -> bool { st.asks.dom().contains(str_bytes(id)) }
pub open spec fn the_ask(st: StoreV, id: Seq<char>) -> AskOrderV1 { st.asks[str_bytes(id)] }
pub open spec fn has_bid(st: StoreV, id: Seq<char>) -> bool {
    st.bids.dom().contains(str_bytes(id)) && st.bids[str_bytes(id)] is V3
}
pub open spec fn the_bid(st: StoreV, id: Seq<char>) -> BidOrderV3 { st.bids[str_bytes(id)]->V3_0 }

pub open spec fn is_ready(a: AskOrderV1) -> bool {
    a.class is Convertible && a.class->status is Ready
}
pub open spec fn is_pending(a: AskOrderV1) -> bool {
    a.class is Convertible && a.class->status is PendingIssuerApproval
}
pub open spec fn ready_approver(a: AskOrderV1) -> Seq<char> { a.class->status->approver.s@ }
pub open spec fn ready_coin(a: AskOrderV1) -> crate::shim::flat::Coin { a.class->status->converted_base }

/// role membership, phrased with the trigger the std `contains` specification uses
pub open spec fn is_member(list: Seq<crate::shim::flat::Addr>, a: crate::shim::flat::Addr) -> bool {
    exists|i: int| 0 <= i < list.len() && vstd::std_specs::cmp::PartialEqSpec::eq_spec(&#[trigger] list[i], &a)
}
pub open spec fn str_member(list: Seq<String>, a: Seq<char>) -> bool {
    exists|i: int| 0 <= i < list.len() && (#[trigger] list[i])@ == a
}

/// strict mode: the arithmetic of calculate_fee / the reject fee stays inside rust_decimal's range (A-RANGE)
pub open spec fn fee_step_live(b: BidOrderV3, g: int) -> bool {
    b.fee is Some ==> {
        let f = b.fee->0.amount.v as int; let q = b.quote.amount.v as int; let n = rem_quote(b) - g;
        &&& rem_quote(b) >= g && rem_fee(b) >= 0
        &&& q != 0 && q < LIMIT96() && n < LIMIT96() && f < LIMIT96()
        &&& fits(ddiv(of_int(n), of_int(q)))
        &&& fits(rmul(ddiv(of_int(n), of_int(q)), of_int(f)))
        &&& rem_fee(b) >= prorata(f, n, q)
    }
}

pub open spec fn in_addrs(l: Seq<crate::shim::flat::Addr>, s: Seq<char>) -> bool { exists|i: int| 0 <= i < l.len() && (#[trigger] l[i]).s@ == s }
pub open spec fn in_strs(l: Seq<String>, s: Seq<char>) -> bool { exists|i: int| 0 <= i < l.len() && (#[trigger] l[i])@ == s }
pub open spec fn in_names(l: Seq<crate::shim::flat::ProvAttribute>, s: Seq<char>) -> bool { exists|i: int| 0 <= i < l.len() && (#[trigger] l[i]).name@ == s }
