// Per-operation specifications for create_ask, create_bid and approve_ask (C07, C08, C09).

pub open spec fn has_attrs_if_required(sender: Seq<char>, required: Seq<String>) -> bool {
    required.len() > 0 ==> has_all_attrs(sender, required)
}
// ---------------- create_ask
pub open spec fn create_ask_only_if(st: StoreV, a: AskOrderV1, sender: Seq<char>) -> bool {
    let i = info_of(st);
    &&& (a.base@ == i.base_denom@ || str_member(i.convertible_base_denoms@, a.base@))
    &&& str_member(i.supported_quote_denoms@, a.quote@)
    &&& a.size.v >= 1 && (a.size.v as int) % (i.size_increment.v as int) == 0
    &&& price_ok(a.price@, i)
    &&& has_attrs_if_required(sender, i.ask_required_attributes@)
    &&& canonical_id(a.id@)
    &&& !st.asks.dom().contains(str_bytes(a.id@))
}
pub open spec fn create_ask_recorded(st: StoreV, st2: StoreV, a: AskOrderV1) -> bool {
    let k = str_bytes(a.id@);
    &&& st2.bids == st.bids && st2.info == st.info && st2.version == st.version
    &&& st2.asks.dom().contains(k) && st2.asks =~= st.asks.insert(k, st2.asks[k])
    &&& ask_same_terms(a, st2.asks[k]) && st2.asks[k].size.v == a.size.v
    &&& (if a.base@ == info_of(st).base_denom@ { st2.asks[k].class is Basic } else { is_pending(st2.asks[k]) })
}
pub open spec fn create_ask_attrs(attrs: Seq<(Seq<char>, Seq<char>)>, a: AskOrderV1) -> bool {
    &&& has_attr(attrs, "action"@, "create_ask"@)
    &&& has_attr(attrs, "id"@, a.id@)
    &&& has_attr(attrs, "base"@, a.base@)
    &&& has_attr(attrs, "quote"@, a.quote@)
    &&& has_attr(attrs, "price"@, a.price@)
    &&& has_attr(attrs, "size"@, u128_str(a.size.v as int))
}

// ---------------- create_bid
pub open spec fn bid_fee_rate(i: ContractInfoV3) -> int {
    match i.bid_fee_info { Some(fi) => pq(fi.rate@), None => 0 }
}
pub open spec fn create_bid_only_if(st: StoreV, b: BidOrderV3, sender: Seq<char>) -> bool {
    let i = info_of(st);
    &&& price_ok(b.price@, i)
    &&& b.base.amount.v >= 1 && (b.base.amount.v as int) % (i.size_increment.v as int) == 0
    &&& is_whole(pmul(pq(b.price@), b.base.amount.v as int))
    &&& of_int(b.quote.amount.v as int) == pmul(pq(b.price@), b.base.amount.v as int)
    &&& (b.base.amount.v as int) < LIMIT96() && (b.quote.amount.v as int) < LIMIT96() && coin_amt(b.fee) < LIMIT96()
    &&& coin_amt(b.fee) == fee_of(bid_fee_rate(i), b.quote.amount.v as int)
    &&& (b.fee is Some ==> b.fee->0.denom@ == b.quote.denom@)
    &&& str_member(i.supported_quote_denoms@, b.quote.denom@)
    &&& b.base.denom@ == i.base_denom@
    &&& has_attrs_if_required(sender, i.bid_required_attributes@)
    &&& canonical_id(b.id@)
    &&& !st.bids.dom().contains(str_bytes(b.id@))
}
pub open spec fn create_bid_recorded(st: StoreV, st2: StoreV, b: BidOrderV3) -> bool {
    let k = str_bytes(b.id@);
    &&& st2.asks == st.asks && st2.info == st.info && st2.version == st.version
    &&& st2.bids =~= st.bids.insert(k, BidEntry::V3(b))
}
pub open spec fn create_bid_attrs(attrs: Seq<(Seq<char>, Seq<char>)>, b: BidOrderV3) -> bool {
    &&& has_attr(attrs, "action"@, "create_bid"@)
    &&& has_attr(attrs, "id"@, b.id@)
    &&& has_attr(attrs, "base"@, b.base.denom@)
    &&& has_attr(attrs, "quote"@, b.quote.denom@)
    &&& has_attr(attrs, "price"@, b.price@)
    &&& has_attr(attrs, "quote_size"@, u128_str(b.quote.amount.v as int))
    &&& has_attr(attrs, "size"@, u128_str(b.base.amount.v as int))
}

// ---------------- approve_ask
pub open spec fn approve_only_if(st: StoreV, sender: Addr, id: Seq<char>, base: Seq<char>, size: int) -> bool {
    let a = the_ask(st, id);
    &&& is_member(info_of(st).approvers@, sender)
    &&& has_ask(st, id)
    &&& is_pending(a)
    &&& size == a.size.v
    &&& base == info_of(st).base_denom@
}
pub open spec fn approve_recorded(st: StoreV, st2: StoreV, sender: Seq<char>, id: Seq<char>, base: Seq<char>, size: int) -> bool {
    let a = the_ask(st, id);
    let k = str_bytes(id);
    &&& st2.bids == st.bids && st2.info == st.info && st2.version == st.version
    &&& st2.asks.dom().contains(k) && st2.asks =~= st.asks.insert(k, st2.asks[k])
    &&& ask_same_terms(a, st2.asks[k]) && st2.asks[k].size.v == a.size.v
    &&& is_ready(st2.asks[k]) && ready_approver(st2.asks[k]) == sender
    &&& ready_coin(st2.asks[k]).denom@ == base && ready_coin(st2.asks[k]).amount.v == size
}
pub open spec fn approve_attrs(attrs: Seq<(Seq<char>, Seq<char>)>, a: AskOrderV1) -> bool {
    &&& has_attr(attrs, "action"@, "approve_ask"@)
    &&& has_attr(attrs, "id"@, a.id@)
    &&& has_attr(attrs, "quote"@, a.quote@)
    &&& has_attr(attrs, "price"@, a.price@)
    &&& has_attr(attrs, "size"@, u128_str(a.size.v as int))
}
