// C17: an off-chain record kept in step with the response attributes alone never diverges from the book.
// The record (Shadow) maps order ids to remaining size (and approval state for asks).  `reported` is what the
// attribute clauses (C17.attrs of every handler, collected in exec_post) guarantee to be present in the response;
// `shadow_step` uses nothing but those reported values; lemma_C17_shadow shows it reproduces the projection of the
// real book after every successful request.

pub ghost struct ShadowAsk { pub remaining: int, pub approved: bool }
/// the off-chain record: per order id, the open asks (remaining size, approval state) and open bids (remaining size)
pub ghost struct Shadow { pub asks: spec_fn(Seq<char>) -> Option<ShadowAsk>, pub bids: spec_fn(Seq<char>) -> Option<int> }

pub open spec fn proj_ask(st: StoreV, id: Seq<char>) -> Option<ShadowAsk> {
    if has_ask(st, id) { Some(ShadowAsk { remaining: the_ask(st, id).size.v as int, approved: is_ready(the_ask(st, id)) }) } else { None }
}
pub open spec fn proj_bid(st: StoreV, id: Seq<char>) -> Option<int> {
    if has_bid(st, id) { Some(rem_base(the_bid(st, id))) } else { None }
}
pub open spec fn proj(st: StoreV) -> Shadow {
    Shadow { asks: |id: Seq<char>| proj_ask(st, id), bids: |id: Seq<char>| proj_bid(st, id) }
}
/// the values a response reports (attribute keys in comments)
pub ghost struct Reported {
    pub action: Seq<char>,      // "action"
    pub id: Seq<char>,          // "id" / "ask_id"
    pub id2: Seq<char>,         // "bid_id" (match only)
    pub size: int,              // "size" / "reverse_size", decimal digits
    pub open: bool,             // "order_open" == "true"
}
pub open spec fn reduce_ask(cur: Option<ShadowAsk>, n: int, open: bool) -> Option<ShadowAsk> {
    if open { Some(ShadowAsk { remaining: cur->0.remaining - n, approved: cur->0.approved }) } else { None }
}
pub open spec fn reduce_bid(cur: Option<int>, n: int, open: bool) -> Option<int> {
    if open { Some(cur->0 - n) } else { None }
}
/// the record after a response, computed from the reported values only
pub open spec fn step_ask(sh: Shadow, r: Reported, id: Seq<char>) -> Option<ShadowAsk> {
    let cur = (sh.asks)(id);
    if id != r.id { cur }
    else if r.action == "create_ask"@ { Some(ShadowAsk { remaining: r.size, approved: false }) }
    else if r.action == "approve_ask"@ { Some(ShadowAsk { remaining: cur->0.remaining, approved: true }) }
    else if r.action == "cancel_ask"@ { None }
    else if r.action == "expire_ask"@ || r.action == "reject_ask"@ { reduce_ask(cur, r.size, r.open) }
    // a match reports no open flag: an order is closed exactly when its recorded remainder reaches zero
    else if r.action == "execute"@ { reduce_ask(cur, r.size, cur->0.remaining != r.size) }
    else { cur }
}
pub open spec fn step_bid(sh: Shadow, r: Reported, id: Seq<char>) -> Option<int> {
    let cur = (sh.bids)(id);
    if r.action == "execute"@ { if id != r.id2 { cur } else { reduce_bid(cur, r.size, cur->0 != r.size) } }
    else if id != r.id { cur }
    else if r.action == "create_bid"@ { Some(r.size) }
    else if r.action == "cancel_bid"@ || r.action == "expire_bid"@ || r.action == "reject_bid"@ { reduce_bid(cur, r.size, r.open) }
    else { cur }
}
/// what exec_post guarantees the response to report, per request kind
pub open spec fn reported(st: StoreV, st2: StoreV, msg: ExecuteMsg) -> Reported {
    match msg {
        ExecuteMsg::CreateAsk { id, base, quote, price, size } => Reported { action: "create_ask"@, id: id@, id2: id@, size: size.v as int, open: true },
        ExecuteMsg::CreateBid { id, base, fee, price, quote, quote_size, size } => Reported { action: "create_bid"@, id: id@, id2: id@, size: size.v as int, open: true },
        ExecuteMsg::ApproveAsk { id, base, size } => Reported { action: "approve_ask"@, id: the_ask(st, id@).id@, id2: id@, size: the_ask(st, id@).size.v as int, open: true },
        ExecuteMsg::CancelAsk { id } => Reported { action: "cancel_ask"@, id: the_ask(st, id@).id@, id2: id@, size: 0, open: false },
        ExecuteMsg::ExpireAsk { id } => Reported { action: "expire_ask"@, id: id@, id2: id@, size: the_ask(st, id@).size.v as int, open: has_ask(st2, id@) },
        ExecuteMsg::RejectAsk { id, size } => Reported { action: "reject_ask"@, id: id@, id2: id@, size: reverse_size(size, the_ask(st, id@).size.v as int), open: has_ask(st2, id@) },
        ExecuteMsg::CancelBid { id } => Reported { action: "cancel_bid"@, id: id@, id2: id@, size: rem_base(the_bid(st, id@)), open: has_bid(st2, id@) },
        ExecuteMsg::ExpireBid { id } => Reported { action: "expire_bid"@, id: id@, id2: id@, size: rem_base(the_bid(st, id@)), open: has_bid(st2, id@) },
        ExecuteMsg::RejectBid { id, size } => Reported { action: "reject_bid"@, id: id@, id2: id@, size: reverse_size(size, rem_base(the_bid(st, id@))), open: has_bid(st2, id@) },
        ExecuteMsg::ExecuteMatch { ask_id, bid_id, price, size } => Reported { action: "execute"@, id: ask_id@, id2: bid_id@, size: size.v as int, open: true },
        ExecuteMsg::ModifyContract { .. } => Reported { action: "modify_contract"@, id: Seq::<char>::empty(), id2: Seq::<char>::empty(), size: 0, open: true },
    }
}
/// the reported values really are in the response (membership), readable back from their decimal strings
pub open spec fn attrs_report(attrs: Seq<(Seq<char>, Seq<char>)>, msg: ExecuteMsg, r: Reported) -> bool {
    &&& has_attr(attrs, "action"@, r.action)
    &&& (match msg {
            ExecuteMsg::ModifyContract { .. } => true,
            ExecuteMsg::ExecuteMatch { .. } => has_attr(attrs, "ask_id"@, r.id) && has_attr(attrs, "bid_id"@, r.id2) && has_attr(attrs, "size"@, u128_str(r.size)),
            ExecuteMsg::CancelAsk { .. } => has_attr(attrs, "id"@, r.id),
            ExecuteMsg::CreateAsk { .. } => has_attr(attrs, "id"@, r.id) && has_attr(attrs, "size"@, u128_str(r.size)),
            ExecuteMsg::CreateBid { .. } => has_attr(attrs, "id"@, r.id) && has_attr(attrs, "size"@, u128_str(r.size)),
            ExecuteMsg::ApproveAsk { .. } => has_attr(attrs, "id"@, r.id) && has_attr(attrs, "size"@, u128_str(r.size)),
            _ => has_attr(attrs, "id"@, r.id) && has_attr(attrs, "reverse_size"@, u128_str(r.size))
                 && has_attr(attrs, "order_open"@, if r.open { "true"@ } else { "false"@ }),
        })
}
pub proof fn lemma_key_inj(a: Seq<char>, b: Seq<char>)
    ensures (str_bytes(a) == str_bytes(b)) == (a == b)
{
    broadcast use axiom_str_bytes;
    if str_bytes(a) == str_bytes(b) { assert(bytes_str(str_bytes(a)) == bytes_str(str_bytes(b))); }
}
/// the stored id of an order is the id it is addressed by (W2)
pub proof fn lemma_stored_id(st: StoreV, id: Seq<char>)
    requires wf(st)
    ensures has_ask(st, id) ==> the_ask(st, id).id@ == id, has_bid(st, id) ==> the_bid(st, id).id@ == id
{
    if has_ask(st, id) { let k = str_bytes(id); assert(st.asks.dom().contains(k)); assert(ask_wf(st.asks[k], k, info_of(st))); lemma_key_inj(the_ask(st, id).id@, id); }
    if has_bid(st, id) { let k = str_bytes(id); assert(st.bids.dom().contains(k) && st.bids[k] is V3); assert(bid_wf(st.bids[k]->V3_0, k, info_of(st))); lemma_key_inj(the_bid(st, id).id@, id); }
}

/// the eleven action names are pairwise different strings
pub proof fn lemma_action_names_distinct()
    ensures
        "create_ask"@.len() == 10 && "create_ask"@[0] == 'c' && "create_ask"@[1] == 'r' && "create_ask"@[7] == 'a',
        "create_bid"@.len() == 10 && "create_bid"@[0] == 'c' && "create_bid"@[1] == 'r' && "create_bid"@[7] == 'b',
        "cancel_ask"@.len() == 10 && "cancel_ask"@[0] == 'c' && "cancel_ask"@[1] == 'a' && "cancel_ask"@[7] == 'a',
        "cancel_bid"@.len() == 10 && "cancel_bid"@[0] == 'c' && "cancel_bid"@[1] == 'a' && "cancel_bid"@[7] == 'b',
        "expire_ask"@.len() == 10 && "expire_ask"@[0] == 'e' && "expire_ask"@[1] == 'x' && "expire_ask"@[7] == 'a',
        "expire_bid"@.len() == 10 && "expire_bid"@[0] == 'e' && "expire_bid"@[1] == 'x' && "expire_bid"@[7] == 'b',
        "reject_ask"@.len() == 10 && "reject_ask"@[0] == 'r' && "reject_ask"@[1] == 'e' && "reject_ask"@[7] == 'a',
        "reject_bid"@.len() == 10 && "reject_bid"@[0] == 'r' && "reject_bid"@[1] == 'e' && "reject_bid"@[7] == 'b',
        "approve_ask"@.len() == 11, "execute"@.len() == 7, "modify_contract"@.len() == 15,
{
    reveal_strlit("create_ask"); reveal_strlit("create_bid"); reveal_strlit("approve_ask"); reveal_strlit("cancel_ask");
    reveal_strlit("expire_ask"); reveal_strlit("reject_ask"); reveal_strlit("cancel_bid"); reveal_strlit("expire_bid");
    reveal_strlit("reject_bid"); reveal_strlit("execute"); reveal_strlit("modify_contract");
}

//@lemma props=C17
pub proof fn lemma_C17_shadow(st: StoreV, st2: StoreV, c: Seq<char>, sender: Addr, funds: Seq<Coin>, msg: ExecuteMsg,
                              msgs: Seq<Msg>, attrs: Seq<(Seq<char>, Seq<char>)>, id: Seq<char>)
    requires wf(st), exec_msg_valid(msg), exec_post(st, st2, c, sender, funds, msg, msgs, attrs)
    ensures attrs_report(attrs, msg, reported(st, st2, msg)),
            proj_ask(st2, id) == step_ask(proj(st), reported(st, st2, msg), id),
            proj_bid(st2, id) == step_bid(proj(st), reported(st, st2, msg), id),
{
    let r = reported(st, st2, msg);
    lemma_action_names_distinct();
    assert forall|x: Seq<char>, y: Seq<char>| (#[trigger] str_bytes(x) == #[trigger] str_bytes(y)) == (x == y) by { lemma_key_inj(x, y); }
    let sh = proj(st);
    match msg {
        ExecuteMsg::CreateAsk { id: i, base, quote, price, size } => {
            assert(proj_ask(st2, id) == step_ask(sh, r, id));
            assert(proj_bid(st2, id) == step_bid(sh, r, id));
        },
        ExecuteMsg::CreateBid { id: i, base, fee, price, quote, quote_size, size } => {
            assert(proj_ask(st2, id) == step_ask(sh, r, id));
            assert(proj_bid(st2, id) == step_bid(sh, r, id));
        },
        ExecuteMsg::ApproveAsk { id: i, base, size } => { lemma_stored_id(st, i@);
            assert(proj_ask(st2, id) == step_ask(sh, r, id));
            assert(proj_bid(st2, id) == step_bid(sh, r, id));
        },
        ExecuteMsg::CancelAsk { id: i } => { lemma_stored_id(st, i@);
            assert(proj_ask(st2, id) == step_ask(sh, r, id));
            assert(proj_bid(st2, id) == step_bid(sh, r, id));
        },
        ExecuteMsg::ExpireAsk { id: i } => {
            assert(proj_ask(st2, id) == step_ask(sh, r, id));
            assert(proj_bid(st2, id) == step_bid(sh, r, id));
        },
        ExecuteMsg::RejectAsk { id: i, size } => {
            assert(proj_ask(st2, id) == step_ask(sh, r, id));
            assert(proj_bid(st2, id) == step_bid(sh, r, id));
        },
        ExecuteMsg::CancelBid { id: i } => {
            assert(proj_ask(st2, id) == step_ask(sh, r, id));
            assert(proj_bid(st2, id) == step_bid(sh, r, id));
        },
        ExecuteMsg::ExpireBid { id: i } => {
            assert(proj_ask(st2, id) == step_ask(sh, r, id));
            assert(proj_bid(st2, id) == step_bid(sh, r, id));
        },
        ExecuteMsg::RejectBid { id: i, size } => {
            assert(proj_ask(st2, id) == step_ask(sh, r, id));
            assert(proj_bid(st2, id) == step_bid(sh, r, id));
        },
        ExecuteMsg::ExecuteMatch { ask_id, bid_id, price, size } => {
            assert(proj_ask(st2, id) == step_ask(sh, r, id));
            assert(proj_bid(st2, id) == step_bid(sh, r, id));
        },
        ExecuteMsg::ModifyContract { .. } => {
            assert(proj_ask(st2, id) == step_ask(sh, r, id));
            assert(proj_bid(st2, id) == step_bid(sh, r, id));
        },
    }
}
