// Per-operation specifications for reverse_bid (cancel / expire / reject) and execute_match,
// written from the statements of C02, C03, C04, C05, C09.

pub open spec fn bid_same_terms(a: BidOrderV3, b: BidOrderV3) -> bool {
    a.id@ == b.id@ && a.owner.s@ == b.owner.s@ && a.price@ == b.price@ && a.base == b.base && a.quote == b.quote && a.fee == b.fee
}
/// b2 is b with `db`, `dq`, `df` more base / quote / fee consumed
pub open spec fn bid_advanced(b: BidOrderV3, b2: BidOrderV3, db: int, dq: int, df: int) -> bool {
    &&& bid_same_terms(b, b2)
    &&& b2.accumulated_base.v == b.accumulated_base.v + db
    &&& b2.accumulated_quote.v == b.accumulated_quote.v + dq
    &&& b2.accumulated_fee.v == b.accumulated_fee.v + df
}
/// the fee no longer needed once `dq` more quote has been consumed (pro-rata, C09)
pub open spec fn fee_released(b: BidOrderV3, dq: int) -> int {
    match b.fee {
        Some(f) => rem_fee(b) - prorata(f.amount.v as int, rem_quote(b) - dq, b.quote.amount.v as int),
        None => 0,
    }
}

/// releasing more quote never releases less fee (monotonicity of the pro-rata share; rests on A-DEC-DIV)
pub broadcast proof fn lemma_fee_released_mono(b: BidOrderV3, x: int, y: int)
    requires 0 <= x <= y <= rem_quote(b), b.quote.amount.v >= 1, rem_quote(b) <= b.quote.amount.v
    ensures #![trigger fee_released(b, x), fee_released(b, y)] fee_released(b, x) <= fee_released(b, y)
{
    if b.fee is Some {
        lemma_prorata_mono(b.fee->0.amount.v as int, rem_quote(b) - y, rem_quote(b) - x, b.quote.amount.v as int);
    }
}
/// gross proceeds are monotone in the price
pub broadcast proof fn lemma_gross_mono(p: int, q: int, n: int)
    requires p <= q, n >= 0
    ensures #![trigger gross(p, n), gross(q, n)] gross(p, n) <= gross(q, n)
{
    lemma_pmul_price_mono(p, q, n);
    lemma_whole_mono(pmul(p, n), pmul(q, n));
}

// ---------------- reverse_bid
pub open spec fn reverse_bid_only_if(st: StoreV, sender: Addr, funds: Seq<Coin>, id: Seq<char>, action: ContractAction, cancel_size: Option<Uint128>) -> bool {
    let b = the_bid(st, id);
    let c = reverse_size(cancel_size, rem_base(b));
    &&& id.len() > 0
    &&& funds.len() == 0
    &&& has_bid(st, id)
    &&& (action is CancelBid ==> sender.s@ == b.owner.s@)
    &&& (!(action is CancelBid) ==> is_member(info_of(st).executors@, sender))
    &&& (cancel_size is Some ==> c % (info_of(st).size_increment.v as int) == 0)
    &&& 1 <= c <= rem_base(b)
    &&& is_whole(pmul(pq(b.price@), c))
}
pub open spec fn reverse_bid_ledger(st: StoreV, c: Seq<char>, id: Seq<char>, cancel_size: Option<Uint128>, msgs: Seq<Msg>) -> bool {
    let b = the_bid(st, id);
    let n = reverse_size(cancel_size, rem_base(b));
    let cq = gross(pq(b.price@), n);
    forall|acct: Seq<char>, dn: Seq<char>| #[trigger] net(msgs, c, acct, dn) ==
        tr(b.owner.s@, c, b.quote.denom@, cq, acct, dn) + tr(b.owner.s@, c, b.quote.denom@, fee_released(b, cq), acct, dn)
}
pub open spec fn reverse_bid_state(st: StoreV, st2: StoreV, id: Seq<char>, cancel_size: Option<Uint128>) -> bool {
    let b = the_bid(st, id);
    let n = reverse_size(cancel_size, rem_base(b));
    let cq = gross(pq(b.price@), n);
    let k = str_bytes(id);
    &&& st2.asks == st.asks && st2.info == st.info && st2.version == st.version
    &&& (n == rem_base(b) ==> st2.bids =~= st.bids.remove(k))
    &&& (n != rem_base(b) ==> st2.bids.dom() =~= st.bids.dom() && st2.bids.dom().contains(k) && st2.bids[k] is V3
            && st2.bids =~= st.bids.insert(k, st2.bids[k]) && bid_advanced(b, st2.bids[k]->V3_0, n, cq, fee_released(b, cq)))
}

// ---------------- execute_match
pub ghost struct MatchQ {
    pub s: int, pub ep: int, pub ap: int, pub bp: int,
    pub g: int, pub og: int,            // execution gross, gross at the bid's limit price
    pub askfee: int, pub bidfee: int, pub origfee: int,
    pub refund_q: int, pub refund_f: int,
    pub spent_q: int, pub spent_f: int, // what leaves the bid's escrow: fill + refund
}
pub open spec fn match_q(st: StoreV, ask_id: Seq<char>, bid_id: Seq<char>, price: Seq<char>, size: int) -> MatchQ {
    let a = the_ask(st, ask_id); let b = the_bid(st, bid_id);
    let ep = pq(price); let bp = pq(b.price@);
    let g = gross(ep, size); let og = gross(bp, size);
    let askfee = match info_of(st).ask_fee_info { Some(fi) => fee_of(pq(fi.rate@), g), None => 0 };
    let bidfee = fee_released(b, g);
    let origfee = fee_released(b, og);
    let improved = ep < bp;
    MatchQ { s: size, ep: ep, ap: pq(a.price@), bp: bp, g: g, og: og, askfee: askfee, bidfee: bidfee, origfee: origfee,
        refund_q: if improved { og - g } else { 0 },
        // lemma_match_fee_share shows origfee >= bidfee in every well-formed book, i.e. this is origfee - bidfee
        refund_f: if improved && origfee > bidfee { origfee - bidfee } else { 0 },
        spent_q: if improved { og } else { g },
        spent_f: if improved && origfee > bidfee { origfee } else { bidfee } }
}
pub open spec fn match_only_if(st: StoreV, sender: Addr, funds: Seq<Coin>, ask_id: Seq<char>, bid_id: Seq<char>, price: Seq<char>, size: int) -> bool {
    let a = the_ask(st, ask_id); let b = the_bid(st, bid_id);
    let q = match_q(st, ask_id, bid_id, price, size);
    &&& is_member(info_of(st).executors@, sender)
    &&& funds.len() == 0
    &&& has_ask(st, ask_id) && has_bid(st, bid_id)
    &&& a.quote@ == b.quote.denom@
    &&& !is_pending(a)
    &&& parse_dec(price) is Some
    &&& q.ap <= q.bp
    &&& (q.ep == q.ap || q.ep == q.bp)
    &&& 1 <= size <= a.size.v && size <= rem_base(b)
    &&& is_whole(pmul(q.ep, size))
    &&& (q.ep < q.bp ==> is_whole(pmul(q.bp, size)))
    // fees payable
    &&& 0 <= q.askfee <= q.g
    &&& (q.bidfee > 0 ==> info_of(st).bid_fee_info is Some)
    &&& 0 <= q.bidfee
}
pub open spec fn match_ledger(st: StoreV, c: Seq<char>, ask_id: Seq<char>, bid_id: Seq<char>, price: Seq<char>, size: int, msgs: Seq<Msg>) -> bool {
    let a = the_ask(st, ask_id); let b = the_bid(st, bid_id);
    let q = match_q(st, ask_id, bid_id, price, size);
    let qd = b.quote.denom@;
    let askfee_acct = match info_of(st).ask_fee_info { Some(fi) => fi.account.s@, None => c };
    let bidfee_acct = match info_of(st).bid_fee_info { Some(fi) => fi.account.s@, None => c };
    forall|acct: Seq<char>, dn: Seq<char>| #[trigger] net(msgs, c, acct, dn) == (
        tr(askfee_acct, c, qd, q.askfee, acct, dn) + tr(bidfee_acct, c, qd, q.bidfee, acct, dn)
        + tr(b.owner.s@, c, qd, q.refund_q, acct, dn) + tr(b.owner.s@, c, qd, q.refund_f, acct, dn)
        + (if is_ready(a) {
               tr(b.owner.s@, c, ready_coin(a).denom@, size, acct, dn) + tr(ready_approver(a), c, a.base@, size, acct, dn)
               + tr(ready_approver(a), c, qd, q.g - q.askfee, acct, dn)
           } else {
               tr(a.owner.s@, c, qd, q.g - q.askfee, acct, dn) + tr(b.owner.s@, c, a.base@, size, acct, dn)
           }))
}
pub open spec fn match_state_ask(st: StoreV, st2: StoreV, ask_id: Seq<char>, size: int) -> bool {
    let a = the_ask(st, ask_id);
    let k = str_bytes(ask_id);
    &&& (size == a.size.v ==> st2.asks =~= st.asks.remove(k))
    &&& (size != a.size.v ==> st2.asks.dom() =~= st.asks.dom() && st2.asks.dom().contains(k)
            && st2.asks =~= st.asks.insert(k, st2.asks[k]) && ask_reduced(a, st2.asks[k], a.size.v - size))
}
pub open spec fn match_state_bid(st: StoreV, st2: StoreV, ask_id: Seq<char>, bid_id: Seq<char>, price: Seq<char>, size: int) -> bool {
    let b = the_bid(st, bid_id);
    let q = match_q(st, ask_id, bid_id, price, size);
    let k = str_bytes(bid_id);
    &&& (size == rem_base(b) ==> st2.bids =~= st.bids.remove(k))
    &&& (size != rem_base(b) ==> st2.bids.dom() =~= st.bids.dom() && st2.bids.dom().contains(k) && st2.bids[k] is V3
            && st2.bids =~= st.bids.insert(k, st2.bids[k]) && bid_advanced(b, st2.bids[k]->V3_0, size, q.spent_q, q.spent_f))
}
pub open spec fn match_attrs(st: StoreV, attrs: Seq<(Seq<char>, Seq<char>)>, ask_id: Seq<char>, bid_id: Seq<char>, price: Seq<char>, size: int) -> bool {
    let q = match_q(st, ask_id, bid_id, price, size);
    &&& has_attr(attrs, "action"@, "execute"@)
    &&& has_attr(attrs, "ask_id"@, ask_id)
    &&& has_attr(attrs, "bid_id"@, bid_id)
    &&& has_attr(attrs, "price"@, dec_str(q.ep))
    &&& has_attr(attrs, "size"@, u128_str(size))
    &&& has_attr(attrs, "ask_fee"@, u128_str(q.askfee))
    &&& has_attr(attrs, "bid_fee"@, u128_str(q.bidfee))
}
