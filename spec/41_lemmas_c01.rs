// History-level lemmas, part 2: escrow solvency (C01).
//   holdings(d) changes by  funds_in(d) + net(msgs, c, c, d)   per successful request (A-CHAIN)
//   owed_total(S, d) = sum over open asks and bids of what they are still owed in d
// lemma_C01_step: both change by the same amount, for every request kind; with lemma_C01_base (empty book, nothing
// held) it follows by induction on the history that holdings == owed_total in every reachable state.
// Assumption A-SELF (stated as `not_party`): the contract's own address is not an order owner, approver, fee account
// or request sender; a payout to the contract itself would leave its balance unchanged while the order is settled.

pub open spec fn owed_ask(a: AskOrderV1, d: Seq<char>) -> int {
    (if a.base@ == d { a.size.v as int } else { 0 })
    + (if is_ready(a) && ready_coin(a).denom@ == d { ready_coin(a).amount.v as int } else { 0 })
}
pub open spec fn as_v3(e: BidEntry) -> BidOrderV3 { match e { BidEntry::V3(b) => b, BidEntry::V2(o) => conv_bid(o) } }
pub open spec fn owed_bid(b: BidOrderV3, d: Seq<char>) -> int {
    if b.quote.denom@ == d { rem_quote(b) + rem_fee(b) } else { 0 }
}
pub open spec fn sum_map<K>(m: Map<K, int>) -> int
    decreases m.dom().len() when m.dom().finite()
{
    if m.dom().len() == 0 { 0 } else { let k = m.dom().choose(); m[k] + sum_map(m.remove(k)) }
}
pub proof fn lemma_sum_remove<K>(m: Map<K, int>, k: K)
    requires m.dom().finite(), m.dom().contains(k)
    ensures sum_map(m) == m[k] + sum_map(m.remove(k))
    decreases m.dom().len()
{
    assert(m.dom().len() > 0) by { if m.dom().len() == 0 { m.dom().lemma_len0_is_empty(); } };
    let c = m.dom().choose();
    if c == k {
    } else {
        assert(m.dom().contains(c));
        let mc = m.remove(c);
        let mk = m.remove(k);
        assert(mc.dom().contains(k));
        assert(mk.dom().contains(c));
        lemma_sum_remove(mc, k);
        lemma_sum_remove(mk, c);
        assert(mc.remove(k) =~= mk.remove(c));
    }
}
pub proof fn lemma_sum_insert<K>(m: Map<K, int>, k: K, v: int)
    requires m.dom().finite()
    ensures sum_map(m.insert(k, v)) == sum_map(m) - (if m.dom().contains(k) { m[k] } else { 0 }) + v
{
    let mi = m.insert(k, v);
    lemma_sum_remove(mi, k);
    if m.dom().contains(k) {
        lemma_sum_remove(m, k);
        assert(mi.remove(k) =~= m.remove(k));
    } else {
        assert(mi.remove(k) =~= m);
    }
}
pub open spec fn ask_owed_map(m: Map<Seq<u8>, AskOrderV1>, d: Seq<char>) -> Map<Seq<u8>, int> {
    Map::new(m.dom(), |k: Seq<u8>| owed_ask(m[k], d))
}
pub open spec fn bid_owed_map(m: Map<Seq<u8>, BidEntry>, d: Seq<char>) -> Map<Seq<u8>, int> {
    Map::new(m.dom(), |k: Seq<u8>| owed_bid(as_v3(m[k]), d))
}
pub open spec fn asks_owed(m: Map<Seq<u8>, AskOrderV1>, d: Seq<char>) -> int { sum_map(ask_owed_map(m, d)) }
pub open spec fn bids_owed(m: Map<Seq<u8>, BidEntry>, d: Seq<char>) -> int { sum_map(bid_owed_map(m, d)) }
pub open spec fn owed_total(st: StoreV, d: Seq<char>) -> int { asks_owed(st.asks, d) + bids_owed(st.bids, d) }

pub proof fn lemma_asks_owed_insert(m: Map<Seq<u8>, AskOrderV1>, k: Seq<u8>, a: AskOrderV1, d: Seq<char>)
    requires m.dom().finite()
    ensures asks_owed(m.insert(k, a), d) == asks_owed(m, d) - (if m.dom().contains(k) { owed_ask(m[k], d) } else { 0 }) + owed_ask(a, d)
{
    assert(ask_owed_map(m.insert(k, a), d) =~= ask_owed_map(m, d).insert(k, owed_ask(a, d)));
    assert(ask_owed_map(m, d).dom() =~= m.dom());
    lemma_sum_insert(ask_owed_map(m, d), k, owed_ask(a, d));
}
pub proof fn lemma_asks_owed_remove(m: Map<Seq<u8>, AskOrderV1>, k: Seq<u8>, d: Seq<char>)
    requires m.dom().finite(), m.dom().contains(k)
    ensures asks_owed(m.remove(k), d) == asks_owed(m, d) - owed_ask(m[k], d)
{
    assert(ask_owed_map(m.remove(k), d) =~= ask_owed_map(m, d).remove(k));
    assert(ask_owed_map(m, d).dom() =~= m.dom());
    lemma_sum_remove(ask_owed_map(m, d), k);
}
pub proof fn lemma_bids_owed_insert(m: Map<Seq<u8>, BidEntry>, k: Seq<u8>, e: BidEntry, d: Seq<char>)
    requires m.dom().finite()
    ensures bids_owed(m.insert(k, e), d) == bids_owed(m, d) - (if m.dom().contains(k) { owed_bid(as_v3(m[k]), d) } else { 0 }) + owed_bid(as_v3(e), d)
{
    assert(bid_owed_map(m.insert(k, e), d) =~= bid_owed_map(m, d).insert(k, owed_bid(as_v3(e), d)));
    assert(bid_owed_map(m, d).dom() =~= m.dom());
    lemma_sum_insert(bid_owed_map(m, d), k, owed_bid(as_v3(e), d));
}
pub proof fn lemma_bids_owed_remove(m: Map<Seq<u8>, BidEntry>, k: Seq<u8>, d: Seq<char>)
    requires m.dom().finite(), m.dom().contains(k)
    ensures bids_owed(m.remove(k), d) == bids_owed(m, d) - owed_bid(as_v3(m[k]), d)
{
    assert(bid_owed_map(m.remove(k), d) =~= bid_owed_map(m, d).remove(k));
    assert(bid_owed_map(m, d).dom() =~= m.dom());
    lemma_sum_remove(bid_owed_map(m, d), k);
}

/// attached funds of denomination d (credited to the contract before execution, A-CHAIN)
pub open spec fn funds_in(funds: Seq<Coin>, d: Seq<char>) -> int
    decreases funds.len()
{
    if funds.len() == 0 { 0 } else { funds_in(funds.drop_last(), d) + (if funds.last().denom@ == d { funds.last().amount.v as int } else { 0 }) }
}
/// A-SELF for one state
pub open spec fn not_party(st: StoreV, c: Seq<char>) -> bool {
    &&& forall|k: Seq<u8>| #[trigger] st.asks.dom().contains(k) ==> st.asks[k].owner.s@ != c && (is_ready(st.asks[k]) ==> ready_approver(st.asks[k]) != c)
    &&& forall|k: Seq<u8>| #[trigger] st.bids.dom().contains(k) ==> as_v3(st.bids[k]).owner.s@ != c
    &&& (info_of(st).ask_fee_info is Some ==> info_of(st).ask_fee_info->0.account.s@ != c)
    &&& (info_of(st).bid_fee_info is Some ==> info_of(st).bid_fee_info->0.account.s@ != c)
}
/// what one request adds to the contract's holdings of d
pub open spec fn holdings_delta(funds: Seq<Coin>, msgs: Seq<Msg>, c: Seq<char>, d: Seq<char>) -> int {
    funds_in(funds, d) + net(msgs, c, c, d)
}

pub proof fn lemma_escrow_delta(funds: Seq<Coin>, msgs: Seq<Msg>, c: Seq<char>, sender: Seq<char>, amount: int, denom: Seq<char>, d: Seq<char>)
    requires escrowed_exactly(funds, msgs, c, sender, amount, denom), sender != c
    ensures holdings_delta(funds, msgs, c, d) == (if denom == d { amount } else { 0 })
{
    reveal(tr);
    if crate::shim::flat::restricted(denom) {
        assert(msgs.drop_last() =~= Seq::<Msg>::empty());
        assert(net(msgs.drop_last(), c, c, d) == 0);
        assert(funds_in(funds, d) == 0);
    } else {
        assert(funds.drop_last() =~= Seq::<Coin>::empty());
        assert(funds_in(funds.drop_last(), d) == 0);
        assert(net(msgs, c, c, d) == 0);
    }
}

//@lemma props=C01
pub proof fn lemma_C01_create_ask(st: StoreV, st2: StoreV, c: Seq<char>, sender: Addr, funds: Seq<Coin>, a: AskOrderV1, msgs: Seq<Msg>, d: Seq<char>)
    requires wf(st), sender.s@ != c, create_ask_only_if(st, a, sender.s@), create_ask_recorded(st, st2, a),
             escrowed_exactly(funds, msgs, c, sender.s@, a.size.v as int, a.base@)
    ensures holdings_delta(funds, msgs, c, d) == owed_total(st2, d) - owed_total(st, d)
{
    let k = str_bytes(a.id@);
    lemma_escrow_delta(funds, msgs, c, sender.s@, a.size.v as int, a.base@, d);
    lemma_asks_owed_insert(st.asks, k, st2.asks[k], d);
    assert(st2.asks == st.asks.insert(k, st2.asks[k]));
}

//@lemma props=C01
pub proof fn lemma_C01_create_bid(st: StoreV, st2: StoreV, c: Seq<char>, sender: Addr, funds: Seq<Coin>, b: BidOrderV3, msgs: Seq<Msg>, d: Seq<char>)
    requires wf(st), sender.s@ != c, create_bid_only_if(st, b, sender.s@), create_bid_recorded(st, st2, b),
             b.accumulated_base.v == 0 && b.accumulated_quote.v == 0 && b.accumulated_fee.v == 0,
             escrowed_exactly(funds, msgs, c, sender.s@, b.quote.amount.v + coin_amt(b.fee), b.quote.denom@)
    ensures holdings_delta(funds, msgs, c, d) == owed_total(st2, d) - owed_total(st, d)
{
    let k = str_bytes(b.id@);
    lemma_escrow_delta(funds, msgs, c, sender.s@, b.quote.amount.v + coin_amt(b.fee), b.quote.denom@, d);
    lemma_bids_owed_insert(st.bids, k, BidEntry::V3(b), d);
    assert(st2.bids == st.bids.insert(k, BidEntry::V3(b)));
}

//@lemma props=C01,C08
pub proof fn lemma_C01_approve(st: StoreV, st2: StoreV, c: Seq<char>, sender: Addr, funds: Seq<Coin>, id: Seq<char>, base: Seq<char>, size: int, msgs: Seq<Msg>, d: Seq<char>)
    requires wf(st), sender.s@ != c, approve_only_if(st, sender, id, base, size), approve_recorded(st, st2, sender.s@, id, base, size),
             escrowed_exactly(funds, msgs, c, sender.s@, size, base)
    ensures holdings_delta(funds, msgs, c, d) == owed_total(st2, d) - owed_total(st, d)
{
    let k = str_bytes(id);
    lemma_escrow_delta(funds, msgs, c, sender.s@, size, base, d);
    lemma_asks_owed_insert(st.asks, k, st2.asks[k], d);
    assert(st2.asks == st.asks.insert(k, st2.asks[k]));
}

//@lemma props=C01,C04
pub proof fn lemma_C01_cancel_ask(st: StoreV, st2: StoreV, c: Seq<char>, sender: Seq<char>, funds: Seq<Coin>, id: Seq<char>, msgs: Seq<Msg>, d: Seq<char>)
    requires wf(st), not_party(st, c), cancel_ask_only_if(st, sender, funds, id), cancel_ask_ledger(st, c, id, msgs), cancel_ask_state(st, st2, id)
    ensures holdings_delta(funds, msgs, c, d) == owed_total(st2, d) - owed_total(st, d)
{
    reveal(tr);
    let k = str_bytes(id);
    assert(st.asks.dom().contains(k));
    lemma_asks_owed_remove(st.asks, k, d);
    assert(funds_in(funds, d) == 0);
    assert(net(msgs, c, c, d) == net(msgs, c, c, d));
}

//@lemma props=C01,C04,C08
pub proof fn lemma_C01_reverse_ask(st: StoreV, st2: StoreV, c: Seq<char>, sender: Addr, funds: Seq<Coin>, id: Seq<char>, cancel_size: Option<Uint128>, msgs: Seq<Msg>, d: Seq<char>)
    requires wf(st), not_party(st, c), reverse_ask_only_if(st, sender, funds, id, cancel_size),
             reverse_ask_ledger(st, c, id, cancel_size, msgs), reverse_ask_state(st, st2, id, cancel_size)
    ensures holdings_delta(funds, msgs, c, d) == owed_total(st2, d) - owed_total(st, d)
{
    reveal(tr);
    let k = str_bytes(id);
    let a = the_ask(st, id);
    assert(st.asks.dom().contains(k));
    assert(ask_wf(a, k, info_of(st)));
    let n = reverse_size(cancel_size, a.size.v as int);
    assert(funds_in(funds, d) == 0);
    assert(net(msgs, c, c, d) == net(msgs, c, c, d));
    if n == a.size.v {
        lemma_asks_owed_remove(st.asks, k, d);
    } else {
        lemma_asks_owed_insert(st.asks, k, st2.asks[k], d);
        assert(st2.asks == st.asks.insert(k, st2.asks[k]));
    }
}

//@lemma props=C01,C04,C09
pub proof fn lemma_C01_reverse_bid(st: StoreV, st2: StoreV, c: Seq<char>, sender: Addr, funds: Seq<Coin>, id: Seq<char>, action: ContractAction, cancel_size: Option<Uint128>, msgs: Seq<Msg>, d: Seq<char>)
    requires wf(st), not_party(st, c), reverse_bid_only_if(st, sender, funds, id, action, cancel_size),
             reverse_bid_ledger(st, c, id, cancel_size, msgs), reverse_bid_state(st, st2, id, cancel_size)
    ensures holdings_delta(funds, msgs, c, d) == owed_total(st2, d) - owed_total(st, d)
{
    broadcast use dec_lemmas;
    reveal(tr);
    let k = str_bytes(id);
    let b = the_bid(st, id);
    assert(st.bids.dom().contains(k) && st.bids[k] is V3);
    assert(bid_wf(b, k, info_of(st)));
    let n = reverse_size(cancel_size, rem_base(b));
    let cq = gross(pq(b.price@), n);
    assert(funds_in(funds, d) == 0);
    assert(net(msgs, c, c, d) == net(msgs, c, c, d));
    assert(as_v3(st.bids[k]).owner.s@ != c);
    if n == rem_base(b) {
        // the whole remaining quote and the whole remaining fee are returned: nothing is stranded
        assert(cq == rem_quote(b));
        if b.fee is Some { lemma_prorata_zero(b.fee->0.amount.v as int, b.quote.amount.v as int); }
        assert(fee_released(b, cq) == rem_fee(b));
        lemma_bids_owed_remove(st.bids, k, d);
    } else {
        lemma_bids_owed_insert(st.bids, k, st2.bids[k], d);
        assert(st2.bids == st.bids.insert(k, st2.bids[k]));
    }
}

//@lemma props=C01,C02,C09
pub proof fn lemma_C01_match(st: StoreV, st2: StoreV, c: Seq<char>, sender: Addr, funds: Seq<Coin>, ask_id: Seq<char>, bid_id: Seq<char>, price: Seq<char>, size: int, msgs: Seq<Msg>, d: Seq<char>)
    requires wf(st), not_party(st, c), match_only_if(st, sender, funds, ask_id, bid_id, price, size),
             match_ledger(st, c, ask_id, bid_id, price, size, msgs),
             match_state_ask(st, st2, ask_id, size), match_state_bid(st, st2, ask_id, bid_id, price, size)
    ensures holdings_delta(funds, msgs, c, d) == owed_total(st2, d) - owed_total(st, d)
{
    broadcast use dec_lemmas;
    let ka = str_bytes(ask_id); let kb = str_bytes(bid_id);
    let a = the_ask(st, ask_id); let b = the_bid(st, bid_id);
    assert(st.asks.dom().contains(ka));
    assert(ask_wf(a, ka, info_of(st)));
    assert(st.bids.dom().contains(kb) && st.bids[kb] is V3);
    assert(bid_wf(b, kb, info_of(st)));
    assert(as_v3(st.bids[kb]).owner.s@ != c);
    let q = match_q(st, ask_id, bid_id, price, size);
    lemma_match_fee_share(st, sender, funds, ask_id, bid_id, price, size);
    assert(funds_in(funds, d) == 0);
    // ledger at the contract's own account
    assert(net(msgs, c, c, d) == net(msgs, c, c, d));
    reveal(tr);
    // ask side
    if size == a.size.v {
        lemma_asks_owed_remove(st.asks, ka, d);
    } else {
        lemma_asks_owed_insert(st.asks, ka, st2.asks[ka], d);
        assert(st2.asks == st.asks.insert(ka, st2.asks[ka]));
    }
    // bid side
    if size == rem_base(b) {
        // complete fill: the gross at the bid's price is the whole unspent quote, its fee share the whole unspent fee
        assert(q.og == rem_quote(b));
        if b.fee is Some { lemma_prorata_zero(b.fee->0.amount.v as int, b.quote.amount.v as int); }
        assert(q.origfee == rem_fee(b));
        lemma_bids_owed_remove(st.bids, kb, d);
    } else {
        lemma_bids_owed_insert(st.bids, kb, st2.bids[kb], d);
        assert(st2.bids == st.bids.insert(kb, st2.bids[kb]));
    }
    assert(q.askfee + q.bidfee + q.refund_q + q.refund_f + (q.g - q.askfee) == q.spent_q + q.spent_f);
}

//@lemma props=C01
pub proof fn lemma_C01_modify(st: StoreV, st2: StoreV, c: Seq<char>, funds: Seq<Coin>, msgs: Seq<Msg>, d: Seq<char>)
    requires only_info_changed(st, st2), msgs == Seq::<Msg>::empty(), funds.len() == 0
    ensures holdings_delta(funds, msgs, c, d) == owed_total(st2, d) - owed_total(st, d)
{}

/// C01 base case: on the empty book nothing is owed (and instantiate emits no message)
//@lemma props=C01
pub proof fn lemma_C01_base(st: StoreV, d: Seq<char>)
    requires st.asks.dom() =~= Set::<Seq<u8>>::empty(), st.bids.dom() =~= Set::<Seq<u8>>::empty()
    ensures owed_total(st, d) == 0
{
    assert(ask_owed_map(st.asks, d).dom() =~= Set::<Seq<u8>>::empty());
    assert(bid_owed_map(st.bids, d).dom() =~= Set::<Seq<u8>>::empty());
}

/// migration does not move funds and conserves what every bid is owed (C15: remaining amounts preserved)
//@lemma props=C01,C14,C15
pub proof fn lemma_C01_migrate(st: StoreV, st2: StoreV, m: MigrateMsg, pkg: Seq<char>, name: Seq<char>, d: Seq<char>)
    requires migrate_post(st, st2, m, pkg, name), st.bids.dom().finite()
    ensures owed_total(st2, d) == owed_total(st, d)
{
    if in_conversion_window(st) {
        assert(bid_owed_map(st2.bids, d) =~= bid_owed_map(st.bids, d)) by {
            assert forall|k: Seq<u8>| #[trigger] st.bids.dom().contains(k) implies owed_bid(as_v3(st2.bids[k]), d) == owed_bid(as_v3(st.bids[k]), d) by {}
        }
    }
}

/// C01 inductive step for every request kind
//@lemma props=C01
pub proof fn lemma_C01_step(st: StoreV, st2: StoreV, c: Seq<char>, sender: Addr, funds: Seq<Coin>, msg: ExecuteMsg,
                            msgs: Seq<Msg>, attrs: Seq<(Seq<char>, Seq<char>)>, d: Seq<char>)
    requires wf(st), not_party(st, c), sender.s@ != c, exec_msg_valid(msg), exec_post(st, st2, c, sender, funds, msg, msgs, attrs)
    ensures holdings_delta(funds, msgs, c, d) == owed_total(st2, d) - owed_total(st, d)
{
    match msg {
        ExecuteMsg::ApproveAsk { id, base, size } => { lemma_C01_approve(st, st2, c, sender, funds, id@, base@, size.v as int, msgs, d); },
        ExecuteMsg::CreateAsk { id, base, quote, price, size } => {
            lemma_C01_create_ask(st, st2, c, sender, funds, mk_ask(id, base, quote, price, size, sender), msgs, d); },
        ExecuteMsg::CreateBid { id, base, fee, price, quote, quote_size, size } => {
            lemma_C01_create_bid(st, st2, c, sender, funds, mk_bid(id, base, fee, price, quote, quote_size, size, sender), msgs, d); },
        ExecuteMsg::CancelAsk { id } => { lemma_C01_cancel_ask(st, st2, c, sender.s@, funds, id@, msgs, d); },
        ExecuteMsg::CancelBid { id } => { lemma_C01_reverse_bid(st, st2, c, sender, funds, id@, ContractAction::CancelBid, None, msgs, d); },
        ExecuteMsg::ExpireBid { id } => { lemma_C01_reverse_bid(st, st2, c, sender, funds, id@, ContractAction::ExpireBid, None, msgs, d); },
        ExecuteMsg::RejectBid { id, size } => { lemma_C01_reverse_bid(st, st2, c, sender, funds, id@, ContractAction::RejectBid, size, msgs, d); },
        ExecuteMsg::ExpireAsk { id } => { lemma_C01_reverse_ask(st, st2, c, sender, funds, id@, None, msgs, d); },
        ExecuteMsg::RejectAsk { id, size } => { lemma_C01_reverse_ask(st, st2, c, sender, funds, id@, size, msgs, d); },
        ExecuteMsg::ExecuteMatch { ask_id, bid_id, price, size } => {
            lemma_C01_match(st, st2, c, sender, funds, ask_id@, bid_id@, price@, size.v as int, msgs, d); },
        ExecuteMsg::ModifyContract { .. } => { lemma_C01_modify(st, st2, c, funds, msgs, d); },
    }
}
