// Message-level validation (src/msg.rs), stated as equivalences (C03, C06, C07, C12, C13, C16).
use crate::msg::{InstantiateMsg, ExecuteMsg, QueryMsg, MigrateMsg};

pub open spec fn pair_ok(a: Option<String>, b: Option<String>) -> bool { a is Some <==> b is Some }

pub open spec fn inst_msg_valid(m: InstantiateMsg) -> bool {
    &&& m.name@.len() > 0
    &&& m.base_denom@.len() > 0
    &&& m.supported_quote_denoms@.len() > 0
    &&& m.executors@.len() > 0
    &&& pair_ok(m.ask_fee_rate, m.ask_fee_account)
    &&& pair_ok(m.bid_fee_rate, m.bid_fee_account)
    &&& m.price_precision.v <= 18
    &&& m.size_increment.v >= 1
}
pub open spec fn exec_msg_valid(m: ExecuteMsg) -> bool {
    match m {
        ExecuteMsg::ApproveAsk { id, base, size } => canonical_id(id@) && base@.len() > 0 && size.v >= 1,
        ExecuteMsg::CancelAsk { id } => uuid_parse(id@) is Some,
        ExecuteMsg::CancelBid { id } => uuid_parse(id@) is Some,
        ExecuteMsg::CreateAsk { id, base, quote, price, size } =>
            canonical_id(id@) && base@.len() > 0 && quote@.len() > 0 && price@.len() > 0 && size.v >= 1,
        ExecuteMsg::CreateBid { id, base, fee, price, quote, quote_size, size } =>
            canonical_id(id@) && base@.len() > 0 && price@.len() > 0 && quote@.len() > 0 && quote_size.v >= 1 && size.v >= 1,
        ExecuteMsg::ExecuteMatch { ask_id, bid_id, price, size } =>
            canonical_id(ask_id@) && canonical_id(bid_id@) && price@.len() > 0 && size.v >= 1,
        ExecuteMsg::ExpireAsk { id } => uuid_parse(id@) is Some,
        ExecuteMsg::ExpireBid { id } => uuid_parse(id@) is Some,
        ExecuteMsg::RejectAsk { id, size } => uuid_parse(id@) is Some && (size is Some ==> size->0.v >= 1),
        ExecuteMsg::RejectBid { id, size } => uuid_parse(id@) is Some && (size is Some ==> size->0.v >= 1),
        ExecuteMsg::ModifyContract { approvers, executors, ask_fee_rate, ask_fee_account, bid_fee_rate, bid_fee_account,
                                     ask_required_attributes, bid_required_attributes } =>
            (approvers is Some ==> approvers->0@.len() > 0) && (executors is Some ==> executors->0@.len() > 0)
            && pair_ok(ask_fee_rate, ask_fee_account) && pair_ok(bid_fee_rate, bid_fee_account),
    }
}
pub open spec fn query_msg_valid(m: QueryMsg) -> bool {
    match m {
        QueryMsg::GetAsk { id } => uuid_parse(id@) is Some,
        QueryMsg::GetBid { id } => uuid_parse(id@) is Some,
        QueryMsg::GetContractInfo {} => true,
        QueryMsg::GetVersionInfo {} => true,
    }
}
pub open spec fn migrate_msg_valid(m: MigrateMsg) -> bool {
    pair_ok(m.ask_fee_rate, m.ask_fee_account) && pair_ok(m.bid_fee_rate, m.bid_fee_account)
}
