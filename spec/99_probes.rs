// Consistency probes (vacuity guard): only present in the vacuity file; each MUST FAIL to verify.
//@probe-begin
//@probe props=*
pub proof fn probe_axioms_consistent()
    ensures false
{
    broadcast use dec_lemmas, enc_axioms, axiom_ddiv, axiom_pow10, axiom_fits_bounded, crate::shim::flat::axiom_uuid_roundtrip,
        crate::shim::flat::axiom_uuid_nonempty, crate::shim::flat::axiom_semver_reqs, crate::shim::flat::axiom_semver_reqs_parse,
        lemma_tr_zero, lemma_net_push;
}
//@probe props=*
pub proof fn probe_wf_satisfiable(st: StoreV)
    requires wf(st), st.asks.dom().len() > 0, st.bids.dom().len() > 0
    ensures false
{
    broadcast use dec_lemmas, enc_axioms, axiom_ddiv, axiom_pow10;
}
//@probe-end
