// Per-operation specifications for the ask-side handlers, written from the property statements
// (C04, C05, C07, C08, C10, C11, C17).  Each predicate is used verbatim both as a labelled postcondition of the
// real handler and as a premise of the history-level lemmas, so there is no gap between the two.

pub open spec fn ask_same_terms(a: AskOrderV1, b: AskOrderV1) -> bool {
    a.id@ == b.id@ && a.owner.s@ == b.owner.s@ && a.base@ == b.base@ && a.quote@ == b.quote@ && a.price@ == b.price@
}
/// the ask `a` with its size (and, if approved, the approver amount) reduced to n
pub open spec fn ask_reduced(a: AskOrderV1, b: AskOrderV1, n: int) -> bool {
    &&& ask_same_terms(a, b)
    &&& b.size.v == n
    &&& (a.class is Basic ==> b.class is Basic)
    &&& (is_pending(a) ==> is_pending(b))
    &&& (is_ready(a) ==> is_ready(b) && ready_approver(b) == ready_approver(a)
            && ready_coin(b).denom@ == ready_coin(a).denom@ && ready_coin(b).amount.v == n)
}

// ---------------- cancel_ask
pub open spec fn cancel_ask_only_if(st: StoreV, sender: Seq<char>, funds: Seq<Coin>, id: Seq<char>) -> bool {
    &&& funds.len() == 0
    &&& has_ask(st, id)
    &&& sender == the_ask(st, id).owner.s@
}
pub open spec fn cancel_ask_ledger(st: StoreV, c: Seq<char>, id: Seq<char>, msgs: Seq<Msg>) -> bool {
    let a = the_ask(st, id);
    forall|acct: Seq<char>, dn: Seq<char>| #[trigger] net(msgs, c, acct, dn) ==
        tr(a.owner.s@, c, a.base@, a.size.v as int, acct, dn)
        + (if is_ready(a) { tr(ready_approver(a), c, ready_coin(a).denom@, ready_coin(a).amount.v as int, acct, dn) } else { 0 })
}
pub open spec fn cancel_ask_state(st: StoreV, st2: StoreV, id: Seq<char>) -> bool {
    st2 == (StoreV { asks: st.asks.remove(str_bytes(id)), ..st })
}

// ---------------- reverse_ask (expire / reject, optional partial size)
pub open spec fn reverse_size(cancel_size: Option<Uint128>, remaining: int) -> int {
    match cancel_size { None => remaining, Some(c) => c.v as int }
}
pub open spec fn reverse_ask_only_if(st: StoreV, sender: Addr, funds: Seq<Coin>, id: Seq<char>, cancel_size: Option<Uint128>) -> bool {
    let a = the_ask(st, id);
    let c = reverse_size(cancel_size, a.size.v as int);
    &&& id.len() > 0
    &&& funds.len() == 0
    &&& is_member(info_of(st).executors@, sender)
    &&& has_ask(st, id)
    &&& (cancel_size is Some ==> c % (info_of(st).size_increment.v as int) == 0)
    &&& 1 <= c <= a.size.v
}
pub open spec fn reverse_ask_ledger(st: StoreV, c: Seq<char>, id: Seq<char>, cancel_size: Option<Uint128>, msgs: Seq<Msg>) -> bool {
    let a = the_ask(st, id);
    let n = reverse_size(cancel_size, a.size.v as int);
    forall|acct: Seq<char>, dn: Seq<char>| #[trigger] net(msgs, c, acct, dn) ==
        tr(a.owner.s@, c, a.base@, n, acct, dn)
        + (if is_ready(a) { tr(ready_approver(a), c, ready_coin(a).denom@, n, acct, dn) } else { 0 })
}
pub open spec fn reverse_ask_state(st: StoreV, st2: StoreV, id: Seq<char>, cancel_size: Option<Uint128>) -> bool {
    let a = the_ask(st, id);
    let n = reverse_size(cancel_size, a.size.v as int);
    let k = str_bytes(id);
    &&& st2.bids == st.bids && st2.info == st.info && st2.version == st.version
    &&& (n == a.size.v ==> st2.asks =~= st.asks.remove(k))
    &&& (n != a.size.v ==> st2.asks.dom() =~= st.asks.dom() && st2.asks.dom().contains(k)
            && st2.asks =~= st.asks.insert(k, st2.asks[k]) && ask_reduced(a, st2.asks[k], a.size.v - n))
}
pub open spec fn reverse_attrs(attrs: Seq<(Seq<char>, Seq<char>)>, action: ContractAction, id: Seq<char>, n: int, open: bool) -> bool {
    &&& has_attr(attrs, "action"@, action.name_spec())
    &&& has_attr(attrs, "id"@, id)
    &&& has_attr(attrs, "reverse_size"@, u128_str(n))
    &&& has_attr(attrs, "order_open"@, if open { "true"@ } else { "false"@ })
}
