// The induction over histories, machine-checked: a trace is a sequence of successful execute requests (refused or
// aborted requests leave no trace: A-ROLLBACK), each satisfying the transition relation the real `execute` is proved to
// satisfy (exec_post).  From a well-formed state with nothing owed (after instantiate on a fresh book):
//   * every state along the trace is well-formed                                   (C08, C09, C11, and what C06 needs)
//   * the contract's holdings of every denomination equal owed_total at the end    (C01)

pub ghost struct Step {
    pub sender: Addr,
    pub funds: Seq<Coin>,
    pub msg: ExecuteMsg,
    pub msgs: Seq<Msg>,                              // messages of the response
    pub attrs: Seq<(Seq<char>, Seq<char>)>,          // attributes of the response
    pub after: StoreV,                               // storage after the request
}
pub open spec fn state_after(st0: StoreV, steps: Seq<Step>) -> StoreV {
    if steps.len() == 0 { st0 } else { steps.last().after }
}
/// every step is a valid message carried out according to exec_post; the contract itself is never a party (A-SELF)
pub open spec fn valid_trace(st0: StoreV, steps: Seq<Step>, c: Seq<char>) -> bool
    decreases steps.len()
{
    if steps.len() == 0 { true } else {
        let prev = state_after(st0, steps.drop_last());
        let s = steps.last();
        &&& valid_trace(st0, steps.drop_last(), c)
        &&& exec_msg_valid(s.msg)
        &&& exec_post(prev, s.after, c, s.sender, s.funds, s.msg, s.msgs, s.attrs)
        &&& s.sender.s@ != c && not_party(prev, c)
    }
}
/// what the trace added to the contract's holdings of denomination d (attached funds in, messages executed)
pub open spec fn holdings_after(steps: Seq<Step>, c: Seq<char>, d: Seq<char>) -> int
    decreases steps.len()
{
    if steps.len() == 0 { 0 } else {
        holdings_after(steps.drop_last(), c, d) + holdings_delta(steps.last().funds, steps.last().msgs, c, d)
    }
}

//@lemma props=C01,C06,C08,C09,C11
pub proof fn lemma_history(st0: StoreV, steps: Seq<Step>, c: Seq<char>, d: Seq<char>)
    requires wf(st0), valid_trace(st0, steps, c)
    ensures wf(state_after(st0, steps)),
            holdings_after(steps, c, d) == owed_total(state_after(st0, steps), d) - owed_total(st0, d),
    decreases steps.len()
{
    if steps.len() > 0 {
        let init = steps.drop_last();
        let s = steps.last();
        lemma_history(st0, init, c, d);
        let prev = state_after(st0, init);
        lemma_exec_preserves_wf(prev, s.after, c, s.sender, s.funds, s.msg, s.msgs, s.attrs);
        lemma_C01_step(prev, s.after, c, s.sender, s.funds, s.msg, s.msgs, s.attrs, d);
    }
}

/// C01 for whole histories: from a freshly instantiated contract (well-formed, empty book, nothing held)
//@lemma props=C01
pub proof fn lemma_C01_history(st0: StoreV, steps: Seq<Step>, c: Seq<char>, d: Seq<char>)
    requires wf(st0), st0.asks.dom() =~= Set::<Seq<u8>>::empty(), st0.bids.dom() =~= Set::<Seq<u8>>::empty(),
             valid_trace(st0, steps, c)
    ensures holdings_after(steps, c, d) == owed_total(state_after(st0, steps), d)
{
    lemma_C01_base(st0, d);
    lemma_history(st0, steps, c, d);
}
