// The induction over histories, machine-checked: a trace is a sequence of successful execute requests (refused or
// aborted requests leave no trace: A-ROLLBACK), each satisfying the transition relation the real `execute` is proved to
// satisfy (exec_post).  From a well-formed state with nothing owed (after instantiate on a fresh book):
//   * every state along the trace is well-formed                                   (C08, C09, C11, and what C06 needs)
//   * the contract's holdings of every denomination equal owed_total at the end    (C01)

pub ghost struct Step {
    pub sender: Addr,
    pub funds: Seq<Coin>,
    pub msg: ExecuteMsg,
    pub msgs: Seq<Msg>,                              // messages of the response
    pub attrs: Seq<(Seq<char>, Seq<char>)>,          // attributes of the response
    pub after: StoreV,                               // storage after the request
}
pub open spec fn state_after(st0: StoreV, steps: Seq<Step>) -> StoreV {
    if steps.len() == 0 { st0 } else { steps.last().after }
}
/// A-SELF per request: the contract's own address does not send requests and is not configured as a fee account
pub open spec fn self_free(msg: ExecuteMsg, sender: Addr, c: Seq<char>) -> bool {
    &&& sender.s@ != c
    &&& (match msg {
            ExecuteMsg::ModifyContract { approvers, executors, ask_fee_rate, ask_fee_account, bid_fee_rate, bid_fee_account,
                                         ask_required_attributes, bid_required_attributes } =>
                (ask_fee_account is Some ==> ask_fee_account->0@ != c) && (bid_fee_account is Some ==> bid_fee_account->0@ != c),
            _ => true,
        })
}
/// every step is a valid message carried out according to exec_post
pub open spec fn valid_trace(st0: StoreV, steps: Seq<Step>, c: Seq<char>) -> bool
    decreases steps.len()
{
    if steps.len() == 0 { true } else {
        let prev = state_after(st0, steps.drop_last());
        let s = steps.last();
        &&& valid_trace(st0, steps.drop_last(), c)
        &&& exec_msg_valid(s.msg)
        &&& exec_post(prev, s.after, c, s.sender, s.funds, s.msg, s.msgs, s.attrs)
        &&& self_free(s.msg, s.sender, c)
    }
}
/// "the contract is not a party" is itself preserved by every step
//@lemma props=C01
pub proof fn lemma_not_party_step(st: StoreV, st2: StoreV, c: Seq<char>, sender: Addr, funds: Seq<Coin>, msg: ExecuteMsg,
                                  msgs: Seq<Msg>, attrs: Seq<(Seq<char>, Seq<char>)>)
    requires wf(st), not_party(st, c), self_free(msg, sender, c), exec_msg_valid(msg),
             exec_post(st, st2, c, sender, funds, msg, msgs, attrs)
    ensures not_party(st2, c)
{
    match msg {
        ExecuteMsg::ApproveAsk { id, base, size } => {
            let k = str_bytes(id@);
            assert forall|k2: Seq<u8>| #[trigger] st2.asks.dom().contains(k2) implies st2.asks[k2].owner.s@ != c
                && (is_ready(st2.asks[k2]) ==> ready_approver(st2.asks[k2]) != c) by {
                if k2 != k { assert(st.asks.dom().contains(k2)); } else { assert(st.asks.dom().contains(k)); }
            }
        },
        ExecuteMsg::CreateAsk { id, base, quote, price, size } => {
            let k = str_bytes(id@);
            assert forall|k2: Seq<u8>| #[trigger] st2.asks.dom().contains(k2) implies st2.asks[k2].owner.s@ != c
                && (is_ready(st2.asks[k2]) ==> ready_approver(st2.asks[k2]) != c) by {
                if k2 != k { assert(st.asks.dom().contains(k2)); }
            }
        },
        ExecuteMsg::CreateBid { id, base, fee, price, quote, quote_size, size } => {
            let k = str_bytes(id@);
            assert forall|k2: Seq<u8>| #[trigger] st2.bids.dom().contains(k2) implies as_v3(st2.bids[k2]).owner.s@ != c by {
                if k2 != k { assert(st.bids.dom().contains(k2)); }
            }
        },
        ExecuteMsg::CancelAsk { id } => {
            assert forall|k2: Seq<u8>| #[trigger] st2.asks.dom().contains(k2) implies st2.asks[k2].owner.s@ != c
                && (is_ready(st2.asks[k2]) ==> ready_approver(st2.asks[k2]) != c) by { assert(st.asks.dom().contains(k2)); }
        },
        ExecuteMsg::ExpireAsk { id } => { lemma_not_party_ask(st, st2, c, str_bytes(id@)); },
        ExecuteMsg::RejectAsk { id, size } => { lemma_not_party_ask(st, st2, c, str_bytes(id@)); },
        ExecuteMsg::CancelBid { id } => { lemma_not_party_bid(st, st2, c, str_bytes(id@)); },
        ExecuteMsg::ExpireBid { id } => { lemma_not_party_bid(st, st2, c, str_bytes(id@)); },
        ExecuteMsg::RejectBid { id, size } => { lemma_not_party_bid(st, st2, c, str_bytes(id@)); },
        ExecuteMsg::ExecuteMatch { ask_id, bid_id, price, size } => {
            lemma_not_party_ask(st, st2, c, str_bytes(ask_id@));
            lemma_not_party_bid(st, st2, c, str_bytes(bid_id@));
        },
        ExecuteMsg::ModifyContract { .. } => {},
    }
}
/// an ask that is removed or reduced in place (same owner, same approver) keeps the book free of the contract address
pub proof fn lemma_not_party_ask(st: StoreV, st2: StoreV, c: Seq<char>, k: Seq<u8>)
    requires not_party(st, c), st.asks.dom().contains(k),
             st2.asks =~= st.asks.remove(k) || (st2.asks.dom().contains(k) && st2.asks =~= st.asks.insert(k, st2.asks[k])
                 && st2.asks[k].owner.s@ == st.asks[k].owner.s@
                 && (is_ready(st2.asks[k]) ==> is_ready(st.asks[k]) && ready_approver(st2.asks[k]) == ready_approver(st.asks[k])))
    ensures forall|k2: Seq<u8>| #[trigger] st2.asks.dom().contains(k2) ==> st2.asks[k2].owner.s@ != c
                && (is_ready(st2.asks[k2]) ==> ready_approver(st2.asks[k2]) != c)
{
    assert forall|k2: Seq<u8>| #[trigger] st2.asks.dom().contains(k2) implies st2.asks[k2].owner.s@ != c
        && (is_ready(st2.asks[k2]) ==> ready_approver(st2.asks[k2]) != c) by {
        assert(st.asks.dom().contains(k2));
    }
}
pub proof fn lemma_not_party_bid(st: StoreV, st2: StoreV, c: Seq<char>, k: Seq<u8>)
    requires not_party(st, c), st.bids.dom().contains(k),
             st2.bids =~= st.bids.remove(k) || (st2.bids.dom().contains(k) && st2.bids =~= st.bids.insert(k, st2.bids[k])
                 && as_v3(st2.bids[k]).owner.s@ == as_v3(st.bids[k]).owner.s@)
    ensures forall|k2: Seq<u8>| #[trigger] st2.bids.dom().contains(k2) ==> as_v3(st2.bids[k2]).owner.s@ != c
{
    assert forall|k2: Seq<u8>| #[trigger] st2.bids.dom().contains(k2) implies as_v3(st2.bids[k2]).owner.s@ != c by {
        assert(st.bids.dom().contains(k2));
    }
}
/// what the trace added to the contract's holdings of denomination d (attached funds in, messages executed)
pub open spec fn holdings_after(steps: Seq<Step>, c: Seq<char>, d: Seq<char>) -> int
    decreases steps.len()
{
    if steps.len() == 0 { 0 } else {
        holdings_after(steps.drop_last(), c, d) + holdings_delta(steps.last().funds, steps.last().msgs, c, d)
    }
}

//@lemma props=C01,C06,C08,C09,C11
pub proof fn lemma_history(st0: StoreV, steps: Seq<Step>, c: Seq<char>, d: Seq<char>)
    requires wf(st0), not_party(st0, c), valid_trace(st0, steps, c)
    ensures wf(state_after(st0, steps)), not_party(state_after(st0, steps), c),
            holdings_after(steps, c, d) == owed_total(state_after(st0, steps), d) - owed_total(st0, d),
    decreases steps.len()
{
    if steps.len() > 0 {
        let init = steps.drop_last();
        let s = steps.last();
        lemma_history(st0, init, c, d);
        let prev = state_after(st0, init);
        lemma_exec_preserves_wf(prev, s.after, c, s.sender, s.funds, s.msg, s.msgs, s.attrs);
        lemma_not_party_step(prev, s.after, c, s.sender, s.funds, s.msg, s.msgs, s.attrs);
        lemma_C01_step(prev, s.after, c, s.sender, s.funds, s.msg, s.msgs, s.attrs, d);
    }
}

/// C01 for whole histories: from a freshly instantiated contract (well-formed, empty book, nothing held)
//@lemma props=C01
pub proof fn lemma_C01_history(st0: StoreV, steps: Seq<Step>, c: Seq<char>, d: Seq<char>)
    requires wf(st0), not_party(st0, c), st0.asks.dom() =~= Set::<Seq<u8>>::empty(), st0.bids.dom() =~= Set::<Seq<u8>>::empty(),
             valid_trace(st0, steps, c)
    ensures holdings_after(steps, c, d) == owed_total(state_after(st0, steps), d)
{
    lemma_C01_base(st0, d);
    lemma_history(st0, steps, c, d);
}
