// History-level lemmas, part 1: every successful request preserves the representation invariant wf
// (base case: instantiate on an empty book).  By induction wf holds in every reachable state, which is what
// each handler `requires`.  All lemmas are over the very predicates the handlers ensure.

//@lemma props=C01,C06,C08,C09,C11,*
pub proof fn lemma_wf_create_ask(st: StoreV, st2: StoreV, a: AskOrderV1, sender: Seq<char>)
    requires wf(st), create_ask_only_if(st, a, sender), create_ask_recorded(st, st2, a)
    ensures wf(st2)
{
    let k = str_bytes(a.id@);
    assert forall|k2: Seq<u8>| #[trigger] st2.asks.dom().contains(k2) implies ask_wf(st2.asks[k2], k2, info_of(st2)) by {
        if k2 != k { assert(st.asks.dom().contains(k2)); }
    }
}

//@lemma props=C01,C06,C08,C09,C11,*
pub proof fn lemma_wf_create_bid(st: StoreV, st2: StoreV, b: BidOrderV3, sender: Seq<char>)
    requires wf(st), create_bid_only_if(st, b, sender), create_bid_recorded(st, st2, b),
             b.accumulated_base.v == 0 && b.accumulated_quote.v == 0 && b.accumulated_fee.v == 0,
             b.quote.amount.v >= 1,
    ensures wf(st2)
{
    broadcast use dec_lemmas;
    let k = str_bytes(b.id@);
    let i = info_of(st);
    // fee escrowed = rate * total rounded half away from zero; it is non-negative and W7 holds initially
    if b.fee is Some {
        let f = b.fee->0.amount.v as int;
        lemma_prorata_full(f, b.quote.amount.v as int);
    }
    assert(bid_wf(b, k, i));
    assert forall|k2: Seq<u8>| #[trigger] st2.bids.dom().contains(k2) && st2.bids[k2] is V3
        implies bid_wf(st2.bids[k2]->V3_0, k2, info_of(st2)) by {
        if k2 != k { assert(st.bids.dom().contains(k2)); }
    }
}

//@lemma props=C01,C06,C08,C09,C11,*
pub proof fn lemma_wf_approve(st: StoreV, st2: StoreV, sender: Addr, id: Seq<char>, base: Seq<char>, size: int)
    requires wf(st), approve_only_if(st, sender, id, base, size), approve_recorded(st, st2, sender.s@, id, base, size)
    ensures wf(st2)
{
    let k = str_bytes(id);
    assert(st.asks.dom().contains(k));
    assert(ask_wf(st.asks[k], k, info_of(st)));
    assert forall|k2: Seq<u8>| #[trigger] st2.asks.dom().contains(k2) implies ask_wf(st2.asks[k2], k2, info_of(st2)) by {
        if k2 != k { assert(st.asks.dom().contains(k2)); }
    }
}

//@lemma props=C01,C06,C08,C09,C11,*
pub proof fn lemma_wf_cancel_ask(st: StoreV, st2: StoreV, id: Seq<char>)
    requires wf(st), cancel_ask_state(st, st2, id)
    ensures wf(st2)
{
    assert forall|k2: Seq<u8>| #[trigger] st2.asks.dom().contains(k2) implies ask_wf(st2.asks[k2], k2, info_of(st2)) by {
        assert(st.asks.dom().contains(k2));
    }
}

//@lemma props=C01,C06,C08,C09,C11,*
pub proof fn lemma_wf_reverse_ask(st: StoreV, st2: StoreV, sender: Addr, funds: Seq<Coin>, id: Seq<char>, cancel_size: Option<Uint128>)
    requires wf(st), reverse_ask_only_if(st, sender, funds, id, cancel_size), reverse_ask_state(st, st2, id, cancel_size)
    ensures wf(st2)
{
    let k = str_bytes(id);
    assert(st.asks.dom().contains(k));
    assert(ask_wf(st.asks[k], k, info_of(st)));
    assert forall|k2: Seq<u8>| #[trigger] st2.asks.dom().contains(k2) implies ask_wf(st2.asks[k2], k2, info_of(st2)) by {
        if k2 != k { assert(st.asks.dom().contains(k2)); }
    }
}

/// consuming `n` more base at the bid's own price keeps W6/W7 (the arithmetic core of reject, cancel and match)
pub proof fn lemma_bid_advance_wf(b: BidOrderV3, b2: BidOrderV3, k: Seq<u8>, i: ContractInfoV3, n: int)
    requires bid_wf(b, k, i), 1 <= n < rem_base(b), is_whole(pmul(pq(b.price@), n)),
             bid_advanced(b, b2, n, gross(pq(b.price@), n), fee_released(b, gross(pq(b.price@), n)))
    ensures bid_wf(b2, k, i)
{
    broadcast use dec_lemmas;
    let p = pq(b.price@);
    let cq = gross(p, n);
    lemma_pmul_add(p, rem_base(b), n);
    lemma_pmul_mono(p, n, rem_base(b));
    assert(pmul(p, n) == of_int(cq));
    assert(of_int(cq) <= of_int(rem_quote(b)));
    lemma_of_int_inj(cq, rem_quote(b));
    assert(cq <= rem_quote(b));
    assert(pmul(p, rem_base(b) - n) == of_int(rem_quote(b)) - of_int(cq));
    assert(of_int(rem_quote(b)) - of_int(cq) == of_int(rem_quote(b) - cq)) by { reveal(of_int); assert(rem_quote(b) * D() - cq * D() == (rem_quote(b) - cq) * D()) by(nonlinear_arith); }
    assert(cq >= 0);
    if b.fee is Some {
        let f = b.fee->0.amount.v as int;
        lemma_prorata_nonneg(f, rem_quote(b) - cq, b.quote.amount.v as int);
        lemma_prorata_mono(f, rem_quote(b) - cq, rem_quote(b), b.quote.amount.v as int);
    }
}

//@lemma props=C01,C06,C08,C09,C11,*
pub proof fn lemma_wf_reverse_bid(st: StoreV, st2: StoreV, sender: Addr, funds: Seq<Coin>, id: Seq<char>, action: ContractAction, cancel_size: Option<Uint128>)
    requires wf(st), reverse_bid_only_if(st, sender, funds, id, action, cancel_size), reverse_bid_state(st, st2, id, cancel_size)
    ensures wf(st2)
{
    let k = str_bytes(id);
    let b = the_bid(st, id);
    assert(st.bids.dom().contains(k) && st.bids[k] is V3);
    assert(bid_wf(b, k, info_of(st)));
    let n = reverse_size(cancel_size, rem_base(b));
    if n != rem_base(b) {
        lemma_bid_advance_wf(b, st2.bids[k]->V3_0, k, info_of(st), n);
    }
    assert forall|k2: Seq<u8>| #[trigger] st2.bids.dom().contains(k2) && st2.bids[k2] is V3
        implies bid_wf(st2.bids[k2]->V3_0, k2, info_of(st2)) by {
        if k2 != k { assert(st.bids.dom().contains(k2)); }
    }
}

/// C09/C02: in a well-formed book the fee share for the bid-price gross is never below the fee of the fill itself,
/// so the refund of C02 is exactly "the corresponding share of the escrowed fee" (origfee - bidfee)
//@lemma props=C02,C09
pub proof fn lemma_match_fee_share(st: StoreV, sender: Addr, funds: Seq<Coin>, ask_id: Seq<char>, bid_id: Seq<char>, price: Seq<char>, size: int)
    requires wf(st), match_only_if(st, sender, funds, ask_id, bid_id, price, size)
    ensures ({ let q = match_q(st, ask_id, bid_id, price, size);
               &&& q.g <= q.og && q.bidfee <= q.origfee && q.og <= rem_quote(the_bid(st, bid_id))
               &&& (q.ep < q.bp ==> q.refund_f == q.origfee - q.bidfee && q.spent_f == q.origfee && q.refund_q == q.og - q.g)
               &&& (!(q.ep < q.bp) ==> q.g == q.og && q.spent_f == q.bidfee && q.spent_q == q.og) })
{
    broadcast use dec_lemmas;
    let b = the_bid(st, bid_id);
    let k = str_bytes(bid_id);
    assert(st.bids.dom().contains(k) && st.bids[k] is V3);
    assert(bid_wf(b, k, info_of(st)));
    let q = match_q(st, ask_id, bid_id, price, size);
    lemma_gross_mono(q.ep, q.bp, size);
    let p = q.bp;
    lemma_pmul_mono(p, size, rem_base(b));
    lemma_whole_mono(pmul(p, size), pmul(p, rem_base(b)));
    assert(q.og <= rem_quote(b));
    assert(q.g >= 0) by { lemma_pmul_sign(q.ep, size); }
    lemma_fee_released_mono(b, q.g, q.og);
}

//@lemma props=C01,C06,C08,C09,C11,*
pub proof fn lemma_wf_match(st: StoreV, st2: StoreV, sender: Addr, funds: Seq<Coin>, ask_id: Seq<char>, bid_id: Seq<char>, price: Seq<char>, size: int)
    requires wf(st), match_only_if(st, sender, funds, ask_id, bid_id, price, size),
             match_state_ask(st, st2, ask_id, size), match_state_bid(st, st2, ask_id, bid_id, price, size),
             st2.info == st.info, st2.version == st.version
    ensures wf(st2)
{
    broadcast use dec_lemmas;
    let ka = str_bytes(ask_id); let kb = str_bytes(bid_id);
    let a = the_ask(st, ask_id); let b = the_bid(st, bid_id);
    assert(st.asks.dom().contains(ka));
    assert(ask_wf(a, ka, info_of(st)));
    assert(st.bids.dom().contains(kb) && st.bids[kb] is V3);
    assert(bid_wf(b, kb, info_of(st)));
    let q = match_q(st, ask_id, bid_id, price, size);
    lemma_match_fee_share(st, sender, funds, ask_id, bid_id, price, size);
    assert forall|k2: Seq<u8>| #[trigger] st2.asks.dom().contains(k2) implies ask_wf(st2.asks[k2], k2, info_of(st2)) by {
        if k2 != ka { assert(st.asks.dom().contains(k2)); }
    }
    if size != rem_base(b) {
        // what leaves the bid's escrow is the gross at the bid's own price and the fee share for it
        assert(q.spent_q == q.og && q.spent_f == q.origfee);
        assert(is_whole(pmul(q.bp, size)));
        lemma_bid_advance_wf(b, st2.bids[kb]->V3_0, kb, info_of(st), size);
    }
    assert forall|k2: Seq<u8>| #[trigger] st2.bids.dom().contains(k2) && st2.bids[k2] is V3
        implies bid_wf(st2.bids[k2]->V3_0, k2, info_of(st2)) by {
        if k2 != kb { assert(st.bids.dom().contains(k2)); }
    }
}

/// the market parameters and lists the order invariants read are untouched by a configuration change
pub open spec fn info_same_for_orders(a: ContractInfoV3, b: ContractInfoV3) -> bool {
    market_params_same(a, b)
}
pub proof fn lemma_str_member_eq(a: Seq<String>, b: Seq<String>, s: Seq<char>)
    requires strs_eq(a, b)
    ensures str_member(a, s) == str_member(b, s)
{
    if str_member(a, s) { let i = choose|i: int| 0 <= i < a.len() && (#[trigger] a[i])@ == s; assert(b[i]@ == s); }
    if str_member(b, s) { let i = choose|i: int| 0 <= i < b.len() && (#[trigger] b[i])@ == s; assert(a[i]@ == s); }
}
pub proof fn lemma_order_wf_under_same_params(st: StoreV, st2: StoreV)
    requires asks_wf(st), bids_wf(st), st.info is Some, st2.info is Some, market_params_same(info_of(st), info_of(st2)),
             st2.asks == st.asks, st2.bids == st.bids
    ensures asks_wf(st2), bids_wf(st2)
{
    let i = info_of(st); let j = info_of(st2);
    assert forall|k: Seq<u8>| #[trigger] st2.asks.dom().contains(k) implies ask_wf(st2.asks[k], k, j) by {
        let a = st.asks[k];
        assert(ask_wf(a, k, i));
        lemma_str_member_eq(i.convertible_base_denoms@, j.convertible_base_denoms@, a.base@);
        lemma_str_member_eq(i.supported_quote_denoms@, j.supported_quote_denoms@, a.quote@);
    }
    assert forall|k: Seq<u8>| #[trigger] st2.bids.dom().contains(k) && st2.bids[k] is V3 implies bid_wf(st2.bids[k]->V3_0, k, j) by {
        let b = st.bids[k]->V3_0;
        assert(bid_wf(b, k, i));
        lemma_str_member_eq(i.supported_quote_denoms@, j.supported_quote_denoms@, b.quote.denom@);
    }
}

//@lemma props=C01,C06,C08,C09,C11,*
pub proof fn lemma_wf_modify(st: StoreV, st2: StoreV, approvers: Option<Vec<String>>, executors: Option<Vec<String>>,
    ask_fee_rate: Option<String>, ask_fee_account: Option<String>, bid_fee_rate: Option<String>, bid_fee_account: Option<String>,
    ask_required_attributes: Option<Vec<String>>, bid_required_attributes: Option<Vec<String>>)
    requires wf(st), only_info_changed(st, st2),
             executors is Some ==> executors->0@.len() > 0,
             info_modified(info_of(st), info_of(st2), approvers, executors, ask_fee_rate, ask_fee_account, bid_fee_rate,
                           bid_fee_account, ask_required_attributes, bid_required_attributes)
    ensures wf(st2)
{
    lemma_order_wf_under_same_params(st, st2);
}

//@lemma props=C01,C06,C08,C09,C11,*
pub proof fn lemma_wf_instantiate(st: StoreV, st2: StoreV, m: InstantiateMsg)
    requires st.asks.dom() =~= Set::<Seq<u8>>::empty(), st.bids.dom() =~= Set::<Seq<u8>>::empty(),
             inst_only_if(m), st2.info is Some, inst_stored(m, st2.info->0), st2.asks == st.asks, st2.bids == st.bids
    ensures wf(st2)
{
    let i = st2.info->0;
    assert(i.executors@.len() == m.executors@.len());
}

/// legacy (event-log) bids still on the book are assumed to describe consistent orders: converted, they satisfy the
/// bid invariant.  Whether historic logs do is a fact about code no longer in the repository (DESIGN.md C15).
pub open spec fn legacy_bids_ok(st: StoreV) -> bool {
    forall|k: Seq<u8>| #[trigger] st.bids.dom().contains(k) && st.bids[k] is V2 ==> bid_wf(conv_bid(st.bids[k]->V2_0), k, info_of(st))
}

//@lemma props=C14,C15
pub proof fn lemma_wf_migrate(st: StoreV, st2: StoreV, m: MigrateMsg, pkg: Seq<char>, name: Seq<char>)
    requires wf(st), legacy_bids_ok(st), migrate_post(st, st2, m, pkg, name)
    ensures wf(st2), legacy_bids_ok(st2)
{
    let i = info_of(st); let j = info_of(st2);
    // the executor list is untouched, fee rates stay parseable
    assert(j.executors@.len() == i.executors@.len());
    let mid = StoreV { info: st2.info, ..st };
    lemma_order_wf_under_same_params(st, mid);
    assert forall|k: Seq<u8>| #[trigger] st2.asks.dom().contains(k) implies ask_wf(st2.asks[k], k, j) by {
        assert(mid.asks.dom().contains(k));
    }
    assert forall|k: Seq<u8>| #[trigger] st2.bids.dom().contains(k) && st2.bids[k] is V3 implies bid_wf(st2.bids[k]->V3_0, k, j) by {
        assert(st.bids.dom().contains(k));
        match st.bids[k] {
            BidEntry::V3(b) => { assert(mid.bids.dom().contains(k) && mid.bids[k] is V3); assert(bid_wf(b, k, j)); }
            BidEntry::V2(o) => {
                assert(bid_wf(conv_bid(o), k, i));
                lemma_str_member_eq(i.supported_quote_denoms@, j.supported_quote_denoms@, conv_bid(o).quote.denom@);
            }
        }
    }
    assert forall|k: Seq<u8>| #[trigger] st2.bids.dom().contains(k) && st2.bids[k] is V2 implies bid_wf(conv_bid(st2.bids[k]->V2_0), k, j) by {
        assert(st.bids.dom().contains(k));
        let o = st.bids[k]->V2_0;
        assert(st.bids[k] is V2);
        assert(bid_wf(conv_bid(o), k, i));
        lemma_str_member_eq(i.supported_quote_denoms@, j.supported_quote_denoms@, conv_bid(o).quote.denom@);
    }
}

/// THE inductive step: a successful execute request on a well-formed book leaves a well-formed book
//@lemma props=C01,C06,C08,C09,C11,*
pub proof fn lemma_exec_preserves_wf(st: StoreV, st2: StoreV, c: Seq<char>, sender: Addr, funds: Seq<Coin>, msg: ExecuteMsg,
                                     msgs: Seq<Msg>, attrs: Seq<(Seq<char>, Seq<char>)>)
    requires wf(st), exec_msg_valid(msg), exec_post(st, st2, c, sender, funds, msg, msgs, attrs)
    ensures wf(st2)
{
    match msg {
        ExecuteMsg::ApproveAsk { id, base, size } => { lemma_wf_approve(st, st2, sender, id@, base@, size.v as int); },
        ExecuteMsg::CreateAsk { id, base, quote, price, size } => {
            lemma_wf_create_ask(st, st2, mk_ask(id, base, quote, price, size, sender), sender.s@); },
        ExecuteMsg::CreateBid { id, base, fee, price, quote, quote_size, size } => {
            lemma_wf_create_bid(st, st2, mk_bid(id, base, fee, price, quote, quote_size, size, sender), sender.s@); },
        ExecuteMsg::CancelAsk { id } => { lemma_wf_cancel_ask(st, st2, id@); },
        ExecuteMsg::CancelBid { id } => { lemma_wf_reverse_bid(st, st2, sender, funds, id@, ContractAction::CancelBid, None); },
        ExecuteMsg::ExpireBid { id } => { lemma_wf_reverse_bid(st, st2, sender, funds, id@, ContractAction::ExpireBid, None); },
        ExecuteMsg::RejectBid { id, size } => { lemma_wf_reverse_bid(st, st2, sender, funds, id@, ContractAction::RejectBid, size); },
        ExecuteMsg::ExpireAsk { id } => { lemma_wf_reverse_ask(st, st2, sender, funds, id@, None); },
        ExecuteMsg::RejectAsk { id, size } => { lemma_wf_reverse_ask(st, st2, sender, funds, id@, size); },
        ExecuteMsg::ExecuteMatch { ask_id, bid_id, price, size } => {
            lemma_wf_match(st, st2, sender, funds, ask_id@, bid_id@, price@, size.v as int); },
        ExecuteMsg::ModifyContract { approvers, executors, ask_fee_rate, ask_fee_account, bid_fee_rate, bid_fee_account,
                                     ask_required_attributes, bid_required_attributes } => {
            lemma_wf_modify(st, st2, approvers, executors, ask_fee_rate, ask_fee_account, bid_fee_rate, bid_fee_account,
                            ask_required_attributes, bid_required_attributes); },
    }
}
