// History-level lemmas, part 3: limit-price protection (C03), integrality (C13), migration idempotence (C14),
// conversion preserves remaining amounts (C15), fee exactness at exit (C09).

/// C03: no seller is paid less per unit than their limit, no buyer pays more than theirs; the refund at an improved
/// price is exactly (bid price - execution price) * size
//@lemma props=C03,C02
pub proof fn lemma_C03_limits(st: StoreV, sender: Addr, funds: Seq<Coin>, ask_id: Seq<char>, bid_id: Seq<char>, price: Seq<char>, size: int)
    requires match_only_if(st, sender, funds, ask_id, bid_id, price, size)
    ensures ({ let q = match_q(st, ask_id, bid_id, price, size);
               &&& q.ap <= q.ep <= q.bp
               &&& (q.ep < q.bp ==> q.og - q.g == whole(pmul(q.bp - q.ep, size)) && is_whole(pmul(q.bp - q.ep, size))) })
{
    let q = match_q(st, ask_id, bid_id, price, size);
    if q.ep < q.bp {
        lemma_pmul_add(q.bp - q.ep, 0, 0);
        assert(pmul(q.bp, size) - pmul(q.ep, size) == pmul(q.bp - q.ep, size)) by {
            reveal(pmul);
            assert(q.bp * size - q.ep * size == (q.bp - q.ep) * size) by(nonlinear_arith);
        }
        lemma_whole_add(pmul(q.bp, size), pmul(q.ep, size));
    }
}

/// C13: for an accepted configuration any admissible price times any admissible size is an integer
//@lemma props=C13,C07
pub proof fn lemma_C13_integrality(p: int, k: int, inc: int, s: int)
    requires 0 <= k <= 18, inc >= 1, inc % pow10(k) == 0, s >= 0, s % inc == 0, is_whole(pmul(p, pow10(k)))
    ensures is_whole(pmul(p, s))
{
    broadcast use axiom_pow10;
    let t = pow10(k);
    assert(t >= 1);
    reveal(pmul); reveal(is_whole);
    // s = m * t for some m, and p * t is a multiple of D
    let a = s / inc; let b2 = inc / t;
    vstd::arithmetic::div_mod::lemma_fundamental_div_mod(s, inc);
    vstd::arithmetic::div_mod::lemma_fundamental_div_mod(inc, t);
    assert(s == inc * a);
    assert(inc == t * b2);
    let m = b2 * a;
    assert(s == m * t) by(nonlinear_arith) requires s == inc * a, inc == t * b2, m == b2 * a;
    let w = (p * t) / D();
    vstd::arithmetic::div_mod::lemma_fundamental_div_mod(p * t, D());
    assert(p * t == D() * w);
    assert(p * s == (m * w) * D()) by(nonlinear_arith) requires s == m * t, p * t == D() * w;
    vstd::arithmetic::div_mod::lemma_mod_multiples_basic(m * w, D());
}

/// two states that a reader cannot tell apart (strings and lists compared by content)
pub open spec fn info_equiv(a: ContractInfoV3, b: ContractInfoV3) -> bool {
    &&& market_params_same(a, b)
    &&& addrs_eq(a.approvers@, b.approvers@) && addrs_eq(a.executors@, b.executors@)
    &&& fee_same(a.ask_fee_info, b.ask_fee_info) && fee_same(a.bid_fee_info, b.bid_fee_info)
    &&& strs_eq(a.ask_required_attributes@, b.ask_required_attributes@)
    &&& strs_eq(a.bid_required_attributes@, b.bid_required_attributes@)
}
pub open spec fn store_equiv(a: StoreV, b: StoreV) -> bool {
    &&& a.asks == b.asks && a.bids == b.bids
    &&& a.info is Some && b.info is Some && info_equiv(a.info->0, b.info->0)
    &&& a.version is Some && b.version is Some && a.version->0.version@ == b.version->0.version@
        && a.version->0.definition@ == b.version->0.definition@
}
/// C14: applying the same migration a second time changes nothing further.  `pkg` is the package version the first
/// run stamped; it parses to a released version at or above 0.19.1 (A-SEMVER, generated from Cargo.toml).
//@lemma props=C14
pub proof fn lemma_C14_idempotent(st0: StoreV, st1: StoreV, st2: StoreV, m: MigrateMsg, pkg: Seq<char>, name: Seq<char>)
    requires migrate_post(st0, st1, m, pkg, name), migrate_post(st1, st2, m, pkg, name),
             ver_parse(pkg) is Some && !ver_parse(pkg)->0.pre && ver_ge(ver_parse(pkg)->0, 0, 19, 1)
    ensures store_equiv(st1, st2)
{
    let i1 = st1.info->0; let i2 = st2.info->0;
    assert(!in_conversion_window(st1));
    assert(info_equiv(i1, i2)) by {
        assert(market_params_same(i1, i2));
    }
}

/// C15: conversion keeps every remaining amount: original amounts minus the event sums
//@lemma props=C15
pub proof fn lemma_C15_remaining(o: BidOrderV2)
    requires sums_fit(o), sum_base_spec(o.events@) >= 0, sum_quote_spec(o.events@) >= 0, sum_fee_spec(o.events@) >= 0
    ensures ({ let b = conv_bid(o);
               &&& rem_base(b) == o.base.amount.v - sum_base_spec(o.events@)
               &&& rem_quote(b) == o.quote.amount.v - sum_quote_spec(o.events@)
               &&& rem_fee(b) == (match o.fee { Some(f) => f.amount.v - sum_fee_spec(o.events@), None => 0 })
               &&& b.id == o.id && b.owner == o.owner && b.price == o.price && b.base == o.base && b.quote == o.quote && b.fee == o.fee })
{}
pub proof fn lemma_sums_nonneg(s: Seq<Event>)
    ensures sum_base_spec(s) >= 0, sum_quote_spec(s) >= 0, sum_fee_spec(s) >= 0
    decreases s.len()
{
    if s.len() > 0 { lemma_sums_nonneg(s.drop_last()); }
}

/// C09: when a bid leaves the book (complete fill at either price, or complete cancel) everything that was still held
/// for it - unspent quote and unspent fee - has been paid out in that very request: fees add up exactly to the fee escrowed
//@lemma props=C09,C04
pub proof fn lemma_C09_closes(b: BidOrderV3, k: Seq<u8>, i: ContractInfoV3)
    requires bid_wf(b, k, i)
    ensures gross(pq(b.price@), rem_base(b)) == rem_quote(b),
            fee_released(b, rem_quote(b)) == rem_fee(b),
            fee_released(b, 0) == 0,
{
    broadcast use dec_lemmas;
    if b.fee is Some { lemma_prorata_zero(b.fee->0.amount.v as int, b.quote.amount.v as int); }
}
