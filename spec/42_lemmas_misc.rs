// History-level lemmas, part 3: limit-price protection (C03), integrality (C13), migration idempotence (C14),
// conversion preserves remaining amounts (C15), fee exactness at exit (C09).

/// C03: no seller is paid less per unit than their limit, no buyer pays more than theirs; the refund at an improved
/// price is exactly (bid price - execution price) * size
//@lemma props=C03,C02
pub proof fn lemma_C03_limits(st: StoreV, sender: Addr, funds: Seq<Coin>, ask_id: Seq<char>, bid_id: Seq<char>, price: Seq<char>, size: int)
    requires match_only_if(st, sender, funds, ask_id, bid_id, price, size)
    ensures ({ let q = match_q(st, ask_id, bid_id, price, size);
               &&& q.ap <= q.ep <= q.bp
               &&& (q.ep < q.bp ==> q.og - q.g == whole(pmul(q.bp - q.ep, size)) && is_whole(pmul(q.bp - q.ep, size))) })
{
    let q = match_q(st, ask_id, bid_id, price, size);
    if q.ep < q.bp {
        lemma_pmul_add(q.bp - q.ep, 0, 0);
        assert(pmul(q.bp, size) - pmul(q.ep, size) == pmul(q.bp - q.ep, size)) by {
            reveal(pmul);
            assert(q.bp * size - q.ep * size == (q.bp - q.ep) * size) by(nonlinear_arith);
        }
        lemma_whole_add(pmul(q.bp, size), pmul(q.ep, size));
    }
}

/// C13: for an accepted configuration any admissible price times any admissible size is an integer
//@lemma props=C13,C07
pub proof fn lemma_C13_integrality(p: int, k: int, inc: int, s: int)
    requires 0 <= k <= 18, inc >= 1, inc % pow10(k) == 0, s >= 0, s % inc == 0, is_whole(pmul(p, pow10(k)))
    ensures is_whole(pmul(p, s))
{
    broadcast use axiom_pow10;
    let t = pow10(k);
    assert(t >= 1);
    reveal(pmul); reveal(is_whole);
    // s = m * t for some m, and p * t is a multiple of D
    let a = s / inc; let b2 = inc / t;
    vstd::arithmetic::div_mod::lemma_fundamental_div_mod(s, inc);
    vstd::arithmetic::div_mod::lemma_fundamental_div_mod(inc, t);
    assert(s == inc * a);
    assert(inc == t * b2);
    let m = b2 * a;
    assert(s == m * t) by(nonlinear_arith) requires s == inc * a, inc == t * b2, m == b2 * a;
    let w = (p * t) / D();
    vstd::arithmetic::div_mod::lemma_fundamental_div_mod(p * t, D());
    assert(p * t == D() * w);
    assert(p * s == (m * w) * D()) by(nonlinear_arith) requires s == m * t, p * t == D() * w;
    vstd::arithmetic::div_mod::lemma_mod_multiples_basic(m * w, D());
}

/// two states that a reader cannot tell apart (strings and lists compared by content)
pub open spec fn info_equiv(a: ContractInfoV3, b: ContractInfoV3) -> bool {
    &&& market_params_same(a, b)
    &&& addrs_eq(a.approvers@, b.approvers@) && addrs_eq(a.executors@, b.executors@)
    &&& fee_same(a.ask_fee_info, b.ask_fee_info) && fee_same(a.bid_fee_info, b.bid_fee_info)
    &&& strs_eq(a.ask_required_attributes@, b.ask_required_attributes@)
    &&& strs_eq(a.bid_required_attributes@, b.bid_required_attributes@)
}
pub open spec fn store_equiv(a: StoreV, b: StoreV) -> bool {
    &&& a.asks == b.asks && a.bids == b.bids
    &&& a.info is Some && b.info is Some && info_equiv(a.info->0, b.info->0)
    &&& a.version is Some && b.version is Some && a.version->0.version@ == b.version->0.version@
        && a.version->0.definition@ == b.version->0.definition@
}
/// C14: applying the same migration a second time changes nothing further.  `pkg` is the package version the first
/// run stamped; it parses to a released version at or above 0.19.1 (A-SEMVER, generated from Cargo.toml).
//@lemma props=C14
pub proof fn lemma_C14_idempotent(st0: StoreV, st1: StoreV, st2: StoreV, m: MigrateMsg, pkg: Seq<char>, name: Seq<char>)
    requires migrate_post(st0, st1, m, pkg, name), migrate_post(st1, st2, m, pkg, name),
             ver_parse(pkg) is Some && !ver_parse(pkg)->0.pre && ver_ge(ver_parse(pkg)->0, 0, 19, 1)
    ensures store_equiv(st1, st2)
{
    let i1 = st1.info->0; let i2 = st2.info->0;
    assert(!in_conversion_window(st1));
    assert(info_equiv(i1, i2)) by {
        assert(market_params_same(i1, i2));
    }
}

/// C15: conversion keeps every remaining amount: original amounts minus the event sums
//@lemma props=C15
pub proof fn lemma_C15_remaining(o: BidOrderV2)
    requires sums_fit(o), sum_base_spec(o.events@) >= 0, sum_quote_spec(o.events@) >= 0, sum_fee_spec(o.events@) >= 0
    ensures ({ let b = conv_bid(o);
               &&& rem_base(b) == o.base.amount.v - sum_base_spec(o.events@)
               &&& rem_quote(b) == o.quote.amount.v - sum_quote_spec(o.events@)
               &&& rem_fee(b) == (match o.fee { Some(f) => f.amount.v - sum_fee_spec(o.events@), None => 0 })
               &&& b.id == o.id && b.owner == o.owner && b.price == o.price && b.base == o.base && b.quote == o.quote && b.fee == o.fee })
{}
pub proof fn lemma_sums_nonneg(s: Seq<Event>)
    ensures sum_base_spec(s) >= 0, sum_quote_spec(s) >= 0, sum_fee_spec(s) >= 0
    decreases s.len()
{
    if s.len() > 0 { lemma_sums_nonneg(s.drop_last()); }
}

/// C09: when a bid leaves the book (complete fill at either price, or complete cancel) everything that was still held
/// for it - unspent quote and unspent fee - has been paid out in that very request: fees add up exactly to the fee escrowed
//@lemma props=C09,C04
pub proof fn lemma_C09_closes(b: BidOrderV3, k: Seq<u8>, i: ContractInfoV3)
    requires bid_wf(b, k, i)
    ensures gross(pq(b.price@), rem_base(b)) == rem_quote(b),
            fee_released(b, rem_quote(b)) == rem_fee(b),
            fee_released(b, 0) == 0,
{
    broadcast use dec_lemmas;
    if b.fee is Some { lemma_prorata_zero(b.fee->0.amount.v as int, b.quote.amount.v as int); }
}

// ---- C09: the pro-rata share is the exact quotient rounded to the nearest unit (half up), except that at an exact
// half-unit tie the next lower unit may result.  Holds while 3 * fee * quote < 10^28; beyond that the 28-digit quotient
// is too coarse (recorded finding K1).  Rests on the two accuracy axioms below (A-DEC-DIV, tested by the audit).
#[verifier::external_body]
pub proof fn axiom_ddiv_accuracy(a: int, b: int)
    requires b > 0, 0 <= a <= b
    ensures -b <= 2 * (ddiv(of_int(a), of_int(b)) * b - a * D()) <= b      // |quotient - a/b| <= 0.5e-28
{}
#[verifier::external_body]
pub proof fn axiom_rmul_accuracy(r: int, n: int)
    requires 0 <= r <= D(), n >= 0
    ensures -n <= rmul(r, of_int(n)) - r * n <= n                          // rounded to 96 bits of mantissa
{}
/// f*n/q rounded half up, and whether the exact value is a half-unit tie
pub open spec fn nearest_share(f: int, n: int, q: int) -> int { (2 * f * n + q) / (2 * q) }
pub open spec fn share_is_tie(f: int, n: int, q: int) -> bool { (2 * f * n + q) % (2 * q) == 0 }

//@lemma props=C09
pub proof fn lemma_C09_nearest(f: int, n: int, q: int)
    requires q >= 1, 0 <= n <= q, f >= 0, 3 * f * q < D()
    ensures !share_is_tie(f, n, q) ==> prorata(f, n, q) == nearest_share(f, n, q),
            share_is_tie(f, n, q) ==> prorata(f, n, q) == nearest_share(f, n, q) || prorata(f, n, q) == nearest_share(f, n, q) - 1,
{
    broadcast use dec_lemmas, axiom_ddiv, axiom_rmul;
    lemma_of_int_inj(n, q); lemma_of_int_inj(0, n);
    assert(of_int(q) > 0 && 0 <= of_int(n) <= of_int(q));
    let r = ddiv(of_int(n), of_int(q));
    assert(0 <= r <= D());
    axiom_ddiv_accuracy(n, q);
    axiom_rmul_accuracy(r, f);
    let y = rmul(r, of_int(f));
    assert(y >= 0);
    let k = nearest_share(f, n, q);
    let e = q * y - f * n * D();
    // |2e| <= 3 f q < D
    assert(-(3 * f * q) <= 2 * e <= 3 * f * q) by(nonlinear_arith)
        requires e == q * y - f * n * D(), -f <= y - r * f <= f, -q <= 2 * (r * q - n * D()) <= q, q >= 1, f >= 0;
    // k = floor((2fn + q) / 2q)
    let t = 2 * f * n + q;
    assert(t >= 0) by(nonlinear_arith) requires t == 2 * f * n + q, f >= 0, n >= 0, q >= 1;
    vstd::arithmetic::div_mod::lemma_fundamental_div_mod(t, 2 * q);
    assert(t == 2 * q * k + t % (2 * q));
    vstd::arithmetic::div_mod::lemma_mod_bound(t, 2 * q);
    let m = t % (2 * q);
    assert(0 <= m < 2 * q);
    // round_half_away(y) = floor((2y + D) / 2D)
    reveal(round_half_away);
    let res = (2 * y + D()) / (2 * D());
    assert(prorata(f, n, q) == res);
    if m != 0 {
        // not a tie: (2k-1) q < 2fn < (2k+1) q, hence (2k-1) D <= 2y < (2k+1) D
        assert(2 * q * y == 2 * f * n * D() + 2 * e) by(nonlinear_arith) requires e == q * y - f * n * D();
        assert(2 * f * n == 2 * q * k + m - q);
        assert((2 * k - 1) * D() * q < 2 * q * y) by(nonlinear_arith)
            requires 2 * q * y == 2 * f * n * D() + 2 * e, 2 * f * n == 2 * q * k + m - q, m >= 1, 2 * e > -D(), q >= 1, D() > 0;
        assert(2 * q * y < (2 * k + 1) * D() * q) by(nonlinear_arith)
            requires 2 * q * y == 2 * f * n * D() + 2 * e, 2 * f * n == 2 * q * k + m - q, m <= 2 * q - 1, 2 * e < D(), q >= 1, D() > 0;
        assert((2 * k - 1) * D() < 2 * y < (2 * k + 1) * D()) by(nonlinear_arith)
            requires (2 * k - 1) * D() * q < 2 * q * y, 2 * q * y < (2 * k + 1) * D() * q, q >= 1;
        assert(2 * D() * k <= 2 * y + D() < 2 * D() * (k + 1)) by(nonlinear_arith)
            requires (2 * k - 1) * D() < 2 * y < (2 * k + 1) * D();
        vstd::arithmetic::div_mod::lemma_fundamental_div_mod_converse(2 * y + D(), 2 * D(), k, (2 * y + D()) - 2 * D() * k);
    } else {
        // tie: 2fn = (2k-1) q, hence (2k-2) D < 2y < 2k D
        assert(2 * q * y == 2 * f * n * D() + 2 * e) by(nonlinear_arith) requires e == q * y - f * n * D();
        assert(2 * f * n == 2 * q * k - q);
        assert((2 * k - 2) * D() * q < 2 * q * y < 2 * k * D() * q) by(nonlinear_arith)
            requires 2 * q * y == 2 * f * n * D() + 2 * e, 2 * f * n == 2 * q * k - q, -D() < 2 * e < D(), q >= 1, D() > 0;
        assert((2 * k - 2) * D() < 2 * y < 2 * k * D()) by(nonlinear_arith)
            requires (2 * k - 2) * D() * q < 2 * q * y, 2 * q * y < 2 * k * D() * q, q >= 1;
        if 2 * y + D() >= 2 * D() * k {
            assert(2 * D() * k <= 2 * y + D() < 2 * D() * (k + 1)) by(nonlinear_arith)
                requires 2 * y + D() >= 2 * D() * k, 2 * y < 2 * k * D(), D() > 0;
            vstd::arithmetic::div_mod::lemma_fundamental_div_mod_converse(2 * y + D(), 2 * D(), k, (2 * y + D()) - 2 * D() * k);
        } else {
            assert(2 * D() * (k - 1) <= 2 * y + D() < 2 * D() * k) by(nonlinear_arith)
                requires 2 * y + D() < 2 * D() * k, (2 * k - 2) * D() < 2 * y, D() > 0;
            vstd::arithmetic::div_mod::lemma_fundamental_div_mod_converse(2 * y + D(), 2 * D(), k - 1, (2 * y + D()) - 2 * D() * (k - 1));
        }
    }
}
