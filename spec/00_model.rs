// ghost model
