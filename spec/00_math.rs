// Decimal algebra, string/number encodings, ledger.  Everything here is specification only.
// A `Decimal` value is viewed as the integer q = value * 10^28 (rust_decimal never has a scale above 28).

pub open spec fn D() -> int { 10000000000000000000000000000 }
pub open spec fn LIMIT96() -> int { 79228162514264337593543950336 }   // 2^96

pub closed spec fn of_int(n: int) -> int { n * D() }
pub closed spec fn dmul(a: int, b: int) -> int { a * b / D() }
pub closed spec fn pmul(p: int, n: int) -> int { p * n }
pub closed spec fn is_whole(q: int) -> bool { q % D() == 0 }
pub closed spec fn whole(q: int) -> int { q / D() }
pub closed spec fn dsub(a: int, b: int) -> int { a - b }
pub uninterp spec fn ddiv(a: int, b: int) -> int;
/// product with an operand that carries the full 28 digits of a division result: rust_decimal rounds it to 96 bits of
/// mantissa, so it is NOT the exact product (assumption audit, clause A-DEC-DIV-14M); uninterpreted, with the facts of
/// axiom_rmul
pub uninterp spec fn rmul(a: int, b: int) -> int;
pub closed spec fn round_half_away(x: int) -> int {
    if x >= 0 { (2 * x + D()) / (2 * D()) } else { -((2 * (-x) + D()) / (2 * D())) }
}
/// rust_decimal's `round()` / `round_dp(0)`: midpoint to the nearest even integer ("banker's rounding")
pub open spec fn round_half_even(x: int) -> int {
    if x >= 0 {
        let f = x / D(); let r = x % D();
        if 2 * r < D() { f } else if 2 * r > D() { f + 1 } else if f % 2 == 0 { f } else { f + 1 }
    } else {
        let f = (-x) / D(); let r = (-x) % D();
        -(if 2 * r < D() { f } else if 2 * r > D() { f + 1 } else if f % 2 == 0 { f } else { f + 1 })
    }
}
pub open spec fn trunc_int(x: int) -> int { if x >= 0 { x / D() } else { -((-x) / D()) } }
pub open spec fn floor_int(x: int) -> int { if x >= 0 || (-x) % D() == 0 { trunc_int(x) } else { trunc_int(x) - 1 } }
pub open spec fn ceil_int(x: int) -> int { if x <= 0 || x % D() == 0 { trunc_int(x) } else { trunc_int(x) + 1 } }
pub uninterp spec fn eq_ignore_case(a: Seq<char>, b: Seq<char>) -> bool;
/// rust_decimal `rescale`: rounds when the scale shrinks (uninterpreted)
pub uninterp spec fn rescale_spec(q: int, scale: int) -> int;
pub uninterp spec fn int_pow(a: int, b: int) -> int;
pub uninterp spec fn dedup_seq<T>(s: Seq<T>) -> Seq<T>;
pub uninterp spec fn str_replace<P>(s: Seq<char>, from: P, to: Seq<char>) -> Seq<char>;
pub uninterp spec fn str_lower(s: Seq<char>) -> Seq<char>;
pub uninterp spec fn str_upper(s: Seq<char>) -> Seq<char>;
pub uninterp spec fn str_trim(s: Seq<char>) -> Seq<char>;
// other rounding strategies are different (uninterpreted) functions, so that swapping the strategy
// in the code changes the proved value instead of breaking the build
pub uninterp spec fn round_other(strategy: int, dp: int, x: int) -> int;
pub uninterp spec fn parse_dec(s: Seq<char>) -> Option<int>;
pub uninterp spec fn dec_str(q: int) -> Seq<char>;
pub uninterp spec fn dec_of_str(s: Seq<char>) -> int;
pub uninterp spec fn u128_str(n: int) -> Seq<char>;
pub uninterp spec fn u128_of_str(s: Seq<char>) -> int;
pub uninterp spec fn str_bytes(s: Seq<char>) -> Seq<u8>;
pub uninterp spec fn bytes_str(b: Seq<u8>) -> Seq<char>;
pub uninterp spec fn mk_str(s: Seq<char>) -> &'static str;
pub uninterp spec fn mk_string(s: Seq<char>) -> String;
pub uninterp spec fn pow10(k: int) -> int;
/// a decimal value (x 10^28) fits rust_decimal's 96-bit mantissa at some scale <= 28 (A-RANGE, strict mode only)
pub uninterp spec fn fits(q: int) -> bool;

// ---- axioms about encodings (A-STD): all are injectivity facts
#[verifier::external_body]
pub broadcast proof fn axiom_str_ext(a: &str)
    ensures mk_str(#[trigger] a@) == a
{}
#[verifier::external_body]
pub broadcast proof fn axiom_string_ext(a: String)
    ensures mk_string(#[trigger] a@) == a
{}
#[verifier::external_body]
pub broadcast proof fn axiom_u128_str(n: int)
    ensures u128_of_str(#[trigger] u128_str(n)) == n
{}
#[verifier::external_body]
pub broadcast proof fn axiom_dec_str(q: int)
    ensures dec_of_str(#[trigger] dec_str(q)) == q
{}
#[verifier::external_body]
pub broadcast proof fn axiom_str_bytes(s: Seq<char>)
    ensures bytes_str(#[trigger] str_bytes(s)) == s
{}
#[verifier::external_body]
pub broadcast proof fn axiom_display_string(s: &String, r: String)
    ensures #[trigger] vstd::string::to_string_from_display_ensures::<String>(s, r) ==> r@ == s@
{}
#[verifier::external_body]
pub broadcast proof fn axiom_display_u128(s: &u128, r: String)
    ensures #[trigger] vstd::string::to_string_from_display_ensures::<u128>(s, r) ==> r@ == u128_str(*s as int)
{}
#[verifier::external_body]
pub broadcast proof fn axiom_string_eq_spec(a: String, b: String)
    ensures #[trigger] <String as vstd::std_specs::cmp::PartialEqSpec<String>>::eq_spec(&a, &b) == (a@ == b@)
{}
#[verifier::external_body]
pub broadcast proof fn axiom_string_obeys()
    ensures #[trigger] <String as vstd::std_specs::cmp::PartialEqSpec<String>>::obeys_eq_spec()
{}
pub broadcast group enc_axioms {
    axiom_str_ext, axiom_string_ext, axiom_u128_str, axiom_dec_str, axiom_str_bytes, axiom_display_string,
    axiom_display_u128, axiom_string_eq_spec, axiom_string_obeys,
}

// ---- 10^k for k <= 18 (u128::pow is given this meaning by assume_specification, A-STD)
#[verifier::external_body]
pub broadcast proof fn axiom_pow10(k: int)
    requires 0 <= k <= 18
    ensures 1 <= #[trigger] pow10(k) <= 1000000000000000000,
            k == 0 ==> pow10(k) == 1,
            k > 0 ==> pow10(k) == 10 * pow10(k - 1),
{}

#[verifier::external_body]
pub broadcast proof fn axiom_int_pow10(k: int)
    requires 0 <= k <= 19
    ensures k <= 18 ==> #[trigger] int_pow(10, k) == pow10(k), k == 19 ==> int_pow(10, k) == 10 * pow10(18)
{}
// ---- proven lemmas of the decimal algebra
pub broadcast proof fn lemma_dmul_of_int(a: int, n: int)
    ensures #[trigger] dmul(a, of_int(n)) == pmul(a, n)
{
    assert(a * (n * D()) / D() == a * n) by(nonlinear_arith) requires D() == 10000000000000000000000000000;
}
pub broadcast proof fn lemma_dmul_of_int_left(n: int, a: int)
    ensures #[trigger] dmul(of_int(n), a) == pmul(a, n)
{
    assert((n * D()) * a / D() == a * n) by(nonlinear_arith) requires D() == 10000000000000000000000000000;
}
pub broadcast proof fn lemma_dmul_whole(a: int, b: int)
    requires is_whole(b)
    ensures #[trigger] dmul(a, b) == pmul(a, whole(b))
{
    assert(a * b / D() == a * (b / D())) by(nonlinear_arith) requires b % D() == 0, D() == 10000000000000000000000000000;
}
pub broadcast proof fn lemma_whole_of_int(n: int)
    ensures #[trigger] whole(of_int(n)) == n, is_whole(of_int(n))
{
    assert((n * D()) / D() == n && (n * D()) % D() == 0) by(nonlinear_arith) requires D() == 10000000000000000000000000000;
}
pub broadcast proof fn lemma_is_whole_of_int(n: int)
    ensures #[trigger] is_whole(of_int(n))
{
    assert((n * D()) % D() == 0) by(nonlinear_arith) requires D() == 10000000000000000000000000000;
}
pub broadcast proof fn lemma_of_int_whole(q: int)
    requires is_whole(q)
    ensures #[trigger] of_int(whole(q)) == q
{
    assert((q / D()) * D() == q) by(nonlinear_arith) requires q % D() == 0, D() == 10000000000000000000000000000;
}
pub broadcast proof fn lemma_of_int_sign(n: int)
    ensures (#[trigger] of_int(n) >= 0) == (n >= 0), (of_int(n) == 0) == (n == 0), (of_int(n) > 0) == (n > 0)
{
    assert((n * D() >= 0) == (n >= 0) && ((n * D() == 0) == (n == 0)) && ((n * D() > 0) == (n > 0))) by(nonlinear_arith) requires D() == 10000000000000000000000000000;
}
pub broadcast proof fn lemma_of_int_inj(a: int, b: int)
    ensures (#[trigger] of_int(a) == #[trigger] of_int(b)) == (a == b), (of_int(a) <= of_int(b)) == (a <= b)
{
    assert(((a * D() == b * D()) == (a == b)) && ((a * D() <= b * D()) == (a <= b))) by(nonlinear_arith) requires D() == 10000000000000000000000000000;
}
pub broadcast proof fn lemma_whole_dsub(a: int, b: int)
    requires is_whole(a), is_whole(b)
    ensures #[trigger] whole(dsub(a, b)) == whole(a) - whole(b), is_whole(dsub(a, b)), (dsub(a,b) >= 0) == (a >= b)
{
    lemma_whole_add(a, b);
}
pub broadcast proof fn lemma_round_sign(x: int)
    ensures x >= 0 ==> #[trigger] round_half_away(x) >= 0
{}
pub broadcast proof fn lemma_round_zero()
    ensures #[trigger] round_half_away(0) == 0
{
    assert(10000000000000000000000000000int / 20000000000000000000000000000int == 0) by(compute);
}
pub broadcast proof fn lemma_round_whole(x: int)
    requires is_whole(x), x >= 0
    ensures #[trigger] round_half_away(x) == whole(x)
{
    assert((2 * x + D()) / (2 * D()) == x / D()) by(nonlinear_arith) requires x % D() == 0, x >= 0, D() == 10000000000000000000000000000;
}
pub broadcast proof fn lemma_pmul_zero(p: int)
    ensures #[trigger] pmul(p, 0) == 0
{}
pub broadcast proof fn lemma_whole_zero()
    ensures #[trigger] whole(0) == 0, is_whole(0)
{}
pub broadcast proof fn lemma_pmul_sign(p: int, n: int)
    requires p >= 0, n >= 0
    ensures #[trigger] pmul(p, n) >= 0
{
    assert(p * n >= 0) by(nonlinear_arith) requires p >= 0, n >= 0;
}
pub broadcast proof fn lemma_whole_sign(q: int)
    requires q >= 0
    ensures #[trigger] whole(q) >= 0
{}
pub proof fn lemma_pmul_add(p: int, a: int, b: int)
    ensures pmul(p, a + b) == pmul(p, a) + pmul(p, b), pmul(p, a - b) == pmul(p, a) - pmul(p, b)
{
    assert(p * (a + b) == p * a + p * b && p * (a - b) == p * a - p * b) by(nonlinear_arith);
}
pub proof fn lemma_pmul_mono(p: int, a: int, b: int)
    requires p >= 0, a <= b
    ensures pmul(p, a) <= pmul(p, b)
{
    assert(p * a <= p * b) by(nonlinear_arith) requires p >= 0, a <= b;
}
pub proof fn lemma_pmul_price_mono(p: int, q: int, n: int)
    requires p <= q, n >= 0
    ensures pmul(p, n) <= pmul(q, n)
{
    assert(p * n <= q * n) by(nonlinear_arith) requires p <= q, n >= 0;
}
pub broadcast proof fn lemma_gross_strict(p: int, q: int, n: int)
    requires p < q, n >= 1, is_whole(pmul(p, n)), is_whole(pmul(q, n))
    ensures #![trigger whole(pmul(p, n)), whole(pmul(q, n))] whole(pmul(p, n)) + 1 <= whole(pmul(q, n))
{
    assert(p * n < q * n) by(nonlinear_arith) requires p < q, n >= 1;
    assert((p * n) / D() + 1 <= (q * n) / D()) by(nonlinear_arith)
        requires p * n < q * n, (p * n) % D() == 0, (q * n) % D() == 0, D() == 10000000000000000000000000000;
}
pub proof fn lemma_whole_add(a: int, b: int)
    requires is_whole(a), is_whole(b)
    ensures is_whole(a + b), whole(a + b) == whole(a) + whole(b), is_whole(a - b), whole(a - b) == whole(a) - whole(b)
{
    let qa = a / D(); let qb = b / D();
    vstd::arithmetic::div_mod::lemma_fundamental_div_mod(a, D());
    vstd::arithmetic::div_mod::lemma_fundamental_div_mod(b, D());
    assert(a == D() * qa && b == D() * qb);
    assert(a + b == (qa + qb) * D() + 0) by(nonlinear_arith) requires a == D() * qa, b == D() * qb;
    assert(a - b == (qa - qb) * D() + 0) by(nonlinear_arith) requires a == D() * qa, b == D() * qb;
    vstd::arithmetic::div_mod::lemma_fundamental_div_mod_converse(a + b, D(), qa + qb, 0);
    vstd::arithmetic::div_mod::lemma_fundamental_div_mod_converse(a - b, D(), qa - qb, 0);
}
pub proof fn lemma_whole_mono(a: int, b: int)
    requires a <= b
    ensures whole(a) <= whole(b)
{
    assert(a / D() <= b / D()) by(nonlinear_arith) requires a <= b, D() == 10000000000000000000000000000;
}
pub broadcast proof fn lemma_pmul_pos(p: int, n: int)
    requires p > 0, n > 0
    ensures #[trigger] pmul(p, n) > 0
{
    assert(p * n > 0) by(nonlinear_arith) requires p > 0, n > 0;
}
pub broadcast proof fn lemma_whole_pos(a: int)
    requires is_whole(a), a > 0
    ensures #[trigger] whole(a) >= 1
{
    assert(a / D() >= 1) by(nonlinear_arith) requires a % D() == 0, a > 0, D() == 10000000000000000000000000000;
}
pub broadcast group dec_lemmas {
    lemma_dmul_of_int, lemma_dmul_of_int_left, lemma_dmul_whole, lemma_whole_of_int, lemma_of_int_whole, lemma_of_int_sign,
    lemma_whole_dsub, lemma_round_sign, lemma_round_zero, lemma_round_whole, lemma_pmul_zero, lemma_whole_zero,
    lemma_pmul_sign, lemma_whole_sign, lemma_of_int_inj, lemma_pmul_pos, lemma_whole_pos, lemma_is_whole_of_int,
}

// ---- representable range (A-RANGE; used in strict mode only): every value between 0 and an integer below 2^96
#[verifier::external_body]
pub broadcast proof fn axiom_fits_bounded(q: int, n: int)
    requires 0 <= q <= of_int(n), 0 <= n < LIMIT96()
    ensures #![trigger fits(q), of_int(n)] fits(q)
{}
// ---- assumed facts about rust_decimal's division (A-DEC-DIV)
#[verifier::external_body]
pub broadcast proof fn axiom_ddiv(a: int, b: int)
    requires b > 0, 0 <= a <= b
    ensures 0 <= #[trigger] ddiv(a, b) <= D(),
            a == 0 ==> ddiv(a, b) == 0,
            a == b ==> ddiv(a, b) == D(),
{}
/// assumed facts about the rounded product ratio * amount (A-DEC-DIV; tested on the real crate by the audit):
/// symmetric; exact at the end points 0 and 1; between 0 and the amount for a ratio in [0,1]; monotone in the ratio
#[verifier::external_body]
pub broadcast proof fn axiom_rmul_comm(a: int, b: int)
    ensures #[trigger] rmul(a, b) == rmul(b, a)
{}
#[verifier::external_body]
pub broadcast proof fn axiom_rmul(a: int, n: int)
    requires 0 <= a <= D(), n >= 0
    ensures 0 <= #[trigger] rmul(a, of_int(n)) <= of_int(n),
            a == 0 ==> rmul(a, of_int(n)) == 0,
            a == D() ==> rmul(a, of_int(n)) == of_int(n),
{}
#[verifier::external_body]
pub proof fn axiom_rmul_mono(a1: int, a2: int, n: int)
    requires 0 <= a1 <= a2 <= D(), n >= 0
    ensures rmul(a1, of_int(n)) <= rmul(a2, of_int(n))
{}
#[verifier::external_body]
pub proof fn axiom_ddiv_mono(a1: int, a2: int, b: int)
    requires b > 0, 0 <= a1 <= a2 <= b
    ensures ddiv(a1, b) <= ddiv(a2, b)
{}

// ---- derived quantities used by the contracts
pub open spec fn gross(p: int, s: int) -> int { whole(pmul(p, s)) }
pub open spec fn fee_of(rate_q: int, amount: int) -> int { round_half_away(pmul(rate_q, amount)) }
/// fee * num / den as the contract forms it: checked_div (28 digits), rounded product, round half away from zero
pub open spec fn prorata(fee: int, num: int, den: int) -> int {
    round_half_away(rmul(ddiv(of_int(num), of_int(den)), of_int(fee)))
}
pub open spec fn pq(s: Seq<char>) -> int { parse_dec(s)->0 }

pub proof fn lemma_prorata_zero(fee: int, den: int)
    requires den > 0, fee >= 0
    ensures prorata(fee, 0, den) == 0
{
    broadcast use dec_lemmas, axiom_ddiv, axiom_rmul;
    assert(of_int(den) > 0);
    assert(of_int(0) == 0);
    assert(ddiv(of_int(0), of_int(den)) == 0);
    assert(rmul(0, of_int(fee)) == 0);
}
pub proof fn lemma_prorata_full(fee: int, den: int)
    requires den > 0, fee >= 0
    ensures prorata(fee, den, den) == fee
{
    broadcast use dec_lemmas, axiom_ddiv, axiom_rmul;
    assert(of_int(den) > 0);
    assert(ddiv(of_int(den), of_int(den)) == D());
    assert(rmul(D(), of_int(fee)) == of_int(fee));
    assert(is_whole(of_int(fee)));
    assert(of_int(fee) >= 0);
}
pub proof fn lemma_prorata_nonneg(fee: int, num: int, den: int)
    requires den > 0, 0 <= num <= den, fee >= 0
    ensures prorata(fee, num, den) >= 0
{
    broadcast use dec_lemmas, axiom_ddiv, axiom_rmul;
    lemma_of_int_inj(num, den);
    lemma_of_int_inj(0, num);
    assert(0 <= of_int(num) <= of_int(den));
    assert(of_int(den) > 0);
    let r = ddiv(of_int(num), of_int(den));
    assert(0 <= r <= D());
    assert(rmul(r, of_int(fee)) >= 0);
}
pub proof fn lemma_round_mono(x: int, y: int)
    requires 0 <= x <= y
    ensures round_half_away(x) <= round_half_away(y)
{
    assert((2 * x + D()) / (2 * D()) <= (2 * y + D()) / (2 * D())) by(nonlinear_arith)
        requires 0 <= x <= y, D() == 10000000000000000000000000000;
}
pub proof fn lemma_prorata_mono(fee: int, n1: int, n2: int, den: int)
    requires den > 0, 0 <= n1 <= n2 <= den, fee >= 0
    ensures prorata(fee, n1, den) <= prorata(fee, n2, den)
{
    broadcast use dec_lemmas, axiom_ddiv, axiom_rmul;
    lemma_of_int_inj(n1, n2); lemma_of_int_inj(n2, den); lemma_of_int_inj(0, n1);
    assert(of_int(den) > 0);
    assert(0 <= of_int(n1) <= of_int(n2) <= of_int(den));
    axiom_ddiv_mono(of_int(n1), of_int(n2), of_int(den));
    let r1 = ddiv(of_int(n1), of_int(den)); let r2 = ddiv(of_int(n2), of_int(den));
    assert(0 <= r1 <= r2 <= D());
    axiom_rmul_mono(r1, r2, fee);
    assert(rmul(r1, of_int(fee)) >= 0);
    lemma_round_mono(rmul(r1, of_int(fee)), rmul(r2, of_int(fee)));
}

// ---- ledger
pub enum Msg {
    Bank { to: Seq<char>, denom: Seq<char>, amount: int },
    Marker { from: Seq<char>, to: Seq<char>, admin: Seq<char>, denom: Seq<char>, amount: int },
    Other,
}
#[verifier::opaque]
pub open spec fn tr(to: Seq<char>, from: Seq<char>, d: Seq<char>, amt: int, acct: Seq<char>, denom: Seq<char>) -> int {
    if d == denom { (if to == acct { amt } else { 0 }) - (if from == acct { amt } else { 0 }) } else { 0 }
}
pub broadcast proof fn lemma_tr_zero(to: Seq<char>, from: Seq<char>, d: Seq<char>, amt: int, acct: Seq<char>, denom: Seq<char>)
    requires amt == 0
    ensures #[trigger] tr(to, from, d, amt, acct, denom) == 0
{ reveal(tr); }
pub proof fn lemma_tr_add(to: Seq<char>, from: Seq<char>, d: Seq<char>, a: int, b: int, acct: Seq<char>, denom: Seq<char>)
    ensures tr(to, from, d, a + b, acct, denom) == tr(to, from, d, a, acct, denom) + tr(to, from, d, b, acct, denom)
{ reveal(tr); }
pub open spec fn contrib(m: Msg, c: Seq<char>, acct: Seq<char>, denom: Seq<char>) -> int {
    match m {
        Msg::Bank { to, denom: d, amount } => tr(to, c, d, amount, acct, denom),
        Msg::Marker { from, to, admin, denom: d, amount } => tr(to, from, d, amount, acct, denom),
        Msg::Other => 0,
    }
}
/// net change of (acct, denom) caused by executing the messages; bank sends are drawn from the contract `c`
pub open spec fn net(msgs: Seq<Msg>, c: Seq<char>, acct: Seq<char>, denom: Seq<char>) -> int
    decreases msgs.len()
{
    if msgs.len() == 0 { 0 } else { net(msgs.drop_last(), c, acct, denom) + contrib(msgs.last(), c, acct, denom) }
}
pub proof fn lemma_net_empty(c: Seq<char>, acct: Seq<char>, denom: Seq<char>)
    ensures net(Seq::<Msg>::empty(), c, acct, denom) == 0
{}
pub broadcast proof fn lemma_net_push(msgs: Seq<Msg>, m: Msg, c: Seq<char>, acct: Seq<char>, denom: Seq<char>)
    ensures #[trigger] net(msgs.push(m), c, acct, denom) == net(msgs, c, acct, denom) + contrib(m, c, acct, denom)
{
    assert(msgs.push(m).drop_last() =~= msgs);
}
/// an attribute (k, v) is present in the response.  Stated as a bounded disjunction over the first 16 positions
/// (no response of this contract carries more than 12 attributes) so that no existential witness is needed;
/// `lemma_has_attr_ex` shows it implies the unbounded statement.
pub open spec fn attr_at(attrs: Seq<(Seq<char>, Seq<char>)>, i: int, k: Seq<char>, v: Seq<char>) -> bool {
    i < attrs.len() && attrs[i] == (k, v)
}
pub open spec fn has_attr(attrs: Seq<(Seq<char>, Seq<char>)>, k: Seq<char>, v: Seq<char>) -> bool {
    attr_at(attrs, 0, k, v) || attr_at(attrs, 1, k, v) || attr_at(attrs, 2, k, v) || attr_at(attrs, 3, k, v)
    || attr_at(attrs, 4, k, v) || attr_at(attrs, 5, k, v) || attr_at(attrs, 6, k, v) || attr_at(attrs, 7, k, v)
    || attr_at(attrs, 8, k, v) || attr_at(attrs, 9, k, v) || attr_at(attrs, 10, k, v) || attr_at(attrs, 11, k, v)
    || attr_at(attrs, 12, k, v) || attr_at(attrs, 13, k, v) || attr_at(attrs, 14, k, v) || attr_at(attrs, 15, k, v)
}
pub open spec fn has_attr_ex(attrs: Seq<(Seq<char>, Seq<char>)>, k: Seq<char>, v: Seq<char>) -> bool {
    exists|i: int| 0 <= i < attrs.len() && #[trigger] attrs[i] == (k, v)
}
pub proof fn lemma_has_attr_ex(attrs: Seq<(Seq<char>, Seq<char>)>, k: Seq<char>, v: Seq<char>)
    requires has_attr(attrs, k, v)
    ensures has_attr_ex(attrs, k, v)
{
    let i = if attr_at(attrs, 0, k, v) { 0int } else if attr_at(attrs, 1, k, v) { 1 } else if attr_at(attrs, 2, k, v) { 2 }
        else if attr_at(attrs, 3, k, v) { 3 } else if attr_at(attrs, 4, k, v) { 4 } else if attr_at(attrs, 5, k, v) { 5 }
        else if attr_at(attrs, 6, k, v) { 6 } else if attr_at(attrs, 7, k, v) { 7 } else if attr_at(attrs, 8, k, v) { 8 }
        else if attr_at(attrs, 9, k, v) { 9 } else if attr_at(attrs, 10, k, v) { 10 } else if attr_at(attrs, 11, k, v) { 11 }
        else if attr_at(attrs, 12, k, v) { 12 } else if attr_at(attrs, 13, k, v) { 13 } else if attr_at(attrs, 14, k, v) { 14 } else { 15 };
    assert(attrs[i] == (k, v));
}
