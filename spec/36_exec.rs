// The transition relation of `execute` (API level): what a successful request of each kind implies,
// assembled from the per-handler predicates.  History-level lemmas are stated over this relation.

pub open spec fn mk_ask(id: String, base: String, quote: String, price: String, size: Uint128, owner: Addr) -> AskOrderV1 {
    AskOrderV1 { id: id, owner: owner, class: AskOrderClass::Basic, base: base, quote: quote, price: price, size: size }
}
pub open spec fn mk_bid(id: String, base: String, fee: Option<Coin>, price: String, quote: String, quote_size: Uint128, size: Uint128, owner: Addr) -> BidOrderV3 {
    BidOrderV3 { base: Coin { amount: size, denom: base }, accumulated_base: Uint128 { v: 0 }, accumulated_quote: Uint128 { v: 0 },
        accumulated_fee: Uint128 { v: 0 }, fee: fee, id: id, owner: owner, price: price, quote: Coin { amount: quote_size, denom: quote } }
}
pub open spec fn exec_post(st: StoreV, st2: StoreV, c: Seq<char>, sender: Addr, funds: Seq<Coin>, msg: ExecuteMsg,
                           msgs: Seq<Msg>, attrs: Seq<(Seq<char>, Seq<char>)>) -> bool {
    match msg {
        ExecuteMsg::ApproveAsk { id, base, size } =>
            approve_only_if(st, sender, id@, base@, size.v as int)
            && escrowed_exactly(funds, msgs, c, sender.s@, size.v as int, base@)
            && approve_recorded(st, st2, sender.s@, id@, base@, size.v as int)
            && approve_attrs(attrs, the_ask(st, id@)),
        ExecuteMsg::CreateAsk { id, base, quote, price, size } => {
            let a = mk_ask(id, base, quote, price, size, sender);
            create_ask_only_if(st, a, sender.s@) && escrowed_exactly(funds, msgs, c, sender.s@, size.v as int, base@)
            && create_ask_recorded(st, st2, a) && create_ask_attrs(attrs, a)
        },
        ExecuteMsg::CreateBid { id, base, fee, price, quote, quote_size, size } => {
            let b = mk_bid(id, base, fee, price, quote, quote_size, size, sender);
            create_bid_only_if(st, b, sender.s@)
            && escrowed_exactly(funds, msgs, c, sender.s@, quote_size.v + coin_amt(fee), quote@)
            && create_bid_recorded(st, st2, b) && create_bid_attrs(attrs, b)
        },
        ExecuteMsg::CancelAsk { id } =>
            cancel_ask_only_if(st, sender.s@, funds, id@) && cancel_ask_ledger(st, c, id@, msgs)
            && cancel_ask_state(st, st2, id@) && payouts_ok(msgs, c)
            && has_attr(attrs, "action"@, "cancel_ask"@) && has_attr(attrs, "id"@, the_ask(st, id@).id@),
        ExecuteMsg::CancelBid { id } =>
            reverse_bid_only_if(st, sender, funds, id@, ContractAction::CancelBid, None)
            && reverse_bid_ledger(st, c, id@, None, msgs) && reverse_bid_state(st, st2, id@, None) && payouts_ok(msgs, c)
            && reverse_attrs(attrs, ContractAction::CancelBid, id@, rem_base(the_bid(st, id@)), has_bid(st2, id@)),
        ExecuteMsg::ExpireBid { id } =>
            reverse_bid_only_if(st, sender, funds, id@, ContractAction::ExpireBid, None)
            && reverse_bid_ledger(st, c, id@, None, msgs) && reverse_bid_state(st, st2, id@, None) && payouts_ok(msgs, c)
            && reverse_attrs(attrs, ContractAction::ExpireBid, id@, rem_base(the_bid(st, id@)), has_bid(st2, id@)),
        ExecuteMsg::RejectBid { id, size } =>
            reverse_bid_only_if(st, sender, funds, id@, ContractAction::RejectBid, size)
            && reverse_bid_ledger(st, c, id@, size, msgs) && reverse_bid_state(st, st2, id@, size) && payouts_ok(msgs, c)
            && reverse_attrs(attrs, ContractAction::RejectBid, id@, reverse_size(size, rem_base(the_bid(st, id@))), has_bid(st2, id@)),
        ExecuteMsg::ExpireAsk { id } =>
            reverse_ask_only_if(st, sender, funds, id@, None)
            && reverse_ask_ledger(st, c, id@, None, msgs) && reverse_ask_state(st, st2, id@, None) && payouts_ok(msgs, c)
            && reverse_attrs(attrs, ContractAction::ExpireAsk, id@, the_ask(st, id@).size.v as int, has_ask(st2, id@)),
        ExecuteMsg::RejectAsk { id, size } =>
            reverse_ask_only_if(st, sender, funds, id@, size)
            && reverse_ask_ledger(st, c, id@, size, msgs) && reverse_ask_state(st, st2, id@, size) && payouts_ok(msgs, c)
            && reverse_attrs(attrs, ContractAction::RejectAsk, id@, reverse_size(size, the_ask(st, id@).size.v as int), has_ask(st2, id@)),
        ExecuteMsg::ExecuteMatch { ask_id, bid_id, price, size } =>
            match_only_if(st, sender, funds, ask_id@, bid_id@, price@, size.v as int)
            && match_ledger(st, c, ask_id@, bid_id@, price@, size.v as int, msgs)
            && match_state_ask(st, st2, ask_id@, size.v as int)
            && match_state_bid(st, st2, ask_id@, bid_id@, price@, size.v as int)
            && st2.info == st.info && st2.version == st.version && payouts_ok(msgs, c)
            && match_attrs(st, attrs, ask_id@, bid_id@, price@, size.v as int),
        ExecuteMsg::ModifyContract { approvers, executors, ask_fee_rate, ask_fee_account, bid_fee_rate, bid_fee_account,
                                     ask_required_attributes, bid_required_attributes } =>
            is_member(info_of(st).executors@, sender) && funds.len() == 0
            && side_frozen(asks_open(st), info_of(st).ask_fee_info, ask_fee_rate, ask_required_attributes)
            && side_frozen(bids_open(st), info_of(st).bid_fee_info, bid_fee_rate, bid_required_attributes)
            && ((asks_open(st) || bids_open(st)) && approvers is Some ==> approvers_kept(info_of(st).approvers@, approvers->0@))
            && info_modified(info_of(st), info_of(st2), approvers, executors, ask_fee_rate, ask_fee_account, bid_fee_rate,
                             bid_fee_account, ask_required_attributes, bid_required_attributes)
            && only_info_changed(st, st2) && msgs == Seq::<Msg>::empty() && has_attr(attrs, "action"@, "modify_contract"@),
    }
}
