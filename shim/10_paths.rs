// The dependency crates' module paths, so that `use` lines and in-body paths of /repo resolve unchanged.
pub mod cosmwasm_std {
    pub use super::flat::{attr, coin, coins, to_binary, Addr, Binary, Coin, Deps, DepsMut, Env, MessageInfo, Response, StdError, StdResult, Uint128, Storage, Order, Timestamp, BankMsg, Empty, QuerierWrapper, OverflowError, BlockInfo, entry_point, Api, Attribute};
}
pub mod provwasm_std { pub mod types {
    pub mod cosmos { pub mod base { pub mod v1beta1 { pub use crate::shim::flat::PCoin as Coin; } } }
    pub mod provenance {
        pub mod attribute { pub mod v1 { pub use crate::shim::flat::{ProvAttribute as Attribute, AttributeQuerier}; } }
        pub mod marker { pub mod v1 { pub use crate::shim::flat::{MarkerAccount, MarkerQuerier, MsgTransferRequest}; } }
    }
} }
pub mod rust_decimal {
    pub use super::flat::{Decimal, RoundingStrategy};
    pub mod prelude { pub use crate::shim::flat::{FromPrimitive, FromStr, ToPrimitive, Zero}; }
}
pub mod cw_storage_plus { pub use super::flat::{CwMap as Map, Item}; }
pub mod semver { pub use super::flat::{Version, VersionReq, Prerelease, BuildMetadata, SemverError as Error}; }
pub mod uuid { pub use super::flat::{Uuid, UuidError as Error}; }
pub mod serde_json { pub use super::flat::Error; pub use super::flat::json_to_string as to_string; }
pub mod std_collections { pub use super::flat::HashSet; }
