// Specification shim: the API surface of cosmwasm-std, cw-storage-plus, rust_decimal, semver, uuid,
// provwasm-std and serde_json that /repo uses, with *assumed* contracts (external_body + ensures)
// over the ghost model of /verif/spec.  Every item marked external_body / assume_specification /
// `broadcast proof fn axiom_*` is part of the trusted base and is enumerated into each evidence file.
pub mod flat {
use vstd::prelude::*;
use vstd::std_specs::cmp::*;
use vstd::std_specs::ops::*;
use vstd::std_specs::convert::*;
use core::cmp::Ordering;
use crate::error::ContractError;
use crate::shim::strict;
use crate::spec::*;

// ---------- std functions vstd has no specification for (A-STD) ----------
pub assume_specification [ u128::pow ] (a: u128, b: u32) -> (r: u128)
    requires a == 10, b <= 18,
    ensures r as int == pow10(b as int);
pub assume_specification<T> [ <T as From<T>>::from ] (t: T) -> (r: T)
    ensures r == t;
pub assume_specification<T: Clone> [ <T as ToOwned>::to_owned ] (s: &T) -> (r: T)
    ensures cloned(*s, r);
pub assume_specification [ String::as_bytes ] (s: &String) -> (r: &[u8])
    ensures r@ == str_bytes(s@);
pub assume_specification<T: PartialEq> [ <[T]>::contains ] (s: &[T], x: &T) -> (r: bool)
    ensures T::obeys_eq_spec() ==> r == (exists|i: int| 0 <= i < s@.len() && (#[trigger] s@[i]).eq_spec(x));

// further std string functions (not used by the pinned sources; given a meaning so that code which starts to use
// them is still decided instead of being out of reach)
pub assume_specification [ str::eq_ignore_ascii_case ] (a: &str, b: &str) -> (r: bool)
    ensures r == eq_ignore_case(a@, b@), a@ == b@ ==> r;
pub assume_specification<P: core::str::pattern::Pattern> [ str::replace::<P> ] (s: &str, from: P, to: &str) -> (r: String)
    ensures r@ == str_replace(s@, from, to@);
pub assume_specification [ str::to_lowercase ] (s: &str) -> (r: String)
    ensures r@ == str_lower(s@);
pub assume_specification [ str::to_uppercase ] (s: &str) -> (r: String)
    ensures r@ == str_upper(s@);
pub assume_specification [ str::trim ] (s: &str) -> (r: &str)
    ensures r@ == str_trim(s@);
pub assume_specification [ String::len ] (s: &String) -> (r: usize)
    ensures r as int == str_bytes(s@).len();
pub assume_specification [ u64::checked_pow ] (a: u64, b: u32) -> (r: Option<u64>)
    ensures match r { Some(v) => v as int == int_pow(a as int, b as int), None => int_pow(a as int, b as int) > u64::MAX };
pub assume_specification [ u128::checked_pow ] (a: u128, b: u32) -> (r: Option<u128>)
    ensures match r { Some(v) => v as int == int_pow(a as int, b as int), None => int_pow(a as int, b as int) > u128::MAX };
pub assume_specification<T: PartialEq, A: core::alloc::Allocator> [ Vec::<T, A>::dedup ] (v: &mut Vec<T, A>)
    ensures final(v)@ == dedup_seq::<T>(old(v)@);


// Option / Result combinators vstd has no specification for: each is its std definition, stated through the closure's
// own requires / ensures (not used by the pinned sources; code that starts to use them is decided instead of out of reach)
pub assume_specification<T, U, F: FnOnce(T) -> U> [ Option::<T>::map_or ] (o: Option<T>, d: U, f: F) -> (r: U)
    requires o is Some ==> f.requires((o->0,)),
    ensures o is None ==> r == d, o is Some ==> f.ensures((o->0,), r);
pub assume_specification<T, U, D: FnOnce() -> U, F: FnOnce(T) -> U> [ Option::<T>::map_or_else ] (o: Option<T>, d: D, f: F) -> (r: U)
    requires o is Some ==> f.requires((o->0,)), o is None ==> d.requires(()),
    ensures o is None ==> d.ensures((), r), o is Some ==> f.ensures((o->0,), r);
pub assume_specification<T> [ Option::<T>::or ] (o: Option<T>, b: Option<T>) -> (r: Option<T>)
    ensures r == (if o is Some { o } else { b });
pub assume_specification<T, F: FnOnce() -> Option<T>> [ Option::<T>::or_else ] (o: Option<T>, f: F) -> (r: Option<T>)
    requires o is None ==> f.requires(()),
    ensures o is Some ==> r == o, o is None ==> f.ensures((), r);
pub assume_specification<T, F: FnOnce(T) -> bool> [ Option::<T>::is_some_and ] (o: Option<T>, f: F) -> (r: bool)
    requires o is Some ==> f.requires((o->0,)),
    ensures o is None ==> !r, o is Some ==> f.ensures((o->0,), r);
pub assume_specification<T, F: FnOnce(T) -> bool> [ Option::<T>::is_none_or ] (o: Option<T>, f: F) -> (r: bool)
    requires o is Some ==> f.requires((o->0,)),
    ensures o is None ==> r, o is Some ==> f.ensures((o->0,), r);
pub assume_specification<T: Copy> [ Option::<&T>::copied ] (o: Option<&T>) -> (r: Option<T>)
    ensures r == (match o { Some(v) => Some(*v), None => None::<T> });
pub assume_specification<T, E, U, F: FnOnce(T) -> U> [ Result::<T, E>::map_or ] (o: Result<T, E>, d: U, f: F) -> (r: U)
    requires o is Ok ==> f.requires((o->Ok_0,)),
    ensures o is Err ==> r == d, o is Ok ==> f.ensures((o->Ok_0,), r);
pub assume_specification<T, E, U, D: FnOnce(E) -> U, F: FnOnce(T) -> U> [ Result::<T, E>::map_or_else ] (o: Result<T, E>, d: D, f: F) -> (r: U)
    requires o is Ok ==> f.requires((o->Ok_0,)), o is Err ==> d.requires((o->Err_0,)),
    ensures o is Err ==> d.ensures((o->Err_0,), r), o is Ok ==> f.ensures((o->Ok_0,), r);
pub assume_specification<T, E> [ Result::<T, E>::unwrap_or ] (o: Result<T, E>, d: T) -> (r: T)
    ensures r == (match o { Ok(v) => v, Err(_e) => d });
pub assume_specification<T, E, F: FnOnce(E) -> T> [ Result::<T, E>::unwrap_or_else ] (o: Result<T, E>, f: F) -> (r: T)
    requires o is Err ==> f.requires((o->Err_0,)),
    ensures o is Ok ==> r == o->Ok_0, o is Err ==> f.ensures((o->Err_0,), r);
pub assume_specification<T, E, U, F: FnOnce(T) -> Result<U, E>> [ Result::<T, E>::and_then ] (o: Result<T, E>, f: F) -> (r: Result<U, E>)
    requires o is Ok ==> f.requires((o->Ok_0,)),
    ensures o is Err ==> r == Err::<U, E>(o->Err_0), o is Ok ==> f.ensures((o->Ok_0,), r);
pub assume_specification<T, E, G, F: FnOnce(E) -> Result<T, G>> [ Result::<T, E>::or_else ] (o: Result<T, E>, f: F) -> (r: Result<T, G>)
    requires o is Err ==> f.requires((o->Err_0,)),
    ensures o is Ok ==> r == Ok::<T, G>(o->Ok_0), o is Err ==> f.ensures((o->Err_0,), r);
pub assume_specification<T, E, F: FnOnce(T) -> bool> [ Result::<T, E>::is_ok_and ] (o: Result<T, E>, f: F) -> (r: bool)
    requires o is Ok ==> f.requires((o->Ok_0,)),
    ensures o is Err ==> !r, o is Ok ==> f.ensures((o->Ok_0,), r);
pub assume_specification<T, P: FnOnce(&T) -> bool> [ Option::<T>::filter ] (o: Option<T>, p: P) -> (r: Option<T>)
    requires o is Some ==> p.requires((&o->0,)),
    ensures o is None ==> r is None,
            o is Some ==> exists|b: bool| p.ensures((&o->0,), b) && r == (if b { o } else { None::<T> });
pub assume_specification<T: Clone> [ <[T]>::to_vec ] (s: &[T]) -> (r: Vec<T>)
    ensures r@.len() == s@.len(), forall|i: int| 0 <= i < s@.len() ==> cloned(s@[i], #[trigger] r@[i]);
pub assume_specification<T, E, F: FnOnce(E) -> bool> [ Result::<T, E>::is_err_and ] (o: Result<T, E>, f: F) -> (r: bool)
    requires o is Err ==> f.requires((o->Err_0,)),
    ensures o is Ok ==> !r, o is Err ==> f.ensures((o->Err_0,), r);

// ---------- rule R15: `|=` / `&=` ----------
pub trait BitS: Sized {
    spec fn bor_spec(self, o: Self) -> Self;
    spec fn band_spec(self, o: Self) -> Self;
    fn bor_impl(self, o: Self) -> (r: Self) ensures r == self.bor_spec(o);
    fn band_impl(self, o: Self) -> (r: Self) ensures r == self.band_spec(o);
}
impl BitS for bool {
    open spec fn bor_spec(self, o: bool) -> bool { self || o }
    open spec fn band_spec(self, o: bool) -> bool { self && o }
    fn bor_impl(self, o: bool) -> (r: bool) { self || o }
    fn band_impl(self, o: bool) -> (r: bool) { self && o }
}
impl BitS for u128 {
    open spec fn bor_spec(self, o: u128) -> u128 { self | o }
    open spec fn band_spec(self, o: u128) -> u128 { self & o }
    fn bor_impl(self, o: u128) -> (r: u128) { self | o }
    fn band_impl(self, o: u128) -> (r: u128) { self & o }
}
impl BitS for u64 {
    open spec fn bor_spec(self, o: u64) -> u64 { self | o }
    open spec fn band_spec(self, o: u64) -> u64 { self & o }
    fn bor_impl(self, o: u64) -> (r: u64) { self | o }
    fn band_impl(self, o: u64) -> (r: u64) { self & o }
}
pub fn bor<T: BitS>(a: T, b: T) -> (r: T) ensures r == a.bor_spec(b) { a.bor_impl(b) }
pub fn band<T: BitS>(a: T, b: T) -> (r: T) ensures r == a.band_spec(b) { a.band_impl(b) }

// ---------- abort-on-None/Err (rule R2) ----------
pub trait UnwrapAbort<T>: Sized {
    spec fn ua_val(self) -> Option<T>;
    fn unwrap_abort(self) -> (r: T)
        requires strict() ==> self.ua_val() is Some,
        ensures self.ua_val() == Some(r);
}
/// The one abort primitive (A-UINT / rule R2): a panic ends the transaction and the chain rolls it back (A-ROLLBACK), so
/// control never continues past it. In lenient mode an abort is a refusal; in strict mode it must be unreachable.
/// Every aborting operation of the shim below (`unwrap`, `Uint128` `+ - -= %`) is *verified* against this primitive.
#[verifier::external_body]
pub fn abort<T>() -> (r: T)
    requires !strict(),
    ensures false,
{ panic!() }
impl<T> UnwrapAbort<T> for Option<T> {
    open spec fn ua_val(self) -> Option<T> { self }
    fn unwrap_abort(self) -> (r: T) { match self { Some(t) => t, None => abort() } }
}
impl<T, E> UnwrapAbort<T> for Result<T, E> {
    open spec fn ua_val(self) -> Option<T> { match self { Ok(t) => Some(t), Err(_) => None } }
    fn unwrap_abort(self) -> (r: T) { match self { Ok(t) => t, Err(_) => abort() } }
}
#[verifier::external_body] pub fn fmt_opaque() -> String { unimplemented!() }

// ---------- conversions with a specification (rule R13: `Into<String>` / `Into<Addr>` bounds) ----------
pub mod conv {
    use vstd::prelude::*;
    use super::{Addr, Uint128};
    use crate::spec::*;
    pub trait IntoStringS: Sized {
        spec fn istr(self) -> Seq<char>;
        fn into(self) -> (r: String) ensures r@ == self.istr();
    }
    impl IntoStringS for String {
        open spec fn istr(self) -> Seq<char> { self@ }
        fn into(self) -> (r: String) { self }
    }
    impl IntoStringS for &String {
        open spec fn istr(self) -> Seq<char> { self@ }
        fn into(self) -> (r: String) { self.clone() }
    }
    impl IntoStringS for &str {
        open spec fn istr(self) -> Seq<char> { self@ }
        fn into(self) -> (r: String) { self.to_string() }
    }
    impl IntoStringS for Uint128 {
        open spec fn istr(self) -> Seq<char> { u128_str(self.v as int) }
        fn into(self) -> (r: String) { self.to_string() }
    }
    pub trait IntoAddrS: Sized {
        spec fn iaddr(self) -> Seq<char>;
        fn into(self) -> (r: Addr) ensures r.s@ == self.iaddr();
    }
    impl IntoAddrS for Addr {
        open spec fn iaddr(self) -> Seq<char> { self.s@ }
        fn into(self) -> (r: Addr) { self }
    }
}
use conv::{IntoStringS, IntoAddrS};

// ---------- Uint128 (A-UINT) ----------
#[derive(Clone, Copy, Debug)]
pub struct Uint128 { pub v: u128 }
impl PartialEqSpecImpl for Uint128 {
    open spec fn obeys_eq_spec() -> bool { true }
    open spec fn eq_spec(&self, other: &Uint128) -> bool { self.v == other.v }
}
impl PartialEq for Uint128 { fn eq(&self, other: &Uint128) -> (r: bool) { self.v == other.v } }
impl PartialOrdSpecImpl for Uint128 {
    open spec fn obeys_partial_cmp_spec() -> bool { true }
    open spec fn partial_cmp_spec(&self, other: &Uint128) -> Option<Ordering> {
        if self.v < other.v { Some(Ordering::Less) } else if self.v == other.v { Some(Ordering::Equal) } else { Some(Ordering::Greater) }
    }
}
impl PartialOrd for Uint128 {
    fn partial_cmp(&self, other: &Uint128) -> (r: Option<Ordering>) {
        if self.v < other.v { Some(Ordering::Less) } else if self.v == other.v { Some(Ordering::Equal) } else { Some(Ordering::Greater) }
    }
}
impl SubSpecImpl<Uint128> for Uint128 {
    open spec fn obeys_sub_spec() -> bool { false }
    open spec fn sub_req(self, rhs: Uint128) -> bool { strict() ==> self.v >= rhs.v }
    open spec fn sub_spec(self, rhs: Uint128) -> Uint128 { arbitrary() }
}
impl core::ops::Sub for Uint128 {
    type Output = Uint128;
    fn sub(self, rhs: Uint128) -> (r: Uint128) ensures self.v >= rhs.v, r.v == self.v - rhs.v { if self.v >= rhs.v { Uint128 { v: self.v - rhs.v } } else { abort() } }
}
impl AddSpecImpl<Uint128> for Uint128 {
    open spec fn obeys_add_spec() -> bool { false }
    open spec fn add_req(self, rhs: Uint128) -> bool { strict() ==> self.v + rhs.v <= u128::MAX }
    open spec fn add_spec(self, rhs: Uint128) -> Uint128 { arbitrary() }
}
impl core::ops::Add for Uint128 {
    type Output = Uint128;
    fn add(self, rhs: Uint128) -> (r: Uint128) ensures self.v + rhs.v <= u128::MAX, r.v == self.v + rhs.v { if self.v <= u128::MAX - rhs.v { Uint128 { v: self.v + rhs.v } } else { abort() } }
}
impl SubAssignSpecImpl<Uint128> for Uint128 {
    open spec fn obeys_sub_assign_spec() -> bool { false }
    open spec fn sub_assign_req(&self, rhs: Uint128) -> bool { strict() ==> self.v >= rhs.v }
    open spec fn sub_assign_spec(&self, rhs: Uint128) -> &Uint128 { arbitrary() }
}
impl core::ops::SubAssign for Uint128 {
    fn sub_assign(&mut self, rhs: Uint128) ensures old(self).v >= rhs.v, final(self).v == old(self).v - rhs.v { if self.v >= rhs.v { self.v = self.v - rhs.v; } else { abort::<()>() } }
}
impl Uint128 {
    pub fn u128(&self) -> (r: u128) ensures r == self.v { self.v }
    pub fn is_zero(&self) -> (r: bool) ensures r == (self.v == 0) { self.v == 0 }
    pub fn new(v: u128) -> (r: Uint128) ensures r.v == v { Uint128 { v } }
    pub fn zero() -> (r: Uint128) ensures r.v == 0 { Uint128 { v: 0 } }
    pub fn checked_sub(self, o: Uint128) -> (r: Result<Uint128, OverflowError>)
        ensures self.v >= o.v ==> r == Ok::<Uint128, OverflowError>(Uint128 { v: (self.v - o.v) as u128 }), self.v < o.v ==> r is Err
    { if self.v >= o.v { Ok(Uint128 { v: self.v - o.v }) } else { Err(OverflowError {}) } }
    pub fn checked_add(self, o: Uint128) -> (r: Result<Uint128, OverflowError>)
        ensures self.v + o.v <= u128::MAX ==> r == Ok::<Uint128, OverflowError>(Uint128 { v: (self.v + o.v) as u128 }), self.v + o.v > u128::MAX ==> r is Err
    { if self.v <= u128::MAX - o.v { Ok(Uint128 { v: self.v + o.v }) } else { Err(OverflowError {}) } }
    #[verifier::external_body]
    pub fn to_string(&self) -> (r: String) ensures r@ == u128_str(self.v as int) { unimplemented!() }
}
impl Uint128 {
    pub fn one() -> (r: Uint128) ensures r.v == 1 { Uint128 { v: 1 } }
    pub fn default() -> (r: Uint128) ensures r.v == 0 { Uint128 { v: 0 } }
    pub exec const MAX: Uint128 ensures Self::MAX.v == u128::MAX { Uint128 { v: u128::MAX } }
}
impl RemSpecImpl<Uint128> for Uint128 {
    open spec fn obeys_rem_spec() -> bool { false }
    open spec fn rem_req(self, rhs: Uint128) -> bool { strict() ==> rhs.v != 0 }
    open spec fn rem_spec(self, rhs: Uint128) -> Uint128 { arbitrary() }
}
impl core::ops::Rem for Uint128 {
    type Output = Uint128;
    /// cosmwasm: `Self(self.0.rem(rhs.0))`, aborts on a zero divisor
    fn rem(self, rhs: Uint128) -> (r: Uint128) ensures rhs.v != 0, r.v == self.v % rhs.v { if rhs.v != 0 { Uint128 { v: self.v % rhs.v } } else { abort() } }
}
impl FromSpecImpl<Uint128> for u128 {
    open spec fn obeys_from_spec() -> bool { true }
    open spec fn from_spec(x: Uint128) -> u128 { x.v }
}
impl From<Uint128> for u128 { fn from(x: Uint128) -> (r: u128) { x.v } }
impl FromSpecImpl<u128> for Uint128 {
    open spec fn obeys_from_spec() -> bool { true }
    open spec fn from_spec(x: u128) -> Uint128 { Uint128 { v: x } }
}
impl From<u128> for Uint128 { fn from(x: u128) -> (r: Uint128) { Uint128 { v: x } } }

#[derive(Debug)] pub struct OverflowError {}
#[derive(Debug)] pub enum StdError { GenericErr { msg: String }, Overflow { source: OverflowError }, NotFound { kind: String } }
impl StdError {
    #[verifier::external_body] pub fn generic_err(m: &str) -> (r: StdError) { unimplemented!() }
    #[verifier::external_body] pub fn not_found(kind: &str) -> (r: StdError) { unimplemented!() }
}
pub type StdResult<T> = Result<T, StdError>;
#[derive(Debug)] pub struct SemverError {}
#[derive(Debug)] pub struct UuidError {}
#[derive(Debug)] pub struct Error {}
#[derive(Debug)] pub struct BlockInfo { pub height: u64, pub time: Timestamp }
pub fn entry_point() {}
pub trait FromPrimitive {} pub trait FromStr {} pub trait ToPrimitive {} pub trait Zero {}
#[derive(Clone, Copy, Debug, PartialEq, Default)] pub struct Timestamp { pub n: u64 }

// ---------- Decimal (A-DEC, A-DEC-DIV) ----------
#[derive(Clone, Copy)]
/// q: value * 10^28.  w: the value is a division result carrying the full 28 digits (products with it are rounded, not
/// exact).  nz: the value may be a negative zero (only trunc/floor/ceil/abs of a negative value can produce one).
pub struct Decimal { pub q: Ghost<int>, pub w: Ghost<bool>, pub nz: Ghost<bool> }
pub enum RoundingStrategy { MidpointAwayFromZero, MidpointNearestEven, MidpointTowardZero, ToZero, AwayFromZero, ToNegativeInfinity, ToPositiveInfinity }
pub open spec fn strategy_code(s: RoundingStrategy) -> int {
    match s {
        RoundingStrategy::MidpointAwayFromZero => 0, RoundingStrategy::MidpointNearestEven => 1,
        RoundingStrategy::MidpointTowardZero => 2, RoundingStrategy::ToZero => 3, RoundingStrategy::AwayFromZero => 4,
        RoundingStrategy::ToNegativeInfinity => 5, RoundingStrategy::ToPositiveInfinity => 6,
    }
}
pub struct DecErr {}
impl Decimal {
    #[verifier::external_body]
    pub fn from_str(s: &str) -> (r: Result<Decimal, DecErr>)
        ensures match parse_dec(s@) { Some(q) => r is Ok && r->Ok_0.q@ == q && !r->Ok_0.w@ && !r->Ok_0.nz@, None => r is Err },
                strict() && r is Ok ==> fits(r->Ok_0.q@),
    { unimplemented!() }
    #[verifier::external_body]
    pub fn checked_mul(self, o: Decimal) -> (r: Option<Decimal>)
        // exact when neither operand is a full-precision quotient and the product is representable (A-DEC, range
        // stated there); with a quotient operand the product is rounded (rmul)
        ensures r is Some && !self.w@ && !o.w@ ==> r->0.q@ == dmul(self.q@, o.q@) && !r->0.w@,
                r is Some && (self.w@ || o.w@) ==> r->0.q@ == rmul(self.q@, o.q@),
                r is Some ==> !r->0.nz@,
                strict() && !self.w@ && !o.w@ && fits(dmul(self.q@, o.q@)) ==> r is Some,
                strict() && (self.w@ || o.w@) && fits(rmul(self.q@, o.q@)) ==> r is Some,
    { unimplemented!() }
    #[verifier::external_body]
    pub fn checked_sub(self, o: Decimal) -> (r: Option<Decimal>)
        ensures r is Some ==> r->0.q@ == dsub(self.q@, o.q@) && (r->0.nz@ ==> self.nz@ || o.nz@) && r->0.w@ == (self.w@ || o.w@),
                strict() && fits(dsub(self.q@, o.q@)) ==> r is Some,
    { unimplemented!() }
    #[verifier::external_body]
    pub fn checked_div(self, o: Decimal) -> (r: Option<Decimal>)
        ensures r is Some ==> o.q@ != 0 && r->0.q@ == ddiv(self.q@, o.q@) && r->0.w@ && !r->0.nz@,
                strict() && o.q@ != 0 && fits(ddiv(self.q@, o.q@)) ==> r is Some,
    { unimplemented!() }
    #[verifier::external_body]
    pub fn fract(&self) -> (r: Decimal)
        ensures (r.q@ == 0) == is_whole(self.q@), r.nz@ ==> self.nz@
    { unimplemented!() }
    #[verifier::external_body]
    pub fn zero() -> (r: Decimal) ensures r.q@ == 0, !r.w@, !r.nz@ { unimplemented!() }
    pub exec const ZERO: Decimal ensures Self::ZERO.q@ == 0, !Self::ZERO.w@, !Self::ZERO.nz@ { Decimal { q: Ghost(0), w: Ghost(false), nz: Ghost(false) } }
    pub exec const ONE: Decimal ensures Self::ONE.q@ == of_int(1), !Self::ONE.w@, !Self::ONE.nz@ { Decimal { q: Ghost(of_int(1)), w: Ghost(false), nz: Ghost(false) } }
    #[verifier::external_body]
    pub fn is_zero(&self) -> (r: bool) ensures r == (self.q@ == 0) { unimplemented!() }
    #[verifier::external_body]
    pub fn is_sign_negative(&self) -> (r: bool) ensures self.q@ > 0 ==> !r, self.q@ < 0 ==> r { unimplemented!() }
    #[verifier::external_body]
    pub fn round_dp_with_strategy(&self, dp: u32, s: RoundingStrategy) -> (r: Decimal)
        ensures (dp == 0 && s is MidpointAwayFromZero) ==> r.q@ == of_int(round_half_away(self.q@)),
                !(dp == 0 && s is MidpointAwayFromZero) ==> r.q@ == round_other(strategy_code(s), dp as int, self.q@),
                r.nz@ ==> self.nz@, dp == 0 ==> !r.w@,
    { unimplemented!() }
    // API not used by the pinned sources, modelled so that code which starts to use it is still decided
    #[verifier::external_body]
    pub fn round(&self) -> (r: Decimal) ensures r.q@ == of_int(round_half_even(self.q@)), r.nz@ ==> self.nz@, !r.w@ { unimplemented!() }
    #[verifier::external_body]
    pub fn round_dp(&self, dp: u32) -> (r: Decimal)
        ensures dp == 0 ==> r.q@ == of_int(round_half_even(self.q@)) && !r.w@, dp != 0 ==> r.q@ == round_other(1, dp as int, self.q@), r.nz@ ==> self.nz@
    { unimplemented!() }
    #[verifier::external_body]
    pub fn rescale(&mut self, scale: u32)
        ensures final(self).q@ == rescale_spec(old(self).q@, scale as int), final(self).w@ == old(self).w@
    { unimplemented!() }
    #[verifier::external_body]
    pub fn normalize(&self) -> (r: Decimal) ensures r.q@ == self.q@, r.w@ == self.w@, r.nz@ ==> self.nz@ { unimplemented!() }
    #[verifier::external_body]
    pub fn scale(&self) -> (r: u32) ensures r <= 28 { unimplemented!() }
    #[verifier::external_body]
    pub fn trunc(&self) -> (r: Decimal) ensures r.q@ == of_int(trunc_int(self.q@)) { unimplemented!() }
    #[verifier::external_body]
    pub fn floor(&self) -> (r: Decimal) ensures r.q@ == of_int(floor_int(self.q@)) { unimplemented!() }
    #[verifier::external_body]
    pub fn ceil(&self) -> (r: Decimal) ensures r.q@ == of_int(ceil_int(self.q@)) { unimplemented!() }
    #[verifier::external_body]
    pub fn abs(&self) -> (r: Decimal) ensures r.q@ == (if self.q@ >= 0 { self.q@ } else { -self.q@ }) { unimplemented!() }
    #[verifier::external_body]
    pub fn checked_add(self, o: Decimal) -> (r: Option<Decimal>) ensures r is Some ==> r->0.q@ == self.q@ + o.q@ && (r->0.nz@ ==> self.nz@ || o.nz@) { unimplemented!() }
    #[verifier::external_body]
    pub fn is_sign_positive(&self) -> (r: bool) ensures self.q@ > 0 ==> r, self.q@ < 0 ==> !r { unimplemented!() }
    #[verifier::external_body]
    pub fn to_u128(&self) -> (r: Option<u128>)
        // None for negative values AND for a negative zero (sign bit set)
        ensures self.q@ < 0 ==> r is None, self.q@ >= 0 && !self.nz@ ==> r is Some,
                r is Some ==> self.q@ >= 0 && r->0 as int == whole(self.q@) && (r->0 as int) < LIMIT96(),
    { unimplemented!() }
    #[verifier::external_body]
    pub fn from_u128(n: u128) -> (r: Option<Decimal>)
        ensures r is Some ==> r->0.q@ == of_int(n as int) && !r->0.w@ && !r->0.nz@,
                (n as int) < LIMIT96() ==> r is Some,
    { unimplemented!() }
    #[verifier::external_body]
    pub fn to_string(&self) -> (r: String) ensures r@ == dec_str(self.q@) { unimplemented!() }
    #[verifier::external_body]
    pub fn cmp(&self, o: &Decimal) -> (r: Ordering)
        ensures r == (if self.q@ < o.q@ { Ordering::Less } else if self.q@ == o.q@ { Ordering::Equal } else { Ordering::Greater })
    { unimplemented!() }
}
impl Decimal {
    /// rule R14: `Decimal::from(u128)`; aborts above the 96-bit mantissa (refusal in lenient mode, required in strict mode)
    #[verifier::external_body]
    pub fn from_abort(x: u128) -> (r: Decimal)
        requires strict() ==> (x as int) < LIMIT96(),
        ensures r.q@ == of_int(x as int), (x as int) < LIMIT96(), !r.w@, !r.nz@
    { unimplemented!() }
}
impl PartialEqSpecImpl for Decimal {
    open spec fn obeys_eq_spec() -> bool { true }
    open spec fn eq_spec(&self, other: &Decimal) -> bool { self.q@ == other.q@ }
}
impl PartialEq for Decimal { #[verifier::external_body] fn eq(&self, other: &Decimal) -> (r: bool) { unimplemented!() } }
impl PartialOrdSpecImpl for Decimal {
    open spec fn obeys_partial_cmp_spec() -> bool { true }
    open spec fn partial_cmp_spec(&self, other: &Decimal) -> Option<Ordering> {
        if self.q@ < other.q@ { Some(Ordering::Less) } else if self.q@ == other.q@ { Some(Ordering::Equal) } else { Some(Ordering::Greater) }
    }
}
impl PartialOrd for Decimal { #[verifier::external_body] fn partial_cmp(&self, other: &Decimal) -> (r: Option<Ordering>) { unimplemented!() } }
impl FromSpecImpl<u128> for Decimal {
    open spec fn obeys_from_spec() -> bool { false }
    open spec fn from_spec(x: u128) -> Decimal { arbitrary() }
}
// `Decimal::from(u128)` aborts above the 96-bit mantissa: refusal in lenient mode, required in strict mode
impl From<u128> for Decimal {
    #[verifier::external_body]
    fn from(x: u128) -> (r: Decimal) ensures r.q@ == of_int(x as int), (x as int) < LIMIT96() { unimplemented!() }
}
impl FromSpecImpl<i32> for Decimal {
    open spec fn obeys_from_spec() -> bool { false }
    open spec fn from_spec(x: i32) -> Decimal { arbitrary() }
}
impl From<i32> for Decimal { #[verifier::external_body] fn from(x: i32) -> (r: Decimal) ensures r.q@ == of_int(x as int) { unimplemented!() } }

// ---------- Addr / Coin ----------
#[derive(Debug)] pub struct Addr { pub s: String }
impl Clone for Addr { fn clone(&self) -> (r: Addr) ensures r == *self { Addr { s: self.s.clone() } } }
impl PartialEqSpecImpl for Addr {
    open spec fn obeys_eq_spec() -> bool { true }
    open spec fn eq_spec(&self, other: &Addr) -> bool { self.s@ == other.s@ }
}
impl PartialEq for Addr { fn eq(&self, other: &Addr) -> (r: bool) { self.s == other.s } }
impl Addr {
    pub fn to_string(&self) -> (r: String) ensures r@ == self.s@ { self.s.clone() }
    pub fn into_string(self) -> (r: String) ensures r@ == self.s@ { self.s }
    pub fn as_str(&self) -> (r: &str) ensures r@ == self.s@ { self.s.as_str() }
    #[verifier::external_body] pub fn unchecked(s: &str) -> (r: Addr) ensures r.s@ == s@ { unimplemented!() }
}
#[derive(Debug)] pub struct Coin { pub denom: String, pub amount: Uint128 }
impl Clone for Coin { fn clone(&self) -> (r: Coin) ensures r == *self { Coin { denom: self.denom.clone(), amount: self.amount } } }
impl PartialEqSpecImpl for Coin {
    open spec fn obeys_eq_spec() -> bool { true }
    open spec fn eq_spec(&self, other: &Coin) -> bool { self.denom@ == other.denom@ && self.amount.v == other.amount.v }
}
impl PartialEq for Coin { fn eq(&self, other: &Coin) -> (r: bool) { self.denom == other.denom && self.amount == other.amount } }
pub fn coins<S: IntoStringS>(a: u128, d: S) -> (r: Vec<Coin>)
    ensures r@.len() == 1, r@[0].denom@ == d.istr(), r@[0].amount.v == a
{
    let mut v = Vec::new();
    v.push(Coin { denom: d.into(), amount: Uint128 { v: a } });
    v
}
pub fn coin<S: IntoStringS>(a: u128, d: S) -> (r: Coin)
    ensures r.denom@ == d.istr(), r.amount.v == a
{ Coin { denom: d.into(), amount: Uint128 { v: a } } }
/// the funds vector is exactly one coin (a, d)
pub open spec fn funds_are(f: Seq<Coin>, a: int, d: Seq<char>) -> bool {
    f.len() == 1 && f[0].denom@ == d && f[0].amount.v == a
}

// ---------- storage (A-STORE, A-SERDE) ----------
pub struct Storage { pub g: Ghost<StoreV> }
impl View for Storage { type V = StoreV; open spec fn view(&self) -> StoreV { self.g@ } }
pub struct CwMap<V> { pub ns: &'static str, pub p: Ghost<Option<V>> }
pub enum Order { Ascending, Descending }
impl<V: MapStored> CwMap<V> {
    pub const fn new(ns: &'static str) -> Self { CwMap { ns, p: Ghost(None) } }
    // `Map::load/may_load/save/remove/update(store, k, ..)`: bodies as in cw-storage-plus (`self.key(k).f(store, ..)`),
    // verified against the assumed contracts of `Path` (the only assumed storage primitives besides `has`/`is_empty`/range)
    pub fn load(&self, store: &Storage, k: &[u8]) -> (r: Result<V, StdError>)
        ensures match V::m_get(store@, k@) { Some(v) => r == Ok::<V, StdError>(v), None => r is Err }
    { self.key(k).load(store) }
    pub fn may_load(&self, store: &Storage, k: &[u8]) -> (r: Result<Option<V>, StdError>)
        ensures match V::m_get(store@, k@) {
            Some(v) => r == Ok::<Option<V>, StdError>(Some(v)),
            None => if V::m_raw(store@, k@) { r is Err } else { r == Ok::<Option<V>, StdError>(None) } }
    { self.key(k).may_load(store) }
    pub fn save(&self, store: &mut Storage, k: &[u8], v: &V) -> (r: Result<(), StdError>)
        ensures r is Ok, final(store)@ == V::m_put(old(store)@, k@, *v)
    { self.key(k).save(store, v) }
    pub fn remove(&self, store: &mut Storage, k: &[u8])
        ensures final(store)@ == V::m_del(old(store)@, k@)
    { self.key(k).remove(store) }
    #[verifier::external_body]
    pub fn is_empty(&self, store: &Storage) -> (r: bool)
        ensures r == V::m_empty(store@)
    { unimplemented!() }
    /// cw-storage-plus: `has` looks at the raw key only
    #[verifier::external_body]
    pub fn has(&self, store: &Storage, k: &[u8]) -> (r: bool)
        ensures r == V::m_raw(store@, k@)
    { unimplemented!() }
    /// cw-storage-plus: `Map::load/may_load/save/remove/update(store, k, ..)` are `self.key(k).load/..(store, ..)`
    pub fn key<'a>(&self, k: &'a [u8]) -> (r: Path<'a, V>) ensures r.k@ == k@ { Path { k, p: Ghost(None) } }
    /// rule R7: keys of this namespace whose value deserialises as V
    #[verifier::external_body]
    pub fn keys_that_load(&self, store: &Storage) -> (r: Vec<Vec<u8>>)
        ensures forall|i: int| 0 <= i < r@.len() ==> V::m_get(store@, #[trigger] r@[i]@) is Some,
                forall|k: Seq<u8>| V::m_get(store@, k) is Some ==> exists|i: int| 0 <= i < r@.len() && #[trigger] r@[i]@ == k,
                forall|i: int, j: int| 0 <= i < j < r@.len() ==> r@[i]@ != r@[j]@,
    { unimplemented!() }
    /// rule R7 with `map_while`: the keys, in key order, up to the first record that does not deserialise as V
    /// (key order is not part of the ghost model: all that is promised is a duplicate-free list of loading keys that is
    /// complete when every record of the namespace loads)
    #[verifier::external_body]
    pub fn keys_while_load(&self, store: &Storage) -> (r: Vec<Vec<u8>>)
        ensures forall|i: int| 0 <= i < r@.len() ==> V::m_get(store@, #[trigger] r@[i]@) is Some,
                (forall|k: Seq<u8>| #[trigger] V::m_raw(store@, k) ==> V::m_get(store@, k) is Some) ==>
                    forall|k: Seq<u8>| V::m_get(store@, k) is Some ==> exists|i: int| 0 <= i < r@.len() && #[trigger] r@[i]@ == k,
                forall|i: int, j: int| 0 <= i < j < r@.len() ==> r@[i]@ != r@[j]@,
    { unimplemented!() }
    /// cw-storage-plus: `let input = self.may_load(..)?; let output = action(input)?; self.save(.., &output)?; Ok(output)`;
    /// that body is **verified** here (the two `?` on `StdError` written as the `match` they expand to)
    pub fn update<A: FnOnce(Option<V>) -> Result<V, E>, E: From<StdError>>(&self, store: &mut Storage, k: &[u8], action: A) -> (r: Result<V, E>)
        requires
            !(V::m_raw(old(store)@, k@) && V::m_get(old(store)@, k@) is None) ==> action.requires((V::m_get(old(store)@, k@),)),
        ensures
            (V::m_raw(old(store)@, k@) && V::m_get(old(store)@, k@) is None) ==> r is Err && final(store)@ == old(store)@,
            !(V::m_raw(old(store)@, k@) && V::m_get(old(store)@, k@) is None) ==> (match r {
                Ok(v) => action.ensures((V::m_get(old(store)@, k@),), Ok::<V, E>(v)) && final(store)@ == V::m_put(old(store)@, k@, v),
                Err(e) => final(store)@ == old(store)@,
            }),
            // no-abort / no-error direction: the only other error source is the action itself
            (!(V::m_raw(old(store)@, k@) && V::m_get(old(store)@, k@) is None)
                && (forall|x: Result<V, E>| action.ensures((V::m_get(old(store)@, k@),), x) ==> x is Ok)) ==> r is Ok,
    {
        let input = match self.may_load(store, k) { Ok(i) => i, Err(e) => { return Err(E::from(e)); } };
        let output = action(input)?;
        match self.save(store, k, &output) { Ok(_) => {}, Err(e) => { return Err(E::from(e)); } };
        Ok(output)
    }
}
pub struct Path<'a, V> { pub k: &'a [u8], pub p: Ghost<Option<V>> }
impl<'a, V: MapStored> Path<'a, V> {
    #[verifier::external_body]
    pub fn load(&self, store: &Storage) -> (r: Result<V, StdError>)
        ensures match V::m_get(store@, self.k@) { Some(v) => r == Ok::<V, StdError>(v), None => r is Err }
    { unimplemented!() }
    #[verifier::external_body]
    pub fn may_load(&self, store: &Storage) -> (r: Result<Option<V>, StdError>)
        ensures match V::m_get(store@, self.k@) {
            Some(v) => r == Ok::<Option<V>, StdError>(Some(v)),
            None => if V::m_raw(store@, self.k@) { r is Err } else { r == Ok::<Option<V>, StdError>(None) } }
    { unimplemented!() }
    #[verifier::external_body]
    pub fn save(&self, store: &mut Storage, v: &V) -> (r: Result<(), StdError>)
        ensures r is Ok, final(store)@ == V::m_put(old(store)@, self.k@, *v)
    { unimplemented!() }
    #[verifier::external_body]
    pub fn remove(&self, store: &mut Storage)
        ensures final(store)@ == V::m_del(old(store)@, self.k@)
    { unimplemented!() }
}
pub struct Item<V> { pub ns: &'static str, pub p: Ghost<Option<V>> }
impl<V: ItemStored> Item<V> {
    pub const fn new(ns: &'static str) -> Self { Item { ns, p: Ghost(None) } }
    #[verifier::external_body]
    pub fn load(&self, store: &Storage) -> (r: Result<V, StdError>)
        ensures match V::i_get(store@) { Some(v) => r == Ok::<V, StdError>(v), None => r is Err }
    { unimplemented!() }
    #[verifier::external_body]
    pub fn save(&self, store: &mut Storage, v: &V) -> (r: Result<(), StdError>)
        ensures r is Ok, final(store)@ == V::i_put(old(store)@, *v)
    { unimplemented!() }
}
pub uninterp spec fn valid_addr(s: Seq<char>) -> bool;
pub struct Api {}
impl Api {
    #[verifier::external_body]
    pub fn addr_validate(&self, s: &str) -> (r: Result<Addr, StdError>)
        ensures valid_addr(s@) ==> r is Ok && r->Ok_0.s@ == s@, !valid_addr(s@) ==> r is Err
    { unimplemented!() }
}
pub struct QuerierWrapper {}
pub struct DepsMut<'a> { pub storage: &'a mut Storage, pub api: &'a Api, pub querier: QuerierWrapper }
impl<'a> DepsMut<'a> {
    pub fn branch(&mut self) -> (r: DepsMut<'_>)
        ensures *r.storage == *old(self).storage, *final(self).storage == *final(r.storage),
                *final(final(self).storage) == *final(old(self).storage)
    {
        DepsMut { storage: self.storage, api: self.api, querier: QuerierWrapper {} }
    }
}
pub struct Deps<'a> { pub storage: &'a Storage, pub api: &'a Api, pub querier: QuerierWrapper }
pub struct ContractInfoEnv { pub address: Addr }
pub struct Env { pub contract: ContractInfoEnv }
pub struct MessageInfo { pub sender: Addr, pub funds: Vec<Coin> }
pub struct Binary { pub g: Ghost<Seq<u8>> }
pub uninterp spec fn ser<T>(t: T) -> Seq<u8>;
pub uninterp spec fn json_of<T>(t: T) -> Seq<char>;
#[verifier::external_body]
pub fn to_binary<T>(t: &T) -> (r: StdResult<Binary>)
    ensures r is Ok, r->Ok_0.g@ == ser::<T>(*t)
{ unimplemented!() }
#[verifier::external_body]
pub fn json_to_string<T>(t: &T) -> (r: Result<String, Error>)
    ensures r is Ok, r->Ok_0@ == json_of::<T>(*t)
{ unimplemented!() }

// ---------- response ----------
pub struct Attribute { pub key: String, pub value: String }
pub struct Response { pub msgs: Ghost<Seq<Msg>>, pub attrs: Ghost<Seq<(Seq<char>, Seq<char>)>> }
pub open spec fn attr_views(a: Seq<Attribute>) -> Seq<(Seq<char>, Seq<char>)> {
    Seq::new(a.len(), |i: int| (a[i].key@, a[i].value@))
}
pub fn attr<K: IntoStringS, V: IntoStringS>(k: K, v: V) -> (r: Attribute)
    ensures r.key@ == k.istr(), r.value@ == v.istr()
{ Attribute { key: k.into(), value: v.into() } }
pub trait IntoMsg: Sized { spec fn msg_spec(self) -> Msg; }
impl IntoMsg for MsgTransferRequest {
    open spec fn msg_spec(self) -> Msg {
        match self.amount {
            Some(c) => Msg::Marker { from: self.from_address@, to: self.to_address@, admin: self.administrator@, denom: c.denom@, amount: u128_of_str(c.amount@) },
            None => Msg::Other,
        }
    }
}
impl IntoMsg for BankMsg {
    open spec fn msg_spec(self) -> Msg {
        match self {
            BankMsg::Send { to_address, amount } =>
                if amount@.len() == 1 { Msg::Bank { to: to_address@, denom: amount@[0].denom@, amount: amount@[0].amount.v as int } } else { Msg::Other },
        }
    }
}
impl Response {
    pub fn new() -> (r: Response) ensures r.msgs@ == Seq::<Msg>::empty(), r.attrs@ == Seq::<(Seq<char>, Seq<char>)>::empty()
    { Response { msgs: Ghost(Seq::empty()), attrs: Ghost(Seq::empty()) } }
    #[verifier::external_body]
    pub fn add_attributes(self, a: Vec<Attribute>) -> (r: Response)
        ensures r.msgs == self.msgs, r.attrs@ == self.attrs@ + attr_views(a@)
    { unimplemented!() }
    #[verifier::external_body]
    pub fn add_attribute<K: IntoStringS, V: IntoStringS>(self, k: K, v: V) -> (r: Response)
        ensures r.msgs == self.msgs, r.attrs@ == self.attrs@.push((k.istr(), v.istr()))
    { unimplemented!() }
    #[verifier::external_body]
    pub fn add_message<M: IntoMsg>(self, m: M) -> (r: Response)
        ensures r.attrs == self.attrs, r.msgs@ == self.msgs@.push(m.msg_spec())
    { unimplemented!() }
    /// cosmwasm: `Response::default()` is what `new()` returns
    pub fn default() -> (r: Response) ensures r.msgs@ == Seq::<Msg>::empty(), r.attrs@ == Seq::<(Seq<char>, Seq<char>)>::empty()
    { Response { msgs: Ghost(Seq::empty()), attrs: Ghost(Seq::empty()) } }
    /// cosmwasm: extends the message list by the given ones, in order
    #[verifier::external_body]
    pub fn add_messages<M: IntoMsg>(self, ms: Vec<M>) -> (r: Response)
        ensures r.attrs == self.attrs, r.msgs@ == self.msgs@ + Seq::new(ms@.len(), |i: int| ms@[i].msg_spec())
    { unimplemented!() }
}
pub enum BankMsg { Send { to_address: String, amount: Vec<Coin> } }
pub struct PCoin { pub denom: String, pub amount: String }
pub struct MsgTransferRequest { pub amount: Option<PCoin>, pub administrator: String, pub from_address: String, pub to_address: String }

// ---------- provwasm queriers (A-CHAINQ) ----------
pub struct Empty {}
pub struct Any { pub g: Ghost<int> }
pub struct MarkerAccount { pub marker_type: i32, pub denom: String }
pub struct QueryMarkerResponse { pub marker: Option<Any> }
pub uninterp spec fn mq_ok(d: Seq<char>) -> bool;
pub uninterp spec fn mq_any(d: Seq<char>) -> Option<Any>;
pub uninterp spec fn any_account(a: Any) -> Option<MarkerAccount>;
/// the denomination is a restricted marker on chain (marker_type 2)
pub open spec fn restricted(d: Seq<char>) -> bool {
    mq_ok(d) && mq_any(d) is Some && any_account(mq_any(d)->0) is Some && any_account(mq_any(d)->0)->0.marker_type == 2
}
pub struct MarkerQuerier<'a, Q> { pub q: &'a QuerierWrapper, pub p: Ghost<Option<Q>> }
impl<'a, Q> MarkerQuerier<'a, Q> {
    #[verifier::external_body] pub fn new(q: &'a QuerierWrapper) -> (r: Self) { unimplemented!() }
    #[verifier::external_body]
    pub fn marker(&self, id: String) -> (r: StdResult<QueryMarkerResponse>)
        ensures mq_ok(id@) ==> r is Ok && r->Ok_0.marker == mq_any(id@), !mq_ok(id@) ==> r is Err
    { unimplemented!() }
}
pub struct TryErr {}
impl TryFrom<Any> for MarkerAccount {
    type Error = TryErr;
    #[verifier::external_body]
    fn try_from(a: Any) -> (r: Result<MarkerAccount, TryErr>)
        ensures match any_account(a) { Some(m) => r == Ok::<MarkerAccount, TryErr>(m), None => r is Err }
    { unimplemented!() }
}
pub struct ProvAttribute { pub name: String }
pub struct QueryAttributesResponse { pub attributes: Vec<ProvAttribute> }
pub uninterp spec fn attrs_of(addr: Seq<char>) -> Option<Seq<Seq<char>>>;
pub struct AttributeQuerier<'a, Q> { pub q: &'a QuerierWrapper, pub p: Ghost<Option<Q>> }
impl<'a, Q> AttributeQuerier<'a, Q> {
    #[verifier::external_body] pub fn new(q: &'a QuerierWrapper) -> (r: Self) { unimplemented!() }
    #[verifier::external_body]
    pub fn attributes(&self, a: String, p: Option<u8>) -> (r: StdResult<QueryAttributesResponse>)
        ensures match attrs_of(a@) {
            Some(names) => r is Ok && r->Ok_0.attributes@.len() == names.len()
                && forall|i: int| #![trigger r->Ok_0.attributes@[i]] #![trigger names[i]] 0 <= i < names.len() ==> r->Ok_0.attributes@[i].name@ == names[i],
            None => r is Err }
    { unimplemented!() }
}
/// the account holds every attribute of the list
pub open spec fn has_all_attrs(addr: Seq<char>, required: Seq<String>) -> bool {
    attrs_of(addr) is Some && forall|i: int| 0 <= i < required.len() ==> attrs_of(addr)->0.contains((#[trigger] required[i])@)
}

// ---------- uuid (A-UUID) ----------
pub uninterp spec fn uuid_parse(s: Seq<char>) -> Option<int>;
pub uninterp spec fn uuid_hyph(u: int) -> Seq<char>;
#[verifier::external_body]
pub broadcast proof fn axiom_uuid_roundtrip(u: int)
    ensures uuid_parse(#[trigger] uuid_hyph(u)) == Some(u)
{}
#[verifier::external_body]
pub broadcast proof fn axiom_uuid_nonempty(s: Seq<char>)
    ensures #[trigger] uuid_parse(s) is Some ==> s.len() > 0
{}
/// canonical hyphenated form
pub open spec fn canonical_id(s: Seq<char>) -> bool { uuid_parse(s) is Some && s == uuid_hyph(uuid_parse(s)->0) }
pub struct Uuid { pub g: Ghost<int> }
pub struct Hyph { pub g: Ghost<int> }
impl Uuid {
    #[verifier::external_body]
    pub fn parse_str(s: &str) -> (r: Result<Uuid, UuidError>)
        ensures match uuid_parse(s@) { Some(u) => r is Ok && r->Ok_0.g@ == u, None => r is Err }
    { unimplemented!() }
    #[verifier::external_body]
    pub fn hyphenated(self) -> (r: Hyph) ensures r.g@ == self.g@ { unimplemented!() }
}
impl Hyph { #[verifier::external_body] pub fn to_string(&self) -> (r: String) ensures r@ == uuid_hyph(self.g@) { unimplemented!() } }

// ---------- semver (A-SEMVER) ----------
pub ghost struct Ver { pub major: int, pub minor: int, pub patch: int, pub pre: bool }
pub uninterp spec fn ver_parse(s: Seq<char>) -> Option<Ver>;
pub uninterp spec fn req_parse(s: Seq<char>) -> Option<int>;
pub uninterp spec fn req_matches(r: int, v: Ver) -> bool;
pub open spec fn ver_ge(v: Ver, a: int, b: int, c: int) -> bool {
    v.major > a || (v.major == a && (v.minor > b || (v.minor == b && v.patch >= c)))
}
#[verifier::external_body]
pub broadcast proof fn axiom_semver_req_ge_0_16_2(v: Ver)
    ensures #[trigger] req_matches(req_parse(">=0.16.2"@)->0, v) == (!v.pre && ver_ge(v, 0, 16, 2))
{}
#[verifier::external_body]
pub broadcast proof fn axiom_semver_req_ge_0_15_0(v: Ver)
    ensures #[trigger] req_matches(req_parse(">=0.15.0"@)->0, v) == (!v.pre && ver_ge(v, 0, 15, 0))
{}
#[verifier::external_body]
pub broadcast proof fn axiom_semver_req_lt_0_16_2(v: Ver)
    ensures #[trigger] req_matches(req_parse("<0.16.2"@)->0, v) == (!v.pre && !ver_ge(v, 0, 16, 2))
{}
#[verifier::external_body]
pub broadcast proof fn axiom_semver_req_window(v: Ver)
    ensures #[trigger] req_matches(req_parse(">=0.16.2, <0.19.1"@)->0, v) == (!v.pre && ver_ge(v, 0, 16, 2) && !ver_ge(v, 0, 19, 1))
{}
#[verifier::external_body]
pub broadcast proof fn axiom_semver_reqs_parse()
    ensures req_parse(">=0.16.2"@) is Some, req_parse(">=0.15.0"@) is Some, req_parse("<0.16.2"@) is Some,
            #[trigger] req_parse(">=0.16.2, <0.19.1"@) is Some,
{}
pub broadcast group axiom_semver_reqs {
    axiom_semver_req_ge_0_16_2, axiom_semver_req_ge_0_15_0, axiom_semver_req_lt_0_16_2, axiom_semver_req_window,
}
pub struct Prerelease { pub nonempty: bool }
impl Prerelease {
    pub fn is_empty(&self) -> (r: bool) ensures r == !self.nonempty { !self.nonempty }
}
pub struct BuildMetadata { pub nonempty: bool }
pub struct Version { pub major: u64, pub minor: u64, pub patch: u64, pub pre: Prerelease, pub build: BuildMetadata }
impl View for Version {
    type V = Ver;
    open spec fn view(&self) -> Ver { Ver { major: self.major as int, minor: self.minor as int, patch: self.patch as int, pre: self.pre.nonempty } }
}
pub struct VersionReq { pub g: Ghost<int> }
impl Version {
    #[verifier::external_body]
    pub fn parse(s: &str) -> (r: Result<Version, SemverError>)
        ensures match ver_parse(s@) { Some(v) => r is Ok && r->Ok_0@ == v, None => r is Err }
    { unimplemented!() }
    /// `FromStr for Version` is `Version::parse`
    #[verifier::external_body]
    pub fn from_str(s: &str) -> (r: Result<Version, SemverError>)
        ensures match ver_parse(s@) { Some(v) => r is Ok && r->Ok_0@ == v, None => r is Err }
    { unimplemented!() }
    pub fn new(major: u64, minor: u64, patch: u64) -> (r: Version)
        ensures r@ == (Ver { major: major as int, minor: minor as int, patch: patch as int, pre: false })
    { Version { major, minor, patch, pre: Prerelease { nonempty: false }, build: BuildMetadata { nonempty: false } } }
    #[verifier::external_body] pub fn to_string(&self) -> (r: String) { unimplemented!() }
}
impl VersionReq {
    #[verifier::external_body]
    pub fn parse(s: &str) -> (r: Result<VersionReq, SemverError>)
        ensures match req_parse(s@) { Some(q) => r is Ok && r->Ok_0.g@ == q, None => r is Err }
    { unimplemented!() }
    /// `FromStr for VersionReq` is `VersionReq::parse`
    #[verifier::external_body]
    pub fn from_str(s: &str) -> (r: Result<VersionReq, SemverError>)
        ensures match req_parse(s@) { Some(q) => r is Ok && r->Ok_0.g@ == q, None => r is Err }
    { unimplemented!() }
    #[verifier::external_body]
    pub fn matches(&self, v: &Version) -> (r: bool) ensures r == req_matches(self.g@, v@) { unimplemented!() }
}

// ---------- HashSet<String> and the helpers of rules R5/R6 ----------
pub struct HashSet<T> { pub g: Ghost<Set<Seq<char>>>, pub p: Ghost<Option<T>> }
impl View for HashSet<String> { type V = Set<Seq<char>>; open spec fn view(&self) -> Set<Seq<char>> { self.g@ } }
impl HashSet<String> {
    #[verifier::external_body]
    pub fn new() -> (r: HashSet<String>) ensures r@ == Set::<Seq<char>>::empty() { unimplemented!() }
    #[verifier::external_body]
    pub fn insert(&mut self, x: String) ensures final(self)@ == old(self)@.insert(x@) { unimplemented!() }
    #[verifier::external_body]
    pub fn contains(&self, x: &String) -> (r: bool) ensures r == self@.contains(x@) { unimplemented!() }
    #[verifier::external_body]
    pub fn is_subset(&self, o: &HashSet<String>) -> (r: bool) ensures r == self@.subset_of(o@) { unimplemented!() }
}
// error payload only; no property reads it
#[verifier::external_body] pub fn collect_strings(v: Vec<&str>) -> (r: Vec<String>) { unimplemented!() }
// rule R5 helper: the set of strings of the list (what `into_iter().map(..).collect::<HashSet<String>>()` builds); verified
pub fn attr_names(v: Vec<ProvAttribute>) -> (r: HashSet<String>)
    ensures forall|s: Seq<char>| #![trigger r@.contains(s)] #![trigger in_names(v@, s)] r@.contains(s) <==> in_names(v@, s)
{
    let mut out = HashSet::<String>::new();
    let mut i: usize = 0;
    while i < v.len()
        invariant 0 <= i <= v@.len(),
            forall|s: Seq<char>| #[trigger] out@.contains(s) <==> exists|j: int| 0 <= j < i && (#[trigger] v@[j]).name@ == s,
        decreases v@.len() - i,
    {
        out.insert(v[i].name.clone());
        i = i + 1;
    }
    proof {
        assert forall|s: Seq<char>| #![trigger out@.contains(s)] #![trigger in_names(v@, s)] out@.contains(s) <==> in_names(v@, s) by {
            if out@.contains(s) { let j = choose|j: int| 0 <= j < i && (#[trigger] v@[j]).name@ == s; assert(in_names(v@, s)); }
            if in_names(v@, s) { let j = choose|j: int| 0 <= j < v@.len() && (#[trigger] v@[j]).name@ == s; assert(0 <= j < i && (#[trigger] v@[j]).name@ == s); }
        }
    }
    out
}
// rule R5 helper: the set of strings of the list (what `into_iter().map(..).collect::<HashSet<String>>()` builds); verified
pub fn addr_string_set(v: Vec<Addr>) -> (r: HashSet<String>)
    ensures forall|s: Seq<char>| #![trigger r@.contains(s)] #![trigger in_addrs(v@, s)] r@.contains(s) <==> in_addrs(v@, s)
{
    let mut out = HashSet::<String>::new();
    let mut i: usize = 0;
    while i < v.len()
        invariant 0 <= i <= v@.len(),
            forall|s: Seq<char>| #[trigger] out@.contains(s) <==> exists|j: int| 0 <= j < i && (#[trigger] v@[j]).s@ == s,
        decreases v@.len() - i,
    {
        out.insert(v[i].s.clone());
        i = i + 1;
    }
    proof {
        assert forall|s: Seq<char>| #![trigger out@.contains(s)] #![trigger in_addrs(v@, s)] out@.contains(s) <==> in_addrs(v@, s) by {
            if out@.contains(s) { let j = choose|j: int| 0 <= j < i && (#[trigger] v@[j]).s@ == s; assert(in_addrs(v@, s)); }
            if in_addrs(v@, s) { let j = choose|j: int| 0 <= j < v@.len() && (#[trigger] v@[j]).s@ == s; assert(0 <= j < i && (#[trigger] v@[j]).s@ == s); }
        }
    }
    out
}
// rule R5 helper: the set of strings of the list (what `into_iter().map(..).collect::<HashSet<String>>()` builds); verified
pub fn string_set(v: Vec<String>) -> (r: HashSet<String>)
    ensures forall|s: Seq<char>| #![trigger r@.contains(s)] #![trigger in_strs(v@, s)] r@.contains(s) <==> in_strs(v@, s)
{
    let mut out = HashSet::<String>::new();
    let mut i: usize = 0;
    while i < v.len()
        invariant 0 <= i <= v@.len(),
            forall|s: Seq<char>| #[trigger] out@.contains(s) <==> exists|j: int| 0 <= j < i && (#[trigger] v@[j])@ == s,
        decreases v@.len() - i,
    {
        out.insert(v[i].clone());
        i = i + 1;
    }
    proof {
        assert forall|s: Seq<char>| #![trigger out@.contains(s)] #![trigger in_strs(v@, s)] out@.contains(s) <==> in_strs(v@, s) by {
            if out@.contains(s) { let j = choose|j: int| 0 <= j < i && (#[trigger] v@[j])@ == s; assert(in_strs(v@, s)); }
            if in_strs(v@, s) { let j = choose|j: int| 0 <= j < v@.len() && (#[trigger] v@[j])@ == s; assert(0 <= j < i && (#[trigger] v@[j])@ == s); }
        }
    }
    out
}
// `E.clone().into_iter().collect::<HashSet<String>>()` (rule R5): the set of strings of E; verified
pub fn string_set_ref(v: &[String]) -> (r: HashSet<String>)
    ensures forall|s: Seq<char>| #![trigger r@.contains(s)] #![trigger in_strs(v@, s)] r@.contains(s) <==> in_strs(v@, s)
{
    let mut out = HashSet::<String>::new();
    let mut i: usize = 0;
    while i < v.len()
        invariant 0 <= i <= v@.len(),
            forall|s: Seq<char>| #[trigger] out@.contains(s) <==> exists|j: int| 0 <= j < i && (#[trigger] v@[j])@ == s,
        decreases v@.len() - i,
    {
        out.insert(v[i].clone());
        i = i + 1;
    }
    proof {
        assert forall|s: Seq<char>| #![trigger out@.contains(s)] #![trigger in_strs(v@, s)] out@.contains(s) <==> in_strs(v@, s) by {
            if out@.contains(s) { let j = choose|j: int| 0 <= j < i && (#[trigger] v@[j])@ == s; assert(in_strs(v@, s)); }
            if in_strs(v@, s) { let j = choose|j: int| 0 <= j < v@.len() && (#[trigger] v@[j])@ == s; assert(0 <= j < i && (#[trigger] v@[j])@ == s); }
        }
    }
    out
}
pub fn any_missing(req: &[String], names: &HashSet<String>) -> (r: bool)
    ensures r == exists|i: int| 0 <= i < req@.len() && !names@.contains((#[trigger] req@[i])@)
{
    let mut i: usize = 0;
    while i < req.len()
        invariant 0 <= i <= req@.len(),
            forall|j: int| 0 <= j < i ==> names@.contains((#[trigger] req@[j])@),
        decreases req@.len() - i,
    {
        if !names.contains(&req[i]) { return true; }
        i = i + 1;
    }
    false
}

// ---------- thiserror #[from] conversions (rule R12) ----------
impl FromSpecImpl<StdError> for ContractError {
    open spec fn obeys_from_spec() -> bool { true }
    open spec fn from_spec(e: StdError) -> ContractError { ContractError::Std(e) }
}
impl From<StdError> for ContractError { fn from(e: StdError) -> (r: ContractError) { ContractError::Std(e) } }
impl FromSpecImpl<OverflowError> for ContractError {
    open spec fn obeys_from_spec() -> bool { true }
    open spec fn from_spec(e: OverflowError) -> ContractError { ContractError::OverflowError(e) }
}
impl From<OverflowError> for ContractError { fn from(e: OverflowError) -> (r: ContractError) { ContractError::OverflowError(e) } }
impl FromSpecImpl<Error> for ContractError {
    open spec fn obeys_from_spec() -> bool { true }
    open spec fn from_spec(e: Error) -> ContractError { ContractError::JsonSerde(e) }
}
impl From<Error> for ContractError { fn from(e: Error) -> (r: ContractError) { ContractError::JsonSerde(e) } }
impl FromSpecImpl<SemverError> for ContractError {
    open spec fn obeys_from_spec() -> bool { true }
    open spec fn from_spec(e: SemverError) -> ContractError { ContractError::SemverError(e) }
}
impl From<SemverError> for ContractError { fn from(e: SemverError) -> (r: ContractError) { ContractError::SemverError(e) } }
impl FromSpecImpl<UuidError> for ContractError {
    open spec fn obeys_from_spec() -> bool { true }
    open spec fn from_spec(e: UuidError) -> ContractError { ContractError::UuidError(e) }
}
impl From<UuidError> for ContractError { fn from(e: UuidError) -> (r: ContractError) { ContractError::UuidError(e) } }
} // mod flat
