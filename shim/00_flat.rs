pub mod flat {
use vstd::prelude::*;
use vstd::std_specs::cmp::*;
use vstd::std_specs::ops::*;
use vstd::std_specs::convert::*;
use core::cmp::Ordering;
use crate::error::ContractError;

pub trait UnwrapAbort<T>: Sized {
    spec fn ua_val(self) -> Option<T>;
    fn unwrap_abort(self) -> (r: T) ensures self.ua_val() == Some(r);
}
impl<T> UnwrapAbort<T> for Option<T> {
    open spec fn ua_val(self) -> Option<T> { self }
    #[verifier::external_body] fn unwrap_abort(self) -> (r: T) { self.unwrap() }
}
impl<T, E> UnwrapAbort<T> for Result<T, E> {
    open spec fn ua_val(self) -> Option<T> { match self { Ok(t) => Some(t), Err(_) => None } }
    #[verifier::external_body] fn unwrap_abort(self) -> (r: T) { match self { Ok(t) => t, Err(_) => panic!() } }
}
#[verifier::external_body] pub fn fmt_opaque() -> String { unimplemented!() }
pub assume_specification [ u128::pow ] (a: u128, b: u32) -> u128;
pub assume_specification<T: Clone> [ <T as ToOwned>::to_owned ] (s: &T) -> (r: T);
pub assume_specification [ String::as_bytes ] (s: &String) -> (r: &[u8]);
pub assume_specification<T: PartialEq> [ <[T]>::contains ] (s: &[T], x: &T) -> (r: bool);

// ---------- Uint128 ----------
#[derive(Clone, Copy, Debug)]
pub struct Uint128 { pub v: u128 }
impl PartialEq for Uint128 { fn eq(&self, other: &Uint128) -> (r: bool) { self.v == other.v } }
impl PartialOrd for Uint128 {
    #[verifier::external_body] fn partial_cmp(&self, other: &Uint128) -> (r: Option<Ordering>) { unimplemented!() }
}
impl core::ops::Sub for Uint128 { type Output = Uint128; #[verifier::external_body] fn sub(self, rhs: Uint128) -> (r: Uint128) { unimplemented!() } }
impl core::ops::Add for Uint128 { type Output = Uint128; #[verifier::external_body] fn add(self, rhs: Uint128) -> (r: Uint128) { unimplemented!() } }
impl core::ops::SubAssign for Uint128 { #[verifier::external_body] fn sub_assign(&mut self, rhs: Uint128) { unimplemented!() } }
impl Uint128 {
    pub fn u128(&self) -> (r: u128) { self.v }
    pub fn is_zero(&self) -> (r: bool) { self.v == 0 }
    pub fn new(v: u128) -> (r: Uint128) { Uint128 { v } }
    pub fn zero() -> (r: Uint128) { Uint128 { v: 0 } }
    #[verifier::external_body] pub fn checked_sub(self, o: Uint128) -> (r: Result<Uint128, OverflowError>) { unimplemented!() }
    #[verifier::external_body] pub fn checked_add(self, o: Uint128) -> (r: Result<Uint128, OverflowError>) { unimplemented!() }
    #[verifier::external_body] pub fn to_string(&self) -> (r: String) { unimplemented!() }
}
impl From<Uint128> for u128 { #[verifier::external_body] fn from(x: Uint128) -> (r: u128) { x.v } }
impl From<u128> for Uint128 { #[verifier::external_body] fn from(x: u128) -> (r: Uint128) { Uint128 { v: x } } }
#[derive(Debug)] pub struct OverflowError {}
#[derive(Debug)] pub enum StdError { GenericErr { msg: String }, Overflow { source: OverflowError }, NotFound { kind: String } }
impl StdError { #[verifier::external_body] pub fn generic_err(m: &str) -> StdError { unimplemented!() } }
pub type StdResult<T> = Result<T, StdError>;
#[derive(Debug)] pub struct SemverError {}
#[derive(Debug)] pub struct UuidError {}
#[derive(Debug)] pub struct Error {}
pub struct BlockInfo { pub height: u64, pub time: Timestamp }
pub fn entry_point() {}
pub trait FromPrimitive {} pub trait FromStr {} pub trait ToPrimitive {} pub trait Zero {}
#[derive(Clone, Debug, PartialEq, Default)] pub struct Timestamp { pub n: u64 }

// ---------- Decimal ----------
#[derive(Clone, Copy)]
pub struct Decimal { pub q: Ghost<int> }
pub enum RoundingStrategy { MidpointAwayFromZero, MidpointNearestEven, MidpointTowardZero, ToZero, AwayFromZero }
pub struct DecErr {}
impl Decimal {
    #[verifier::external_body] pub fn from_str(s: &str) -> (r: Result<Decimal, DecErr>) { unimplemented!() }
    #[verifier::external_body] pub fn checked_mul(self, o: Decimal) -> (r: Option<Decimal>) { unimplemented!() }
    #[verifier::external_body] pub fn checked_sub(self, o: Decimal) -> (r: Option<Decimal>) { unimplemented!() }
    #[verifier::external_body] pub fn checked_div(self, o: Decimal) -> (r: Option<Decimal>) { unimplemented!() }
    #[verifier::external_body] pub fn fract(&self) -> (r: Decimal) { unimplemented!() }
    #[verifier::external_body] pub fn zero() -> (r: Decimal) { unimplemented!() }
    #[verifier::external_body] pub fn is_zero(&self) -> (r: bool) { unimplemented!() }
    #[verifier::external_body] pub fn is_sign_negative(&self) -> (r: bool) { unimplemented!() }
    #[verifier::external_body] pub fn round_dp_with_strategy(&self, dp: u32, s: RoundingStrategy) -> (r: Decimal) { unimplemented!() }
    #[verifier::external_body] pub fn to_u128(&self) -> (r: Option<u128>) { unimplemented!() }
    #[verifier::external_body] pub fn from_u128(n: u128) -> (r: Option<Decimal>) { unimplemented!() }
    #[verifier::external_body] pub fn to_string(&self) -> (r: String) { unimplemented!() }
    #[verifier::external_body] pub fn cmp(&self, o: &Decimal) -> (r: Ordering) { unimplemented!() }
}
impl PartialEq for Decimal { #[verifier::external_body] fn eq(&self, other: &Decimal) -> (r: bool) { unimplemented!() } }
impl PartialOrd for Decimal { #[verifier::external_body] fn partial_cmp(&self, other: &Decimal) -> (r: Option<Ordering>) { unimplemented!() } }
impl From<u128> for Decimal { #[verifier::external_body] fn from(x: u128) -> (r: Decimal) { unimplemented!() } }
impl From<i32> for Decimal { #[verifier::external_body] fn from(x: i32) -> (r: Decimal) { unimplemented!() } }

// ---------- Addr / Coin ----------
#[derive(Debug)] pub struct Addr { pub s: String }
impl Clone for Addr { fn clone(&self) -> (r: Addr) { Addr { s: self.s.clone() } } }
impl PartialEq for Addr { fn eq(&self, other: &Addr) -> (r: bool) { self.s == other.s } }
impl Addr {
    #[verifier::external_body] pub fn to_string(&self) -> (r: String) { unimplemented!() }
    pub fn into_string(self) -> (r: String) { self.s }
    #[verifier::external_body] pub fn unchecked(s: &str) -> (r: Addr) { unimplemented!() }
}
#[derive(Debug)] pub struct Coin { pub denom: String, pub amount: Uint128 }
impl Clone for Coin { fn clone(&self) -> (r: Coin) { Coin { denom: self.denom.clone(), amount: self.amount } } }
impl PartialEq for Coin { fn eq(&self, other: &Coin) -> (r: bool) { self.denom == other.denom && self.amount == other.amount } }
#[verifier::external_body] pub fn coins<S: Into<String>>(a: u128, d: S) -> Vec<Coin> { unimplemented!() }
#[verifier::external_body] pub fn coin<S: Into<String>>(a: u128, d: S) -> Coin { unimplemented!() }

// ---------- storage ----------
pub struct Storage { pub g: Ghost<int> }
pub struct Map<V> { pub ns: &'static str, pub p: Ghost<Option<V>> }
pub enum Order { Ascending, Descending }
impl<V> Map<V> {
    pub const fn new(ns: &'static str) -> Self { Map { ns, p: Ghost(None) } }
    #[verifier::external_body] pub fn load(&self, store: &Storage, k: &[u8]) -> (r: Result<V, StdError>) { unimplemented!() }
    #[verifier::external_body] pub fn may_load(&self, store: &Storage, k: &[u8]) -> (r: Result<Option<V>, StdError>) { unimplemented!() }
    #[verifier::external_body] pub fn save(&self, store: &mut Storage, k: &[u8], v: &V) -> (r: Result<(), StdError>) { unimplemented!() }
    #[verifier::external_body] pub fn remove(&self, store: &mut Storage, k: &[u8]) { unimplemented!() }
    #[verifier::external_body] pub fn is_empty(&self, store: &Storage) -> bool { unimplemented!() }
    #[verifier::external_body] pub fn keys_that_load(&self, store: &Storage) -> Vec<Vec<u8>> { unimplemented!() }
    #[verifier::external_body] pub fn update<A: FnOnce(Option<V>) -> Result<V, E>, E: From<StdError>>(&self, store: &mut Storage, k: &[u8], action: A) -> (r: Result<V, E>) { unimplemented!() }
}
pub struct Item<V> { pub ns: &'static str, pub p: Ghost<Option<V>> }
impl<V> Item<V> {
    pub const fn new(ns: &'static str) -> Self { Item { ns, p: Ghost(None) } }
    #[verifier::external_body] pub fn load(&self, store: &Storage) -> (r: Result<V, StdError>) { unimplemented!() }
    #[verifier::external_body] pub fn save(&self, store: &mut Storage, v: &V) -> (r: Result<(), StdError>) { unimplemented!() }
}
pub struct Api {}
impl Api { #[verifier::external_body] pub fn addr_validate(&self, s: &str) -> (r: Result<Addr, StdError>) { unimplemented!() } }
pub struct QuerierWrapper {}
pub struct DepsMut<'a> { pub storage: &'a mut Storage, pub api: &'a Api, pub querier: QuerierWrapper }
impl<'a> DepsMut<'a> {
    #[verifier::external_body] pub fn branch(&mut self) -> (r: DepsMut<'_>) { unimplemented!() }
}
pub struct Deps<'a> { pub storage: &'a Storage, pub api: &'a Api, pub querier: QuerierWrapper }
pub struct ContractInfoEnv { pub address: Addr }
pub struct Env { pub contract: ContractInfoEnv }
pub struct MessageInfo { pub sender: Addr, pub funds: Vec<Coin> }
pub struct Binary {}
#[verifier::external_body] pub fn to_binary<T>(t: &T) -> StdResult<Binary> { unimplemented!() }
#[verifier::external_body] pub fn json_to_string<T>(t: &T) -> Result<String, Error> { unimplemented!() }

// ---------- response ----------
pub struct Attribute { pub key: String, pub value: String }
pub struct Response { pub msgs: Ghost<int> }
pub trait IntoStr { fn into_str(self) -> String; }
impl IntoStr for &str { #[verifier::external_body] fn into_str(self) -> String { unimplemented!() } }
impl IntoStr for String { fn into_str(self) -> String { self } }
impl IntoStr for &String { fn into_str(self) -> String { self.clone() } }
impl IntoStr for Uint128 { #[verifier::external_body] fn into_str(self) -> String { unimplemented!() } }
pub fn attr<K: IntoStr, V: IntoStr>(k: K, v: V) -> Attribute { Attribute { key: k.into_str(), value: v.into_str() } }
pub trait IntoMsg {}
impl IntoMsg for MsgTransferRequest {}
impl IntoMsg for BankMsg {}
impl Response {
    #[verifier::external_body] pub fn new() -> (r: Response) { unimplemented!() }
    #[verifier::external_body] pub fn add_attributes(self, a: Vec<Attribute>) -> (r: Response) { unimplemented!() }
    #[verifier::external_body] pub fn add_attribute<K: IntoStr, V: IntoStr>(self, k: K, v: V) -> (r: Response) { unimplemented!() }
    #[verifier::external_body] pub fn add_message<M: IntoMsg>(self, m: M) -> Response { unimplemented!() }
}
pub enum BankMsg { Send { to_address: String, amount: Vec<Coin> } }
pub struct PCoin { pub denom: String, pub amount: String }
pub struct MsgTransferRequest { pub amount: Option<PCoin>, pub administrator: String, pub from_address: String, pub to_address: String }

// ---------- provwasm queriers ----------
pub struct Empty {}
pub struct Any {}
pub struct MarkerAccount { pub marker_type: i32, pub denom: String }
pub struct QueryMarkerResponse { pub marker: Option<Any> }
pub struct MarkerQuerier<'a, Q> { pub q: &'a QuerierWrapper, pub p: Ghost<Q> }
impl<'a, Q> MarkerQuerier<'a, Q> {
    #[verifier::external_body] pub fn new(q: &'a QuerierWrapper) -> Self { unimplemented!() }
    #[verifier::external_body] pub fn marker(&self, id: String) -> StdResult<QueryMarkerResponse> { unimplemented!() }
}
pub struct TryErr {}
impl TryFrom<Any> for MarkerAccount { type Error = TryErr; #[verifier::external_body] fn try_from(a: Any) -> Result<MarkerAccount, TryErr> { unimplemented!() } }
pub struct ProvAttribute { pub name: String }
pub struct QueryAttributesResponse { pub attributes: Vec<ProvAttribute> }
pub struct AttributeQuerier<'a, Q> { pub q: &'a QuerierWrapper, pub p: Ghost<Q> }
impl<'a, Q> AttributeQuerier<'a, Q> {
    #[verifier::external_body] pub fn new(q: &'a QuerierWrapper) -> Self { unimplemented!() }
    #[verifier::external_body] pub fn attributes(&self, a: String, p: Option<u8>) -> StdResult<QueryAttributesResponse> { unimplemented!() }
}
// ---------- uuid / semver / hashset ----------
pub struct Uuid {}
pub struct Hyph {}
impl Uuid { #[verifier::external_body] pub fn parse_str(s: &str) -> Result<Uuid, UuidError> { unimplemented!() }
  #[verifier::external_body] pub fn hyphenated(self) -> Hyph { unimplemented!() } }
impl Hyph { #[verifier::external_body] pub fn to_string(&self) -> String { unimplemented!() } }
pub struct Version {}
pub struct VersionReq {}
impl Version { #[verifier::external_body] pub fn parse(s: &str) -> Result<Version, SemverError> { unimplemented!() }
  #[verifier::external_body] pub fn to_string(&self) -> String { unimplemented!() } }
impl VersionReq { #[verifier::external_body] pub fn parse(s: &str) -> Result<VersionReq, SemverError> { unimplemented!() }
  #[verifier::external_body] pub fn matches(&self, v: &Version) -> bool { unimplemented!() } }
pub struct HashSet<T> { pub g: Ghost<Set<T>> }
impl<T> HashSet<T> {
    #[verifier::external_body] pub fn contains(&self, x: &T) -> bool { unimplemented!() }
    #[verifier::external_body] pub fn is_subset(&self, o: &HashSet<T>) -> bool { unimplemented!() }
}
#[verifier::external_body] pub fn collect_strings(v: Vec<&str>) -> Vec<String> { unimplemented!() }
#[verifier::external_body] pub fn attr_names(v: Vec<ProvAttribute>) -> HashSet<String> { unimplemented!() }
#[verifier::external_body] pub fn addr_string_set(v: Vec<Addr>) -> HashSet<String> { unimplemented!() }
#[verifier::external_body] pub fn string_set(v: Vec<String>) -> HashSet<String> { unimplemented!() }
#[verifier::external_body] pub fn any_missing(req: &Vec<String>, names: &HashSet<String>) -> bool { unimplemented!() }
// thiserror #[from] conversions
impl From<StdError> for ContractError { #[verifier::external_body] fn from(e: StdError) -> (r: ContractError) { ContractError::Std(e) } }
impl From<OverflowError> for ContractError { #[verifier::external_body] fn from(e: OverflowError) -> (r: ContractError) { ContractError::OverflowError(e) } }
impl From<Error> for ContractError { #[verifier::external_body] fn from(e: Error) -> (r: ContractError) { ContractError::JsonSerde(e) } }
impl From<SemverError> for ContractError { #[verifier::external_body] fn from(e: SemverError) -> (r: ContractError) { ContractError::SemverError(e) } }
impl From<UuidError> for ContractError { #[verifier::external_body] fn from(e: UuidError) -> (r: ContractError) { ContractError::UuidError(e) } }
} // mod flat
