use vstd::prelude::*;
verus! {
pub struct Ask { pub size: u64, pub ready: bool }
pub struct Storage { pub asks: Ghost<Map<int, Ask>> }
pub enum CE { Bad, Ready, Mismatch }
pub struct AskMap {}
impl AskMap {
    #[verifier::external_body]
    pub fn update<A: FnOnce(Option<Ask>) -> Result<Ask, CE>>(&self, store: &mut Storage, k: u64, action: A) -> (r: Result<Ask, CE>)
        requires action.requires((if old(store).asks@.dom().contains(k as int) { Some(old(store).asks@[k as int]) } else { None },))
        ensures 
            action.ensures((if old(store).asks@.dom().contains(k as int) { Some(old(store).asks@[k as int]) } else { None },), r),
            match r { Ok(a) => final(store).asks@ == old(store).asks@.insert(k as int, a), Err(_) => final(store).asks@ == old(store).asks@ },
    { unimplemented!() }
}
fn approve(store: &mut Storage, k: u64, size: u64) -> (r: Result<Ask, CE>)
    ensures r is Ok ==> old(store).asks@.dom().contains(k as int) && !old(store).asks@[k as int].ready && old(store).asks@[k as int].size == size
            && final(store).asks@ == old(store).asks@.insert(k as int, Ask { size, ready: true })
{
    let m = AskMap {};
    let updated = m.update(store, k, |stored: Option<Ask>| -> (r: Result<Ask, CE>)
        ensures r is Ok ==> stored is Some && !stored->0.ready && stored->0.size == size && r->Ok_0 == (Ask { size, ready: true })
        {
        match stored {
            None => Err(CE::Bad),
            Some(mut s) => {
                if s.ready { return Err(CE::Ready) }
                if size != s.size { return Err(CE::Mismatch); }
                s.ready = true;
                Ok(s)
            }
        }
    })?;
    Ok(updated)
}
}
fn main() {}
