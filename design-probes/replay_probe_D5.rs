use ats_smart_contract::contract::{execute, instantiate};
use ats_smart_contract::msg::{ExecuteMsg, InstantiateMsg};
use cosmwasm_std::testing::{mock_env, mock_info};
use cosmwasm_std::{coins, Uint128};
use provwasm_mocks::mock_provenance_dependencies;
fn main() {
    let mut deps = mock_provenance_dependencies();
    instantiate(deps.as_mut(), mock_env(), mock_info("admin", &[]), InstantiateMsg {
        name: "n".into(), base_denom: "base".into(), convertible_base_denoms: vec![], supported_quote_denoms: vec!["usd".into()],
        approvers: vec!["approver".into()], executors: vec!["exec".into()], ask_fee_rate: Some("0.5".into()), ask_fee_account: Some("askfee".into()), bid_fee_rate: None, bid_fee_account: None,
        ask_required_attributes: vec![], bid_required_attributes: vec![], price_precision: Uint128::new(0), size_increment: Uint128::new(1) }).unwrap();
    let aid = "ab5f5a62-f6fc-46d1-aa84-51ccc51ec367".to_string();
    let bid = "c13f8888-ca43-4a64-ab1b-1ca8d60aa49b".to_string();
    execute(deps.as_mut(), mock_env(), mock_info("seller", &coins(1, "base")), ExecuteMsg::CreateAsk { id: aid.clone(), base: "base".into(), quote: "usd".into(), price: "1".into(), size: Uint128::new(1) }).unwrap();
    execute(deps.as_mut(), mock_env(), mock_info("buyer", &coins(1, "usd")), ExecuteMsg::CreateBid { id: bid.clone(), base: "base".into(), fee: None, price: "1".into(), quote: "usd".into(), quote_size: Uint128::new(1), size: Uint128::new(1) }).unwrap();
    let r = execute(deps.as_mut(), mock_env(), mock_info("exec", &[]), ExecuteMsg::ExecuteMatch { ask_id: aid.clone(), bid_id: bid.clone(), price: "1".into(), size: Uint128::new(1) }).unwrap();
    for m in &r.messages { println!("D5 msg: {:?}", m.msg); }
}
