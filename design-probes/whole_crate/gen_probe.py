import re, sys
ROOT='/repo/src/'
files=['error.rs','common.rs','version_info.rs','contract_info.rs','ask_order.rs','bid_order.rs','util.rs','msg.rs','execute/modify_contract.rs','contract.rs']
def strip_tests(s):
    i=s.find('#[cfg(test)]')
    return s if i<0 else s[:i]
def strip_use(s):
    out=[];skip=False
    for l in s.split('\n'):
        if skip:
            if l.rstrip().endswith(';'): skip=False
            continue
        m=re.match(r'(\s*(?:pub )?use )(\w+)(::.*)',l)
        if m and m.group(2) in ('thiserror','schemars','serde'):
            if not l.rstrip().endswith(';'): skip=True
            continue
        if m and m.group(2) in ('cosmwasm_std','provwasm_std','rust_decimal','cw_storage_plus','semver','uuid','serde_json'):
            pass
        if m and m.group(2)=='std' and 'collections::HashSet' in l:
            l=l.replace('std::collections::HashSet','crate::shim::std_collections::HashSet')
        out.append(l)
    return '\n'.join(out)
def strip_attrs(s):
    # remove outer attributes we drop (possibly multi-line)
    s=re.sub(r'#\[(derive|serde|error|deprecated|allow|entry_point|must_use)\b[^\]]*\]\s*','',s,flags=re.S)
    s=s.replace('#[from] ','')
    return s
def strip_doc(s):
    return '\n'.join(l for l in s.split('\n') if not l.lstrip().startswith('///'))
body=[]
for f in files:
    s=open(ROOT+f).read()
    s=strip_doc(strip_attrs(strip_use(strip_tests(s))))
    mod=f[:-3]
    if '/' in mod:
        a,b=mod.split('/')
        body.append(f'pub mod {a} {{ pub mod {b} {{\nuse crate::shim::{{cosmwasm_std, provwasm_std, rust_decimal, cw_storage_plus, semver, uuid, serde_json}};\nuse crate::shim::flat::{{UnwrapAbort, fmt_opaque, collect_strings, attr_names, addr_string_set, string_set, any_missing}};\n'+s+'\n} }')
    else:
        body.append(f'pub mod {mod} {{\nuse crate::shim::{{cosmwasm_std, provwasm_std, rust_decimal, cw_storage_plus, semver, uuid, serde_json}};\nuse crate::shim::flat::{{UnwrapAbort, fmt_opaque, collect_strings, attr_names, addr_string_set, string_set, any_missing}};\n'+s+'\n}')
code='\n'.join(body)
# rewrites
code=code.replace('|_|','|_e|')
code=code.replace('.unwrap()','.unwrap_abort()')
code=re.sub(r'\.map_err\(ContractError::(\w+)\)',r'.map_err(|e| ContractError::\1(e))',code)
pass
code=code.replace('invalid_fields.into_iter().map(|item| item.into()).collect()','collect_strings(invalid_fields)')
code=code.replace('attributes.into_iter().map(|item| item.name).collect()','attr_names(attributes)')
code=re.sub(r'contract_info\s*\.(ask|bid)_required_attributes\s*\.iter\(\)\s*\.any\(\|item\| !attributes_names\.contains\(item\)\)',r'any_missing(&contract_info.\1_required_attributes, &attributes_names)',code)
code=re.sub(r'contract_info\s*\.approvers\s*\.into_iter\(\)\s*\.map\(\|item\| item\.into_string\(\)\)\s*\.collect\(\)','addr_string_set(contract_info.approvers)',code)
code=code.replace('approvers.clone().into_iter().collect()','string_set(approvers.clone())')
code=re.sub(r'BIDS_V2\s*\.range\(store, None, None, Order::Ascending\)\s*\.filter_map\(\|kv_bid\| kv_bid\.ok\(\)\.map\(\|record\| record\.0\)\)\s*\.collect\(\)','BIDS_V2.keys_that_load(store)',code)
# R4 iter-map-sum
def r4(m):
    return '{ let mut acc = Uint128::zero(); for event in self.events.iter() { acc = acc + ('+m.group(1)+'); } acc }'
code=re.sub(r'self\.events\s*\.iter\(\)\s*\.map\(\|event\| (match &event\.action \{.*?\n            \})\)\s*\.sum::<Uint128>\(\)',r4,code,flags=re.S)
# type params on Map/Item consts
code=re.sub(r'Map<&\[u8\], (\w+)>',r'Map<\1>',code)
# dyn Storage
code=code.replace('&mut dyn Storage','&mut Storage').replace('&dyn Storage','&Storage')
# ToString impl for ContractAction & From<ContractError> for StdError: drop bodies
code=re.sub(r'impl ToString for ContractAction \{.*?\n\}\n','impl ContractAction { #[verifier::external_body] pub fn to_string(&self) -> String { unimplemented!() } }\n',code,flags=re.S)
code=re.sub(r'impl From<ContractError> for StdError \{.*?\n\}\n','impl From<ContractError> for StdError { #[verifier::external_body] fn from(error: ContractError) -> StdError { unimplemented!() } }\n',code,flags=re.S)
code=re.sub(r'pub mod \w+;\n','',code)
code=re.sub(r'((?:pub )?)const (\w+: (?:Map|Item)<)',r'\1exec const \2',code)
code=re.sub(r'((?:pub )?const \w+: )&str',r"\1&'static str",code)
code=code.replace('env!("CARGO_CRATE_NAME")','"ats_smart_contract"').replace('env!("CARGO_PKG_VERSION")','"1.0.0"')
# repo types need Clone/PartialEq/Debug: add derives on struct/enum decls
code=re.sub(r'\n(pub (?:struct|enum) (?!ContractError)\w+)',r'\n#[derive(Clone, PartialEq, Debug)]\n\1',code)
code=code.replace('pub enum ContractError','#[derive(Debug)]\npub enum ContractError')
head='''#![allow(unused_imports, dead_code, unused_variables, unused_mut, deprecated)]
use vstd::prelude::*;
use core::cmp::Ordering;
macro_rules! format { ($($t:tt)*) => { fmt_opaque() } }
verus! {
'''
shim='pub mod flat {\nuse super::super::*;\nuse core::cmp::Ordering;\nuse crate::error::ContractError;\n'+open(__import__('os').path.dirname(__import__('os').path.abspath(__file__))+'/shim_flat.rs').read()+'\n}\n'+open(__import__('os').path.dirname(__import__('os').path.abspath(__file__))+'/shim_paths.rs').read()
open(__import__('sys').argv[1] if len(__import__('sys').argv)>1 else '/tmp/ats_full_probe.rs','w').write(head+'pub mod shim {\n'+shim+'\n}\n'+code+'\n}\nfn main() {}\n')
print(len(code.split('\n')),'lines of repo code')
