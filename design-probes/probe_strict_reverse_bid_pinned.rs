#![allow(unused_imports, dead_code, unused_variables, unused_mut)]
use vstd::prelude::*;
macro_rules! format { ($($t:tt)*) => { fmt_opaque() } }
use vstd::std_specs::cmp::*;
use vstd::std_specs::ops::*;
use vstd::std_specs::convert::*;
use core::cmp::Ordering;
verus! {

pub assume_specification<T: Clone> [ <T as ToOwned>::to_owned ] (s: &T) -> (r: T)
    ensures cloned(*s, r);
pub assume_specification [ String::as_bytes ] (s: &String) -> (r: &[u8])
    ensures r@ == str_bytes(s@);
pub assume_specification<T: PartialEq> [ <[T]>::contains ] (s: &[T], x: &T) -> (r: bool)
    ensures T::obeys_eq_spec() ==> r == (exists|i: int| 0 <= i < s@.len() && #[trigger] s@[i].eq_spec(x));
pub uninterp spec fn str_bytes(s: Seq<char>) -> Seq<u8>;

// ---------- Uint128 ----------
#[derive(Clone, Copy, Debug)]
pub struct Uint128 { pub v: u128 }
impl PartialEqSpecImpl for Uint128 {
    open spec fn obeys_eq_spec() -> bool { true }
    open spec fn eq_spec(&self, other: &Uint128) -> bool { self.v == other.v }
}
impl PartialEq for Uint128 { fn eq(&self, other: &Uint128) -> (r: bool) { self.v == other.v } }
impl PartialOrdSpecImpl for Uint128 {
    open spec fn obeys_partial_cmp_spec() -> bool { true }
    open spec fn partial_cmp_spec(&self, other: &Uint128) -> Option<Ordering> {
        if self.v < other.v { Some(Ordering::Less) } else if self.v == other.v { Some(Ordering::Equal) } else { Some(Ordering::Greater) }
    }
}
impl PartialOrd for Uint128 {
    fn partial_cmp(&self, other: &Uint128) -> (r: Option<Ordering>) {
        if self.v < other.v { Some(Ordering::Less) } else if self.v == other.v { Some(Ordering::Equal) } else { Some(Ordering::Greater) }
    }
}
impl SubSpecImpl<Uint128> for Uint128 {
    open spec fn obeys_sub_spec() -> bool { false }
    open spec fn sub_req(self, rhs: Uint128) -> bool { strict() ==> self.v >= rhs.v }
    open spec fn sub_spec(self, rhs: Uint128) -> Uint128 { arbitrary() }
}
impl core::ops::Sub for Uint128 {
    type Output = Uint128;
    #[verifier::external_body]
    fn sub(self, rhs: Uint128) -> (r: Uint128) ensures self.v >= rhs.v, r.v == self.v - rhs.v { unimplemented!() }
}
impl SubAssignSpecImpl<Uint128> for Uint128 {
    open spec fn obeys_sub_assign_spec() -> bool { false }
    open spec fn sub_assign_req(&self, rhs: Uint128) -> bool { true }
    open spec fn sub_assign_spec(&self, rhs: Uint128) -> Uint128 { arbitrary() }
}
impl core::ops::SubAssign for Uint128 {
    #[verifier::external_body]
    fn sub_assign(&mut self, rhs: Uint128) ensures old(self).v >= rhs.v, final(self).v == old(self).v - rhs.v { unimplemented!() }
}
impl Uint128 {
    pub fn u128(&self) -> (r: u128) ensures r == self.v { self.v }
    pub fn is_zero(&self) -> (r: bool) ensures r == (self.v == 0) { self.v == 0 }
    pub fn new(v: u128) -> (r: Uint128) ensures r.v == v { Uint128 { v } }
    pub fn zero() -> (r: Uint128) ensures r.v == 0 { Uint128 { v: 0 } }
    #[verifier::external_body]
    pub fn checked_sub(self, o: Uint128) -> (r: Result<Uint128, OverflowError>)
        ensures self.v >= o.v ==> r == Ok::<Uint128,OverflowError>(Uint128{v: (self.v - o.v) as u128}), self.v < o.v ==> r is Err
    { unimplemented!() }
    #[verifier::external_body]
    pub fn checked_add(self, o: Uint128) -> (r: Result<Uint128, OverflowError>)
        ensures self.v + o.v <= u128::MAX ==> r == Ok::<Uint128,OverflowError>(Uint128{v: (self.v + o.v) as u128}), self.v + o.v > u128::MAX ==> r is Err
    { unimplemented!() }
    #[verifier::external_body]
    pub fn to_string(&self) -> (r: String) { unimplemented!() }
}
impl FromSpecImpl<Uint128> for u128 {
    open spec fn obeys_from_spec() -> bool { true }
    open spec fn from_spec(x: Uint128) -> u128 { x.v }
}
impl FromSpecImpl<u128> for Uint128 {
    open spec fn obeys_from_spec() -> bool { true }
    open spec fn from_spec(x: u128) -> Uint128 { Uint128 { v: x } }
}
impl From<u128> for Uint128 { fn from(x: u128) -> (r: Uint128) { Uint128 { v: x } } }
impl From<Uint128> for u128 { fn from(x: Uint128) -> (r: u128) { x.v } }
pub struct OverflowError {}
pub enum StdError { Generic, Overflow { source: OverflowError } }
pub type StdResult<T> = Result<T, StdError>;

// ---------- Decimal ----------
pub open spec fn strict() -> bool { true }
pub open spec fn D() -> int { 10000000000000000000000000000 }
pub closed spec fn of_int(n: int) -> int { n * D() }
pub closed spec fn dmul(a: int, b: int) -> int { a * b / D() }
pub closed spec fn pmul(p: int, n: int) -> int { p * n }
pub closed spec fn is_whole(q: int) -> bool { q % D() == 0 }
pub closed spec fn whole(q: int) -> int { q / D() }
pub closed spec fn dsub(a: int, b: int) -> int { a - b }
pub uninterp spec fn ddiv(a: int, b: int) -> int;
pub closed spec fn round_half_away(x: int) -> int { if x >= 0 { (2 * x + D()) / (2 * D()) } else { -((2 * (-x) + D()) / (2 * D())) } }
pub open spec fn fits(q: int) -> bool { -79228162514264337593543950335 * D() <= q <= 79228162514264337593543950335 * D() }
pub uninterp spec fn parse_dec(s: Seq<char>) -> Option<int>;

pub broadcast proof fn lemma_dmul_of_int(a: int, n: int)
    ensures #[trigger] dmul(a, of_int(n)) == pmul(a, n)
{
    assert(a * (n * D()) / D() == a * n) by(nonlinear_arith) requires D() == 10000000000000000000000000000;
}
pub broadcast proof fn lemma_dmul_whole(a: int, b: int)
    requires is_whole(b)
    ensures #[trigger] dmul(a, b) == pmul(a, whole(b))
{
    assert(a * b / D() == a * (b / D())) by(nonlinear_arith) requires b % D() == 0, D() == 10000000000000000000000000000;
}
pub broadcast proof fn lemma_whole_of_int(n: int)
    ensures #[trigger] whole(of_int(n)) == n, is_whole(of_int(n))
{
    assert((n * D()) / D() == n && (n * D()) % D() == 0) by(nonlinear_arith) requires D() == 10000000000000000000000000000;
}
pub broadcast proof fn lemma_of_int_sign(n: int)
    ensures (#[trigger] of_int(n) >= 0) == (n >= 0), (of_int(n) == 0) == (n == 0)
{
    assert((n * D() >= 0) == (n >= 0) && ((n * D() == 0) == (n == 0))) by(nonlinear_arith) requires D() == 10000000000000000000000000000;
}
pub broadcast proof fn lemma_whole_dsub(a: int, b: int)
    requires is_whole(a), is_whole(b)
    ensures #[trigger] whole(dsub(a, b)) == whole(a) - whole(b), is_whole(dsub(a, b)), (dsub(a,b) >= 0) == (a >= b)
{
    assert((a - b) / D() == a / D() - b / D() && (a - b) % D() == 0) by(nonlinear_arith) requires a % D() == 0, b % D() == 0, D() == 10000000000000000000000000000;
}
pub broadcast proof fn lemma_round_sign(x: int)
    ensures x >= 0 ==> #[trigger] round_half_away(x) >= 0
{}
#[verifier::external_body]
pub broadcast proof fn axiom_ddiv_zero(b: int)
    requires b != 0
    ensures #[trigger] ddiv(0, b) == 0
{}
pub broadcast proof fn lemma_dmul_zero_l(b: int)
    ensures #[trigger] dmul(0, b) == 0
{ assert(0 * b / D() == 0) by(nonlinear_arith) requires D() == 10000000000000000000000000000; }
pub broadcast proof fn lemma_dmul_zero_r(b: int)
    ensures #[trigger] dmul(b, 0) == 0
{ assert(b * 0 / D() == 0) by(nonlinear_arith) requires D() == 10000000000000000000000000000; }
pub broadcast proof fn lemma_round_small(x: int)
    requires 0 <= 2 * x < D()
    ensures #[trigger] round_half_away(x) == 0
{ assert((2 * x + D()) / (2 * D()) == 0) by(nonlinear_arith) requires 0 <= 2 * x < D(), D() == 10000000000000000000000000000; }
pub broadcast proof fn lemma_pmul_pos(p: int, n: int)
    requires p > 0, n > 0
    ensures #[trigger] pmul(p, n) > 0
{ assert(p * n > 0) by(nonlinear_arith) requires p > 0, n > 0; }
pub broadcast group dec_lemmas { axiom_ddiv_zero, lemma_dmul_zero_l, lemma_dmul_zero_r, lemma_round_small, lemma_pmul_pos,  lemma_dmul_of_int, lemma_dmul_whole, lemma_whole_of_int, lemma_of_int_sign, lemma_whole_dsub, lemma_round_sign }

#[derive(Clone, Copy)]
pub struct Decimal { pub q: Ghost<int> }
pub enum RoundingStrategy { MidpointAwayFromZero }
pub struct DecErr {}
impl Decimal {
    #[verifier::external_body]
    pub fn from_str(s: &str) -> (r: Result<Decimal, DecErr>)
        ensures match parse_dec(s@) { Some(q) => r is Ok && r->Ok_0.q@ == q, None => r is Err }
    { unimplemented!() }
    #[verifier::external_body]
    pub fn checked_mul(self, o: Decimal) -> (r: Option<Decimal>)
        ensures r is Some ==> r->0.q@ == dmul(self.q@, o.q@), fits(dmul(self.q@, o.q@)) ==> r is Some
    { unimplemented!() }
    #[verifier::external_body]
    pub fn checked_sub(self, o: Decimal) -> (r: Option<Decimal>)
        ensures r is Some ==> r->0.q@ == dsub(self.q@, o.q@)
    { unimplemented!() }
    #[verifier::external_body]
    pub fn checked_div(self, o: Decimal) -> (r: Option<Decimal>)
        ensures r is Some ==> o.q@ != 0 && r->0.q@ == ddiv(self.q@, o.q@), (o.q@ != 0 && fits(ddiv(self.q@, o.q@))) ==> r is Some
    { unimplemented!() }
    #[verifier::external_body]
    pub fn fract(&self) -> (r: Decimal)
        ensures (r.q@ == 0) == is_whole(self.q@)
    { unimplemented!() }
    #[verifier::external_body]
    pub fn zero() -> (r: Decimal) ensures r.q@ == 0 { unimplemented!() }
    #[verifier::external_body]
    pub fn round_dp_with_strategy(&self, dp: u32, s: RoundingStrategy) -> (r: Decimal)
        ensures dp == 0 ==> r.q@ == of_int(round_half_away(self.q@))
    { unimplemented!() }
    #[verifier::external_body]
    pub fn to_u128(&self) -> (r: Option<u128>)
        ensures self.q@ < 0 ==> r is None, self.q@ >= 0 ==> r is Some && r->0 as int == whole(self.q@)
    { unimplemented!() }
    #[verifier::external_body]
    pub fn from_u128(n: u128) -> (r: Option<Decimal>)
        ensures r is Some ==> r->0.q@ == of_int(n as int), (n as int) < 79228162514264337593543950336 ==> r is Some
    { unimplemented!() }
    #[verifier::external_body]
    pub fn to_string(&self) -> (r: String) { unimplemented!() }
    #[verifier::external_body]
    pub fn cmp(&self, o: &Decimal) -> (r: Ordering)
        ensures r == (if self.q@ < o.q@ { Ordering::Less } else if self.q@ == o.q@ { Ordering::Equal } else { Ordering::Greater })
    { unimplemented!() }
}
impl PartialEqSpecImpl for Decimal {
    open spec fn obeys_eq_spec() -> bool { true }
    open spec fn eq_spec(&self, other: &Decimal) -> bool { self.q@ == other.q@ }
}
impl PartialEq for Decimal { #[verifier::external_body] fn eq(&self, other: &Decimal) -> (r: bool) { unimplemented!() } }
impl PartialOrdSpecImpl for Decimal {
    open spec fn obeys_partial_cmp_spec() -> bool { true }
    open spec fn partial_cmp_spec(&self, other: &Decimal) -> Option<Ordering> {
        if self.q@ < other.q@ { Some(Ordering::Less) } else if self.q@ == other.q@ { Some(Ordering::Equal) } else { Some(Ordering::Greater) }
    }
}
impl PartialOrd for Decimal { #[verifier::external_body] fn partial_cmp(&self, other: &Decimal) -> (r: Option<Ordering>) { unimplemented!() } }
impl FromSpecImpl<u128> for Decimal {
    open spec fn obeys_from_spec() -> bool { false }
    open spec fn from_spec(x: u128) -> Decimal { arbitrary() }
}
impl From<u128> for Decimal { #[verifier::external_body] fn from(x: u128) -> (r: Decimal) ensures r.q@ == of_int(x as int) { unimplemented!() } }

pub trait UnwrapAbort<T>: Sized {
    spec fn ua_val(self) -> Option<T>;
    fn unwrap_abort(self) -> (r: T) requires strict() ==> self.ua_val() is Some, ensures self.ua_val() == Some(r);
}
impl<T> UnwrapAbort<T> for Option<T> {
    open spec fn ua_val(self) -> Option<T> { self }
    #[verifier::external_body] fn unwrap_abort(self) -> (r: T) { self.unwrap() }
}
impl<T, E> UnwrapAbort<T> for Result<T, E> {
    open spec fn ua_val(self) -> Option<T> { match self { Ok(t) => Some(t), Err(_) => None } }
    #[verifier::external_body] fn unwrap_abort(self) -> (r: T) { match self { Ok(t) => t, Err(_) => panic!() } }
}
// ---------- Addr / Coin ----------
#[derive(Debug)]
pub struct Addr { pub s: String }
impl Clone for Addr { fn clone(&self) -> (r: Addr) ensures r.s@ == self.s@ { Addr { s: self.s.clone() } } }
impl PartialEqSpecImpl for Addr {
    open spec fn obeys_eq_spec() -> bool { true }
    open spec fn eq_spec(&self, other: &Addr) -> bool { self.s@ == other.s@ }
}
impl PartialEq for Addr { fn eq(&self, other: &Addr) -> (r: bool) { self.s == other.s } }

#[derive(Debug)]
pub struct Coin { pub denom: String, pub amount: Uint128 }
impl Clone for Coin { fn clone(&self) -> (r: Coin) ensures r.denom@ == self.denom@, r.amount == self.amount { Coin { denom: self.denom.clone(), amount: self.amount } } }

// ---------- orders ----------
#[derive(Debug)]
pub enum AskOrderStatus { PendingIssuerApproval, Ready { approver: Addr, converted_base: Coin } }
pub enum AskOrderClass { Basic, Convertible { status: AskOrderStatus } }
pub struct AskOrderV1 { pub id: String, pub owner: Addr, pub class: AskOrderClass, pub base: String, pub quote: String, pub price: String, pub size: Uint128 }
pub struct BidOrderV3 { pub base: Coin, pub accumulated_base: Uint128, pub accumulated_quote: Uint128, pub accumulated_fee: Uint128, pub fee: Option<Coin>, pub id: String, pub owner: Addr, pub price: String, pub quote: Coin }
pub enum Action {
    Fill { base: Coin, fee: Option<Coin>, price: String, quote: Coin },
    Refund { fee: Option<Coin>, quote: Coin },
    Reject { base: Coin, fee: Option<Coin>, quote: Coin },
}
pub struct FeeInfo { pub account: Addr, pub rate: String }

impl Clone for AskOrderStatus { #[verifier::external_body] fn clone(&self) -> (r: Self) ensures r == *self { unimplemented!() } }
impl Clone for AskOrderClass { #[verifier::external_body] fn clone(&self) -> (r: Self) ensures r == *self { unimplemented!() } }

pub enum ContractAction { ExpireAsk, RejectAsk, Execute, CancelBid, ExpireBid, RejectBid }
impl ContractAction { #[verifier::external_body] pub fn to_string(&self) -> (r: String) { unimplemented!() } }
impl PartialEqSpecImpl for ContractAction {
    open spec fn obeys_eq_spec() -> bool { true }
    open spec fn eq_spec(&self, other: &ContractAction) -> bool { *self == *other }
}
impl PartialEq for ContractAction { #[verifier::external_body] fn eq(&self, other: &ContractAction) -> (r: bool) { unimplemented!() } }


pub enum ContractError { Unauthorized, ExpireWithFunds, ExecuteWithFunds, InvalidFields { fields: Vec<String> }, LoadOrderFailed { error: StdError }, Std(StdError),
  UnsupportedQuoteDenom, InvalidExecutePrice, AskBidPriceMismatch, InvalidExecuteSize, TotalOverflow, NonIntegerTotal, BidFeeAccountMissing, AskOrderNotReady { current_status: String }, BidOrderFeeInsufficientFunds, OverflowError(OverflowError) }
impl FromSpecImpl<StdError> for ContractError {
    open spec fn obeys_from_spec() -> bool { true }
    open spec fn from_spec(e: StdError) -> ContractError { ContractError::Std(e) }
}
impl From<StdError> for ContractError { fn from(e: StdError) -> (r: ContractError) { ContractError::Std(e) } }
impl FromSpecImpl<OverflowError> for ContractError {
    open spec fn obeys_from_spec() -> bool { true }
    open spec fn from_spec(e: OverflowError) -> ContractError { ContractError::OverflowError(e) }
}
impl From<OverflowError> for ContractError { fn from(e: OverflowError) -> (r: ContractError) { ContractError::OverflowError(e) } }

pub struct ContractInfoV3 { pub executors: Vec<Addr>, pub size_increment: Uint128, pub ask_fee_info: Option<FeeInfo>, pub bid_fee_info: Option<FeeInfo> }

// ---------- storage ----------
pub struct Storage {
    pub asks: Ghost<Map<Seq<u8>, AskOrderV1>>,
    pub bids: Ghost<Map<Seq<u8>, BidOrderV3>>,
    pub info: Ghost<ContractInfoV3>,
}
pub struct AskMap {}
pub const ASKS_V1: AskMap = AskMap {};
impl AskMap {
    #[verifier::external_body]
    pub fn load(&self, store: &Storage, k: &[u8]) -> (r: Result<AskOrderV1, StdError>)
        ensures store.asks@.dom().contains(k@) ==> r == Ok::<AskOrderV1,StdError>(store.asks@[k@]),
                !store.asks@.dom().contains(k@) ==> r is Err
    { unimplemented!() }
    #[verifier::external_body]
    pub fn remove(&self, store: &mut Storage, k: &[u8])
        ensures final(store).asks@ == old(store).asks@.remove(k@), final(store).info == old(store).info
    { unimplemented!() }
    #[verifier::external_body]
    pub fn update<A: FnOnce(Option<AskOrderV1>) -> Result<AskOrderV1, StdError>>(&self, store: &mut Storage, k: &[u8], action: A) -> (r: Result<AskOrderV1, StdError>)
    { unimplemented!() }
}
pub struct BidMap {}
pub const BIDS_V3: BidMap = BidMap {};
impl BidMap {
    #[verifier::external_body]
    pub fn load(&self, store: &Storage, k: &[u8]) -> (r: Result<BidOrderV3, StdError>)
        ensures store.bids@.dom().contains(k@) ==> r == Ok::<BidOrderV3,StdError>(store.bids@[k@]),
                !store.bids@.dom().contains(k@) ==> r is Err
    { unimplemented!() }
    #[verifier::external_body]
    pub fn remove(&self, store: &mut Storage, k: &[u8])
        ensures final(store).bids@ == old(store).bids@.remove(k@), final(store).asks == old(store).asks, final(store).info == old(store).info
    { unimplemented!() }
    #[verifier::external_body]
    pub fn save(&self, store: &mut Storage, k: &[u8], o: &BidOrderV3) -> (r: Result<(), StdError>)
        ensures r is Ok, final(store).bids@ == old(store).bids@.insert(k@, *o), final(store).asks == old(store).asks, final(store).info == old(store).info
    { unimplemented!() }
    #[verifier::external_body]
    pub fn update<A: FnOnce(Option<BidOrderV3>) -> Result<BidOrderV3, StdError>>(&self, store: &mut Storage, k: &[u8], action: A) -> (r: Result<BidOrderV3, StdError>)
    { unimplemented!() }
}
#[verifier::external_body]
pub fn get_contract_info(store: &Storage) -> (r: Result<ContractInfoV3, ContractError>)
    ensures r is Ok ==> r->Ok_0 == store.info@, r is Ok
{ unimplemented!() }

pub struct Querier {}
pub struct DepsMut<'a> { pub storage: &'a mut Storage, pub querier: Querier }
pub struct ContractInfoEnv { pub address: Addr }
pub struct Env { pub contract: ContractInfoEnv }
pub struct MessageInfo { pub sender: Addr, pub funds: Vec<Coin> }

pub uninterp spec fn restricted(denom: Seq<char>) -> bool;
#[verifier::external_body]
pub fn is_restricted_marker(q: &Querier, denom: String) -> (r: bool) ensures r == restricted(denom@) { unimplemented!() }

// ---------- response ----------
pub enum Msg { Bank { to: Seq<char>, denom: Seq<char>, amount: u128 }, Marker { from: Seq<char>, to: Seq<char>, admin: Seq<char>, denom: Seq<char>, amount: u128 } }
pub struct Attribute { pub k: String, pub v: String }
pub struct Response { pub msgs: Ghost<Seq<Msg>>, pub attrs: Ghost<Seq<(Seq<char>, Seq<char>)>> }
impl Response {
    pub fn new() -> (r: Response) ensures r.msgs@.len() == 0, r.attrs@.len() == 0 { Response { msgs: Ghost(Seq::empty()), attrs: Ghost(Seq::empty()) } }
    #[verifier::external_body]
    pub fn add_attributes(self, a: Vec<Attribute>) -> (r: Response) ensures r.msgs == self.msgs { unimplemented!() }
    #[verifier::external_body]
    pub fn add_attribute<K: IntoStr, V: IntoStr>(self, k: K, v: V) -> (r: Response) ensures r.msgs == self.msgs { unimplemented!() }
}
pub trait IntoStr { fn into_str(self) -> String; }
impl IntoStr for &str { #[verifier::external_body] fn into_str(self) -> String { unimplemented!() } }
impl IntoStr for String { fn into_str(self) -> String { self } }
impl IntoStr for &String { fn into_str(self) -> String { self.clone() } }
impl IntoStr for Uint128 { #[verifier::external_body] fn into_str(self) -> String { unimplemented!() } }
pub fn attr<K: IntoStr, V: IntoStr>(k: K, v: V) -> Attribute { Attribute { k: k.into_str(), v: v.into_str() } }


#[verifier::opaque]
pub open spec fn tr(to: Seq<char>, from: Seq<char>, d: Seq<char>, amt: int, acct: Seq<char>, denom: Seq<char>) -> int {
    if d == denom { (if to == acct { amt } else { 0 }) - (if from == acct { amt } else { 0 }) } else { 0 }
}
pub broadcast proof fn lemma_tr_zero(to: Seq<char>, from: Seq<char>, d: Seq<char>, amt: int, acct: Seq<char>, denom: Seq<char>)
    requires amt == 0
    ensures #[trigger] tr(to, from, d, amt, acct, denom) == 0
{ reveal(tr); }
pub open spec fn contrib(m: Msg, c: Seq<char>, acct: Seq<char>, denom: Seq<char>) -> int {
    match m {
        Msg::Bank { to, denom: d, amount } => tr(to, c, d, amount as int, acct, denom),
        Msg::Marker { from, to, admin, denom: d, amount } => tr(to, from, d, amount as int, acct, denom),
    }
}
pub open spec fn net(msgs: Seq<Msg>, c: Seq<char>, acct: Seq<char>, denom: Seq<char>) -> int
    decreases msgs.len()
{
    if msgs.len() == 0 { 0 } else { net(msgs.drop_last(), c, acct, denom) + contrib(msgs.last(), c, acct, denom) }
}
pub fn add_transfer(response: Response, is_restricted: bool, amount: u128, denom: String, to: Addr, from: Addr, contract_address: Addr) -> (r: Response)
    ensures r.attrs == response.attrs,
        r.msgs@ == response.msgs@.push(if is_restricted { Msg::Marker { from: from.s@, to: to.s@, admin: contract_address.s@, denom: denom@, amount } } else { Msg::Bank { to: to.s@, denom: denom@, amount } }),
        from.s@ == contract_address.s@ ==> forall|acct: Seq<char>, dn: Seq<char>| #[trigger] net(r.msgs@, contract_address.s@, acct, dn) == net(response.msgs@, contract_address.s@, acct, dn) + tr(to.s@, contract_address.s@, denom@, amount as int, acct, dn),
{
    let ghost m = if is_restricted { Msg::Marker { from: from.s@, to: to.s@, admin: contract_address.s@, denom: denom@, amount } } else { Msg::Bank { to: to.s@, denom: denom@, amount } };
    let r = Response { msgs: Ghost(response.msgs@.push(m)), attrs: response.attrs };
    proof { assert(r.msgs@.drop_last() =~= response.msgs@); }
    r
}
pub open spec fn fee_of(rate_q: int, amount: int) -> int { round_half_away(pmul(rate_q, amount)) }
pub open spec fn rem_base(b: BidOrderV3) -> int { b.base.amount.v - b.accumulated_base.v }
pub open spec fn rem_quote(b: BidOrderV3) -> int { b.quote.amount.v - b.accumulated_quote.v }
pub open spec fn rem_fee(b: BidOrderV3) -> int { match b.fee { None => 0, Some(f) => f.amount.v - b.accumulated_fee.v } }
pub open spec fn prorata(fee: int, num: int, den: int) -> int { round_half_away(dmul(ddiv(of_int(num), of_int(den)), of_int(fee))) }
pub open spec fn coin_amt(c: Option<Coin>) -> int { match c { None => 0, Some(c) => c.amount.v as int } }
pub open spec fn pq(s: Seq<char>) -> int { parse_dec(s)->0 }

pub open spec fn bid_wf_full(b: BidOrderV3) -> bool {
    &&& rem_base(b) > 0 && b.accumulated_base.v >= 0
    &&& parse_dec(b.price@) is Some && pq(b.price@) > 0 && fits(pq(b.price@))
    &&& pmul(pq(b.price@), rem_base(b)) == of_int(rem_quote(b))
    &&& rem_quote(b) >= 0 && rem_fee(b) >= 0
    &&& (b.fee is Some ==> b.fee->0.denom@ == b.quote.denom@ && (b.fee->0.amount.v as int) < 79228162514264337593543950336)
    &&& b.quote.amount.v > 0 && (b.quote.amount.v as int) < 79228162514264337593543950336 && (b.base.amount.v as int) < 79228162514264337593543950336
}
// ================= VERBATIM
fn reverse_bid(
    deps: DepsMut,
    env: Env,
    info: MessageInfo,
    id: String,
    action: ContractAction,
    cancel_size: Option<Uint128>,
) -> (r: Result<Response, ContractError>)
    requires
        old(deps.storage).info@.size_increment.v >= 1,
        strict() ==> ({
            let st = *old(deps.storage); let k = str_bytes(id@); let b = st.bids@[k];
            &&& st.bids@.dom().contains(k) && str_bytes(b.id@) == k
            &&& bid_wf_full(b)
            &&& st.info@.size_increment.v >= 1
            &&& id@.len() > 0 && info.funds@.len() == 0 && cancel_size is None
            &&& (action == ContractAction::CancelBid ==> info.sender.s@ == b.owner.s@)
            &&& (action != ContractAction::CancelBid ==> exists|i: int| 0 <= i < st.info@.executors@.len() && #[trigger] vstd::std_specs::cmp::PartialEqSpec::eq_spec(&st.info@.executors@[i], &info.sender))
        }),
    ensures
        strict() ==> ({
            let st = *old(deps.storage); let k = str_bytes(id@); let b = st.bids@[k]; let c = env.contract.address.s@;
            &&& r is Ok
            &&& !final(deps.storage).bids@.dom().contains(k)
            &&& forall|acct: Seq<char>, dn: Seq<char>| #[trigger] net(r->Ok_0.msgs@, c, acct, dn) ==
                    tr(b.owner.s@, c, b.quote.denom@, rem_quote(b), acct, dn) + tr(b.owner.s@, c, b.quote.denom@, rem_fee(b), acct, dn)
        }),
{
    broadcast use dec_lemmas, lemma_tr_zero;

    // return error if id is empty
    if id.is_empty() {
        return Err(ContractError::Unauthorized);
    }

    // return error if funds sent
    if !info.funds.is_empty() {
        return Err(ContractError::ExpireWithFunds);
    }

    let contract_info = get_contract_info(deps.storage)?;

    //load the bid order
    let mut bid_order = BIDS_V3
        .load(deps.storage, id.as_bytes())
        .map_err(|error| ContractError::LoadOrderFailed { error })?;

    if action.eq(&ContractAction::CancelBid) {
        if !info.sender.eq(&bid_order.owner) {
            return Err(ContractError::Unauthorized);
        }
    } else if !contract_info.executors.contains(&info.sender) {
        return Err(ContractError::Unauthorized);
    }

    // determine the effective cancel size
    let effective_cancel_size = match cancel_size {
        None => bid_order.get_remaining_base(),
        Some(cancel_size) => cancel_size,
    };

    // error if cancel size is not multiple of size_increment
    if (effective_cancel_size.u128() % contract_info.size_increment.u128()).ne(&0) {
        return Err(ContractError::InvalidFields {
            fields: vec![String::from("size")],
        });
    }

    // error if cancel size is greater than available base size
    if bid_order.get_remaining_base().lt(&effective_cancel_size) {
        return Err(ContractError::InvalidFields {
            fields: vec![String::from("size")],
        });
    }

    // calculate canceled quote size (price * effective_cancel_size), error if overflows
    let effective_cancel_quote_size = Decimal::from_str(&bid_order.price)
        .unwrap_abort()
        .checked_mul(Decimal::from(effective_cancel_size.u128()))
        .ok_or(ContractError::TotalOverflow)?;

    // error if canceled quote total is not an integer
    if effective_cancel_quote_size.fract().ne(&Decimal::zero()) {
        return Err(ContractError::NonIntegerTotal);
    }

    let effective_cancel_quote_size = Uint128::new(effective_cancel_quote_size.to_u128().unwrap_abort());

    // calculate canceled fee size
    let effective_cancel_fee_size = match &bid_order.fee {
        Some(bid_fee) => {
            let quote_remaining_ratio = bid_order
                .get_quote_ratio(bid_order.get_remaining_quote() - effective_cancel_quote_size);

            // fees required for remaining quote
            let required_remaining_fees = Decimal::from_u128(bid_fee.amount.u128())
                .unwrap_abort()
                .checked_mul(quote_remaining_ratio)
                .ok_or(ContractError::TotalOverflow)?
                .round_dp_with_strategy(0, RoundingStrategy::MidpointAwayFromZero)
                .to_u128()
                .unwrap_abort();

            // available fees - fees required = canceled/returned fees
            let effective_cancel_fee_size = bid_order
                .get_remaining_fee()
                .checked_sub(required_remaining_fees.into())
                .map_err(|_e| ContractError::InvalidFields {
                    fields: vec![String::from("size")],
                })?;

            Some(Coin {
                amount: effective_cancel_fee_size,
                denom: bid_order.quote.denom.to_owned(),
            })
        }
        _ => None,
    };

    // is bid quote a marker
    let is_quote_restricted_marker =
        is_restricted_marker(&deps.querier, bid_order.quote.denom.clone());

    bid_order.update_remaining_amounts(&Action::Reject {
        base: Coin {
            amount: effective_cancel_size,
            denom: bid_order.base.denom.to_owned(),
        },
        fee: effective_cancel_fee_size.to_owned(),
        quote: Coin {
            amount: effective_cancel_quote_size,
            denom: bid_order.quote.denom.to_owned(),
        },
    })?;

    let mut response = Response::new();

    // 'send quote back to owner' message
    response = add_transfer(
        response,
        is_quote_restricted_marker.to_owned(),
        effective_cancel_quote_size.u128(),
        bid_order.quote.denom.to_owned(),
        bid_order.owner.to_owned(),
        env.contract.address.to_owned(),
        env.contract.address.to_owned(),
    );

    response = response.add_attributes(vec![
        attr("action", action.to_string()),
        attr("id", id),
        attr("reverse_size", effective_cancel_size),
    ]);

    // add 'send fee back to owner' message
    if let Some(fee) = effective_cancel_fee_size {
        if fee.amount.gt(&Uint128::zero()) {
            response = add_transfer(
                response,
                is_quote_restricted_marker,
                fee.amount.u128(),
                bid_order.quote.denom.to_owned(),
                bid_order.owner.to_owned(),
                env.contract.address.to_owned(),
                env.contract.address,
            );
        }
    }

    // remove the bid order from storage if remaining size is 0, otherwise, store updated order
    match bid_order.get_remaining_base().is_zero() {
        true => {
            BIDS_V3.remove(deps.storage, bid_order.id.as_bytes());
            response = response.add_attributes(vec![attr("order_open", "false")]);
        }
        false => {
            BIDS_V3.save(deps.storage, bid_order.id.as_bytes(), &bid_order)?;
            response = response.add_attributes(vec![attr("order_open", "true")]);
        }
    }

    Ok(response)
}


impl BidOrderV3 {
    pub fn calculate_fee(&self, gross_proceeds: Uint128) -> (r: Result<Option<Coin>, ContractError>)
        requires !strict(),
        ensures r is Ok ==> (match self.fee {
            None => r->Ok_0 is None,
            Some(f) => {
                let exp = prorata(f.amount.v as int, rem_quote(*self) - gross_proceeds.v, self.quote.amount.v as int);
                &&& rem_quote(*self) >= gross_proceeds.v
                &&& rem_fee(*self) >= exp
                &&& exp >= 0
                &&& coin_amt(r->Ok_0) == rem_fee(*self) - exp
                &&& (r->Ok_0 is Some ==> r->Ok_0->0.denom@ == f.denom@ && r->Ok_0->0.amount.v > 0)
            }
        })
    {
        match &self.fee {
            Some(bid_order_fee) => {
                // calculate expected ratio of quote remaining after this transaction
                let expected_quote_ratio =
                    self.get_quote_ratio(self.get_remaining_quote() - gross_proceeds);

                // calculate expected remaining fee
                let expected_remaining_fee = expected_quote_ratio
                    .checked_mul(Decimal::from(bid_order_fee.amount.u128()))
                    .ok_or(ContractError::TotalOverflow)?
                    .round_dp_with_strategy(0, RoundingStrategy::MidpointAwayFromZero)
                    .to_u128()
                    .ok_or(ContractError::TotalOverflow)?;

                // the bid fee due is the difference between the expected remaining fee and the current remaining fee
                let bid_fee = self
                    .get_remaining_fee()
                    .checked_sub(Uint128::new(expected_remaining_fee))
                    .map_err(|_e| ContractError::BidOrderFeeInsufficientFunds)?;

                let bid_fee = Coin {
                    denom: bid_order_fee.denom.to_owned(),
                    amount: bid_fee,
                };

                if bid_fee.amount.gt(&Uint128::zero()) {
                    Ok(Some(bid_fee))
                } else {
                    Ok(None)
                }
            }
            None => Ok(None),
        }
    }

    /// Returns the remaining amount of base in the order
    pub fn get_remaining_base(&self) -> (r: Uint128)
        requires strict() ==> rem_base(*self) >= 0,
        ensures rem_base(*self) >= 0, r.v == rem_base(*self)
    {
        self.base.amount - self.accumulated_base
    }

    /// Calculates the ratio of an amount to the bid order base amount
    pub fn get_base_ratio(&self, amount: Uint128) -> Decimal
        requires !strict(),
    {
        Decimal::from_u128(amount.u128())
            .unwrap_abort()
            .checked_div(Decimal::from_u128(self.base.amount.u128()).unwrap_abort())
            .unwrap_abort()
    }

    /// Returns the remaining amount of fee in the order
    pub fn get_remaining_fee(&self) -> (r: Uint128)
        requires strict() ==> rem_fee(*self) >= 0,
        ensures rem_fee(*self) >= 0, r.v == rem_fee(*self)
    {
        match &self.fee {
            None => Uint128::zero(),
            Some(fee) => fee.amount - self.accumulated_fee,
        }
    }

    /// Calculates the ratio of an amount to the bid order quote amount
    pub fn get_quote_ratio(&self, amount: Uint128) -> (r: Decimal)
        requires strict() ==> (amount.v as int) < 79228162514264337593543950336 && (self.quote.amount.v as int) < 79228162514264337593543950336 && self.quote.amount.v != 0 && fits(ddiv(of_int(amount.v as int), of_int(self.quote.amount.v as int))),
        ensures self.quote.amount.v != 0, r.q@ == ddiv(of_int(amount.v as int), of_int(self.quote.amount.v as int))
    {
        Decimal::from_u128(amount.u128())
            .unwrap_abort()
            .checked_div(Decimal::from_u128(self.quote.amount.u128()).unwrap_abort())
            .unwrap_abort()
    }

    /// Returns the remaining amount of quote in the order
    pub fn get_remaining_quote(&self) -> (r: Uint128)
        requires strict() ==> rem_quote(*self) >= 0,
        ensures rem_quote(*self) >= 0, r.v == rem_quote(*self)
    {
        self.quote.amount - self.accumulated_quote
    }

    /// Update remaining base, fee, and quote amounts based on the given `Action`.
    pub fn update_remaining_amounts(&mut self, action: &Action) -> (r: Result<(), ContractError>)
        ensures ({
            let (db, df, dq) = match *action {
                Action::Fill { base, fee, price, quote } => (base.amount.v as int, coin_amt(fee), quote.amount.v as int),
                Action::Refund { fee, quote } => (0int, coin_amt(fee), quote.amount.v as int),
                Action::Reject { base, fee, quote } => (base.amount.v as int, coin_amt(fee), quote.amount.v as int),
            };
            (old(self).accumulated_base.v + db <= u128::MAX && old(self).accumulated_fee.v + df <= u128::MAX && old(self).accumulated_quote.v + dq <= u128::MAX) ==> r is Ok
        }),
        r is Ok ==> ({
            let (db, df, dq) = match *action {
                Action::Fill { base, fee, price, quote } => (base.amount.v as int, coin_amt(fee), quote.amount.v as int),
                Action::Refund { fee, quote } => (0int, coin_amt(fee), quote.amount.v as int),
                Action::Reject { base, fee, quote } => (base.amount.v as int, coin_amt(fee), quote.amount.v as int),
            };
            &&& final(self).accumulated_base.v == old(self).accumulated_base.v + db
            &&& final(self).accumulated_fee.v == old(self).accumulated_fee.v + df
            &&& final(self).accumulated_quote.v == old(self).accumulated_quote.v + dq
            &&& final(self).base == old(self).base && final(self).quote == old(self).quote && final(self).fee == old(self).fee
            &&& final(self).id == old(self).id && final(self).owner == old(self).owner && final(self).price == old(self).price
        })
    {
        match action {
            Action::Fill {
                base,
                fee,
                price: _,
                quote,
            } => {
                // Update base:
                self.accumulated_base = self.accumulated_base.checked_add(base.amount)?;
                // Update fee:
                if let Some(fee) = fee {
                    self.accumulated_fee = self.accumulated_fee.checked_add(fee.amount)?;
                }
                // Update quote:
                self.accumulated_quote = self.accumulated_quote.checked_add(quote.amount)?;
            }
            Action::Refund { fee, quote } => {
                // Update fee:
                if let Some(fee) = fee {
                    self.accumulated_fee = self.accumulated_fee.checked_add(fee.amount)?;
                }
                // Update quote:
                self.accumulated_quote = self.accumulated_quote.checked_add(quote.amount)?;
            }
            Action::Reject { base, fee, quote } => {
                // Update base:
                self.accumulated_base = self.accumulated_base.checked_add(base.amount)?;
                // Update fee:
                if let Some(fee) = fee {
                    self.accumulated_fee = self.accumulated_fee.checked_add(fee.amount)?;
                }
                // Update quote:
                self.accumulated_quote = self.accumulated_quote.checked_add(quote.amount)?;
            }
        }
        Ok(())
    }
}

}
fn main() {}
