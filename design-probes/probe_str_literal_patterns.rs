use vstd::prelude::*;
verus! {
pub uninterp spec fn mk_str(s: Seq<char>) -> &'static str;
#[verifier::external_body]
pub broadcast proof fn axiom_str_ext(a: &str)
    ensures mk_str(#[trigger] a@) == a
{}
pub open spec fn is_empty_str(s: Seq<char>) -> bool { s == ""@ }
fn g(a: &str) -> (r: bool)
    ensures r == is_empty_str(a@)
{
    broadcast use axiom_str_ext;
    match a { "" => true, _ => false }
}
fn g3(a: &String, b: &String) -> (r: bool)
    ensures r == (is_empty_str(a@) && is_empty_str(b@))
{
    broadcast use axiom_str_ext;
    match (a.as_str(), b.as_str()) { ("", "") => true, (_, _) => false }
}
proof fn l(s: Seq<char>) ensures is_empty_str(s) == (s.len() == 0) { reveal_strlit(""); assert(s.len() == 0 ==> s =~= ""@); }
}
fn main() {}
