use vstd::prelude::*;
verus! {
pub struct Storage { pub x: u64, pub y: u64 }
pub struct DepsMut<'a> { pub storage: &'a mut Storage, pub api: u8 }
impl<'a> DepsMut<'a> {
    pub fn branch(&mut self) -> (r: DepsMut<'_>)
        ensures *r.storage == *old(self).storage, *final(self).storage == *final(r.storage), final(self).api == old(self).api, r.api == old(self).api, *final(final(self).storage) == *final(old(self).storage)
    {
        DepsMut { storage: self.storage, api: self.api }
    }
}
fn a(deps: DepsMut) ensures final(deps.storage).x == 1, final(deps.storage).y == old(deps.storage).y { deps.storage.x = 1; }
fn b(deps: DepsMut) ensures final(deps.storage).y == 2, final(deps.storage).x == old(deps.storage).x { deps.storage.y = 2; }
fn m(mut deps: DepsMut) ensures final(deps.storage).x == 1, final(deps.storage).y == 2 {
    a(deps.branch());
    b(deps.branch());
}
}
fn main() {}
