use vstd::prelude::*;
macro_rules! format { ($($t:tt)*) => { fmt_opaque() } }
verus! {
#[verifier::external_body] pub fn fmt_opaque() -> String { unimplemented!() }
pub struct Addr { pub s: String }
pub struct StdError {}
pub enum CE { Std(StdError), Other }
pub struct Api {}
pub uninterp spec fn valid_addr(s: Seq<char>) -> bool;
impl Api {
    #[verifier::external_body]
    pub fn addr_validate(&self, s: &str) -> (r: Result<Addr, StdError>)
        ensures valid_addr(s@) ==> r is Ok && r->Ok_0.s@ == s@, !valid_addr(s@) ==> r is Err
    { unimplemented!() }
}
impl vstd::std_specs::convert::FromSpecImpl<StdError> for CE {
    open spec fn obeys_from_spec() -> bool { true }
    open spec fn from_spec(e: StdError) -> CE { CE::Std(e) }
}
impl From<StdError> for CE { fn from(e: StdError) -> (r: CE) { CE::Std(e) } }

fn a(api: &Api, names: Vec<String>) -> (r: Result<Vec<Addr>, CE>)
    ensures r is Ok ==> r->Ok_0@.len() == names@.len()
{
    let mut approvers: Vec<Addr> = Vec::new();
    for approver_str in it: names
        invariant approvers@.len() == it.index@
    {
        let address = api.addr_validate(&approver_str)?;
        approvers.push(address);
    }
    Ok(approvers)
}
fn e(x: Result<u64, StdError>) -> Result<u64, CE> { x.map_err(|e| CE::Std(e)) }
#[derive(Debug)]
pub enum St { A, B }
fn f1(s: St) -> String { format!("{:?}", s) }
}
fn main() {}
