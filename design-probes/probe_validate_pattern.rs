use vstd::prelude::*;
verus! {
pub struct Uint128 { pub v: u128 }
pub enum ContractError { InvalidFields { fields: Vec<String> } }
pub struct M { pub name: String, pub executors: Vec<String>, pub a: Option<String>, pub b: Option<String> }
#[verifier::external_body]
pub fn collect_strings(v: Vec<&str>) -> (r: Vec<String>) { unimplemented!() }
impl M {
    fn validate(&self) -> (r: Result<(), ContractError>)
        ensures r is Ok <==> (self.name@.len() > 0 && self.executors@.len() > 0 && (self.a is Some <==> self.b is Some))
    {
        let mut invalid_fields: Vec<&str> = vec![];

        if self.name.is_empty() {
            invalid_fields.push("name");
        }
        if self.executors.is_empty() {
            invalid_fields.push("executors");
        }
        match (&self.a, &self.b) {
            (Some(_), None) => {
                invalid_fields.push("ask_fee_account");
            }
            (None, Some(_)) => {
                invalid_fields.push("ask_fee_rate");
            }
            (Some(_), Some(_)) => (),
            (None, None) => (),
        }
        match invalid_fields.len() {
            0 => Ok(()),
            _ => Err(ContractError::InvalidFields {
                fields: collect_strings(invalid_fields),
            }),
        }
    }
}
}
fn main() {}
