#![allow(unused_imports, dead_code, unused_variables, unused_mut)]
use vstd::prelude::*;
use vstd::std_specs::convert::*;
use vstd::std_specs::cmp::*;
verus! {
pub trait UnwrapAbort<T>: Sized {
    spec fn ua_val(self) -> Option<T>;
    fn unwrap_abort(self) -> (r: T) ensures self.ua_val() == Some(r);
}
impl<T> UnwrapAbort<T> for Option<T> {
    open spec fn ua_val(self) -> Option<T> { self }
    #[verifier::external_body] fn unwrap_abort(self) -> (r: T) { self.unwrap() }
}
impl<T, E> UnwrapAbort<T> for Result<T, E> {
    open spec fn ua_val(self) -> Option<T> { match self { Ok(t) => Some(t), Err(_) => None } }
    #[verifier::external_body] fn unwrap_abort(self) -> (r: T) { match self { Ok(t) => t, Err(_) => panic!() } }
}
pub struct Uint128 { pub v: u128 }
impl Uint128 { pub fn u128(&self) -> (r: u128) ensures r == self.v { self.v } }
pub struct Addr { pub s: String }
impl Addr { #[verifier::external_body] pub fn to_string(&self) -> (r: String) ensures r@ == self.s@ { unimplemented!() } }
pub struct StdError {}
impl StdError { #[verifier::external_body] pub fn generic_err(m: &str) -> StdError { unimplemented!() } }
pub type StdResult<T> = Result<T, StdError>;
pub struct UuidErr {}
pub enum ContractError { TotalOverflow, UuidError(UuidErr) }
pub struct Empty {}
pub struct QuerierWrapper {}
pub struct Any {}
pub struct MarkerAccount { pub marker_type: i32, pub denom: String }
pub struct QueryMarkerResponse { pub marker: Option<Any> }
pub struct MarkerQuerier<'a, Q> { pub q: &'a QuerierWrapper, pub p: Ghost<Q> }
impl<'a, Q> MarkerQuerier<'a, Q> {
    #[verifier::external_body] pub fn new(q: &'a QuerierWrapper) -> Self { unimplemented!() }
    #[verifier::external_body] pub fn marker(&self, id: String) -> StdResult<QueryMarkerResponse> { unimplemented!() }
}
pub struct TryErr {}
impl TryFrom<Any> for MarkerAccount { type Error = TryErr; #[verifier::external_body] fn try_from(a: Any) -> Result<MarkerAccount, TryErr> { unimplemented!() } }
pub struct Attribute { pub name: String }
pub struct QueryAttributesResponse { pub attributes: Vec<Attribute> }
pub struct AttributeQuerier<'a, Q> { pub q: &'a QuerierWrapper, pub p: Ghost<Q> }
impl<'a, Q> AttributeQuerier<'a, Q> {
    #[verifier::external_body] pub fn attributes(&self, a: String, p: Option<u8>) -> StdResult<QueryAttributesResponse> { unimplemented!() }
}
pub struct Coin { pub denom: String, pub amount: String }
pub struct CwCoin { pub denom: String, pub amount: Uint128 }
pub struct MsgTransferRequest { pub amount: Option<Coin>, pub administrator: String, pub from_address: String, pub to_address: String }
pub enum BankMsg { Send { to_address: String, amount: Vec<CwCoin> } }
pub struct Response {}
pub trait IntoMsg {}
impl IntoMsg for MsgTransferRequest {}
impl IntoMsg for BankMsg {}
impl Response { #[verifier::external_body] pub fn add_message<M: IntoMsg>(self, m: M) -> Response { unimplemented!() } }
#[verifier::external_body] pub fn coins<S: Into<String>>(a: u128, d: S) -> Vec<CwCoin> { unimplemented!() }
#[derive(Clone, Copy)]
pub struct Decimal {}
impl Decimal {
    #[verifier::external_body] pub fn checked_mul(self, o: Decimal) -> Option<Decimal> { unimplemented!() }
    #[verifier::external_body] pub fn fract(&self) -> Decimal { unimplemented!() }
    #[verifier::external_body] pub fn zero() -> Decimal { unimplemented!() }
}
impl PartialEq for Decimal { #[verifier::external_body] fn eq(&self, o: &Decimal) -> bool { unimplemented!() } }
impl From<u128> for Decimal { #[verifier::external_body] fn from(x: u128) -> Decimal { unimplemented!() } }
pub struct Uuid {}
pub struct Hyph {}
impl Uuid { #[verifier::external_body] pub fn parse_str(s: &str) -> Result<Uuid, UuidErr> { unimplemented!() }
  #[verifier::external_body] pub fn hyphenated(self) -> Hyph { unimplemented!() } }
impl Hyph { #[verifier::external_body] pub fn to_string(&self) -> String { unimplemented!() } }
pub assume_specification [ u128::pow ] (a: u128, b: u32) -> u128;
pub assume_specification<T: Clone> [ <T as ToOwned>::to_owned ] (s: &T) -> (r: T);
// ===== VERBATIM util.rs =====

pub fn is_restricted_marker(querier: &QuerierWrapper, denom: String) -> bool {
    matches!(
        get_marker(denom.clone(), &MarkerQuerier::new(&querier)),
        Ok(MarkerAccount {
            marker_type: 2, // 2 is Restricted
            ..
        })
    )
}

fn get_marker(id: String, querier: &MarkerQuerier<Empty>) -> StdResult<MarkerAccount> {
    let response = querier.marker(id)?;
    if let Some(marker) = response.marker {
        return if let Ok(account) = MarkerAccount::try_from(marker) {
            Ok(account)
        } else {
            Err(StdError::generic_err("unable to type-cast marker account"))
        };
    } else {
        Err(StdError::generic_err("no marker found for id"))
    }
}

pub fn get_attributes(
    account: String,
    querier: &AttributeQuerier<Empty>,
) -> StdResult<Vec<Attribute>> {
    return match querier.attributes(account, None) {
        Ok(response) => Ok(response.attributes),
        Err(error) => Err(error),
    };
}

pub fn transfer_marker_coins<S: Into<String>, H: Into<Addr>>(
    amount: u128,
    denom: S,
    to: H,
    from: H,
    contract_address: H,
) -> StdResult<MsgTransferRequest> {
    if amount == 0 {
        return Err(StdError::generic_err("transfer amount must be > 0"));
    }

    let coin = Coin {
        denom: denom.into().to_string(),
        amount: amount.to_string(),
    };

    let request = MsgTransferRequest {
        amount: Some(coin),
        administrator: contract_address.into().to_string(),
        from_address: from.into().to_string(),
        to_address: to.into().to_string(),
    };
    Ok(request)
}

pub fn add_transfer<S: Into<String>, H: Into<Addr>>(
    mut response: Response,
    is_restricted: bool,
    amount: u128,
    denom: S,
    to: H,
    from: H,
    contract_address: H,
) -> Response {
    match is_restricted {
        true => {
            response = response.add_message(
                transfer_marker_coins(amount, denom, to, from, contract_address).unwrap_abort(),
            );
        }
        false => {
            response = response.add_message(BankMsg::Send {
                to_address: to.into().to_string(),
                amount: coins(u128::from(amount), denom),
            });
        }
    }
    response
}

pub fn is_invalid_price_precision(price: Decimal, price_precision: Uint128) -> bool {
    price
        .checked_mul(Decimal::from(10u128.pow(price_precision.u128() as u32)))
        .ok_or(ContractError::TotalOverflow)
        .unwrap_abort()
        .fract()
        .ne(&Decimal::zero())
}

fn to_hyphenated_uuid_str(uuid: String) -> Result<String, ContractError> {
    Ok(Uuid::parse_str(uuid.as_str())
        .map_err(|e| ContractError::UuidError(e))?
        .hyphenated()
        .to_string())
}

pub fn is_hyphenated_uuid_str(uuid: &String) -> bool {
    let hyphenated_uuid_str_result = to_hyphenated_uuid_str(uuid.to_owned());
    if hyphenated_uuid_str_result.is_err() {
        return false;
    }
    if uuid.ne(&hyphenated_uuid_str_result.unwrap_abort()) {
        return false;
    }
    true
}


}
fn main() {}
