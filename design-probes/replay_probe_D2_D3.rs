use ats_smart_contract::contract::{execute, instantiate};
use ats_smart_contract::msg::{ExecuteMsg, InstantiateMsg};
use cosmwasm_std::testing::{mock_env, mock_info};
use cosmwasm_std::{coin, coins, Uint128};
use provwasm_mocks::mock_provenance_dependencies;
fn main() {
    // ---- D3: non-lot remainder locks the bid
    let mut deps = mock_provenance_dependencies();
    instantiate(deps.as_mut(), mock_env(), mock_info("admin", &[]), InstantiateMsg {
        name: "n".into(), base_denom: "base".into(), convertible_base_denoms: vec![], supported_quote_denoms: vec!["usd".into()],
        approvers: vec!["approver".into()], executors: vec!["exec".into()], ask_fee_rate: None, ask_fee_account: None, bid_fee_rate: None, bid_fee_account: None,
        ask_required_attributes: vec![], bid_required_attributes: vec![], price_precision: Uint128::new(0), size_increment: Uint128::new(10) }).unwrap();
    let aid = "ab5f5a62-f6fc-46d1-aa84-51ccc51ec367".to_string();
    let bid = "c13f8888-ca43-4a64-ab1b-1ca8d60aa49b".to_string();
    execute(deps.as_mut(), mock_env(), mock_info("seller", &coins(20, "base")), ExecuteMsg::CreateAsk { id: aid.clone(), base: "base".into(), quote: "usd".into(), price: "2".into(), size: Uint128::new(20) }).unwrap();
    execute(deps.as_mut(), mock_env(), mock_info("buyer", &coins(40, "usd")), ExecuteMsg::CreateBid { id: bid.clone(), base: "base".into(), fee: None, price: "2".into(), quote: "usd".into(), quote_size: Uint128::new(40), size: Uint128::new(20) }).unwrap();
    let r = execute(deps.as_mut(), mock_env(), mock_info("exec", &[]), ExecuteMsg::ExecuteMatch { ask_id: aid.clone(), bid_id: bid.clone(), price: "2".into(), size: Uint128::new(15) });
    println!("D3 match 15/20: ok={}", r.is_ok());
    println!("D3 cancel bid: {:?}", execute(deps.as_mut(), mock_env(), mock_info("buyer", &[]), ExecuteMsg::CancelBid { id: bid.clone() }).map(|x| x.messages.len()));
    println!("D3 expire bid: {:?}", execute(deps.as_mut(), mock_env(), mock_info("exec", &[]), ExecuteMsg::ExpireBid { id: bid.clone() }).map(|x| x.messages.len()));
    println!("D3 expire ask: {:?}", execute(deps.as_mut(), mock_env(), mock_info("exec", &[]), ExecuteMsg::ExpireAsk { id: aid.clone() }).map(|x| x.messages.len()));
    println!("D3 cancel ask: {:?}", execute(deps.as_mut(), mock_env(), mock_info("seller", &[]), ExecuteMsg::CancelAsk { id: aid.clone() }).map(|x| x.messages.len()));

    // ---- D2: price-improved final fill whose pro-rated fee rounds to zero strands the fee
    let mut deps = mock_provenance_dependencies();
    instantiate(deps.as_mut(), mock_env(), mock_info("admin", &[]), InstantiateMsg {
        name: "n".into(), base_denom: "base".into(), convertible_base_denoms: vec![], supported_quote_denoms: vec!["usd".into()],
        approvers: vec!["approver".into()], executors: vec!["exec".into()], ask_fee_rate: None, ask_fee_account: None, bid_fee_rate: Some("0.01".into()), bid_fee_account: Some("feeacct".into()),
        ask_required_attributes: vec![], bid_required_attributes: vec![], price_precision: Uint128::new(0), size_increment: Uint128::new(1) }).unwrap();
    // bid 1 @ 100 -> total 100, fee 1; ask 1 @ 1; execute at ask price 1: actual gross 1
    execute(deps.as_mut(), mock_env(), mock_info("seller", &coins(1, "base")), ExecuteMsg::CreateAsk { id: aid.clone(), base: "base".into(), quote: "usd".into(), price: "1".into(), size: Uint128::new(1) }).unwrap();
    execute(deps.as_mut(), mock_env(), mock_info("buyer", &coins(101, "usd")), ExecuteMsg::CreateBid { id: bid.clone(), base: "base".into(), fee: Some(coin(1, "usd")), price: "100".into(), quote: "usd".into(), quote_size: Uint128::new(100), size: Uint128::new(1) }).unwrap();
    let r = execute(deps.as_mut(), mock_env(), mock_info("exec", &[]), ExecuteMsg::ExecuteMatch { ask_id: aid.clone(), bid_id: bid.clone(), price: "1".into(), size: Uint128::new(1) }).unwrap();
    for m in &r.messages { println!("D2 msg: {:?}", m.msg); }
    println!("D2 attrs: {:?}", r.attributes.iter().map(|a| format!("{}={}", a.key, a.value)).collect::<Vec<_>>());
    println!("D2 bid still on book: {:?}", execute(deps.as_mut(), mock_env(), mock_info("buyer", &[]), ExecuteMsg::CancelBid { id: bid.clone() }).is_ok());
}
