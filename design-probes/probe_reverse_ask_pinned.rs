#![allow(unused_imports, dead_code, unused_variables, unused_mut)]
use vstd::prelude::*;
use vstd::std_specs::cmp::*;
use vstd::std_specs::ops::*;
use vstd::std_specs::convert::*;
verus! {

pub assume_specification<T: Clone> [ <T as ToOwned>::to_owned ] (s: &T) -> (r: T)
    ensures cloned(*s, r);
pub assume_specification [ String::as_bytes ] (s: &String) -> (r: &[u8])
    ensures r@ == str_bytes(s@);
pub assume_specification<T: PartialEq> [ <[T]>::contains ] (s: &[T], x: &T) -> (r: bool)
    ensures T::obeys_eq_spec() ==> r == (exists|i: int| 0 <= i < s@.len() && #[trigger] s@[i].eq_spec(x));
pub uninterp spec fn str_bytes(s: Seq<char>) -> Seq<u8>;

// ---------- Uint128 ----------
#[derive(Clone, Copy)]
pub struct Uint128 { pub v: u128 }
impl PartialEqSpecImpl for Uint128 {
    open spec fn obeys_eq_spec() -> bool { true }
    open spec fn eq_spec(&self, other: &Uint128) -> bool { self.v == other.v }
}
impl PartialEq for Uint128 { fn eq(&self, other: &Uint128) -> (r: bool) { self.v == other.v } }
impl Uint128 {
    pub fn u128(&self) -> (r: u128) ensures r == self.v { self.v }
    pub fn is_zero(&self) -> (r: bool) ensures r == (self.v == 0) { self.v == 0 }
    pub fn new(v: u128) -> (r: Uint128) ensures r.v == v { Uint128 { v } }
    pub fn zero() -> (r: Uint128) ensures r.v == 0 { Uint128 { v: 0 } }
    #[verifier::external_body]
    pub fn checked_sub(self, o: Uint128) -> (r: Result<Uint128, OverflowError>)
        ensures self.v >= o.v ==> r == Ok::<Uint128,OverflowError>(Uint128{v: (self.v - o.v) as u128}), self.v < o.v ==> r is Err
    { unimplemented!() }
}
impl FromSpecImpl<Uint128> for u128 {
    open spec fn obeys_from_spec() -> bool { true }
    open spec fn from_spec(x: Uint128) -> u128 { x.v }
}
impl From<Uint128> for u128 { fn from(x: Uint128) -> (r: u128) { x.v } }
pub struct OverflowError {}
pub struct StdError {}

// ---------- Addr / Coin ----------
pub struct Addr { pub s: String }
impl Clone for Addr { fn clone(&self) -> (r: Addr) ensures r.s@ == self.s@ { Addr { s: self.s.clone() } } }
impl PartialEqSpecImpl for Addr {
    open spec fn obeys_eq_spec() -> bool { true }
    open spec fn eq_spec(&self, other: &Addr) -> bool { self.s@ == other.s@ }
}
impl PartialEq for Addr { fn eq(&self, other: &Addr) -> (r: bool) { self.s == other.s } }

pub struct Coin { pub denom: String, pub amount: Uint128 }
impl Clone for Coin { fn clone(&self) -> (r: Coin) ensures r.denom@ == self.denom@, r.amount == self.amount { Coin { denom: self.denom.clone(), amount: self.amount } } }

// ---------- orders ----------
pub enum AskOrderStatus { PendingIssuerApproval, Ready { approver: Addr, converted_base: Coin } }
pub enum AskOrderClass { Basic, Convertible { status: AskOrderStatus } }
pub struct AskOrderV1 { pub id: String, pub owner: Addr, pub class: AskOrderClass, pub base: String, pub quote: String, pub price: String, pub size: Uint128 }

impl Clone for AskOrderStatus { #[verifier::external_body] fn clone(&self) -> (r: Self) ensures r == *self { unimplemented!() } }
impl Clone for AskOrderClass { #[verifier::external_body] fn clone(&self) -> (r: Self) ensures r == *self { unimplemented!() } }

pub enum ContractAction { ExpireAsk, RejectAsk }
impl ContractAction { #[verifier::external_body] pub fn to_string(&self) -> (r: String) { unimplemented!() } }

pub enum ContractError { Unauthorized, ExpireWithFunds, InvalidFields { fields: Vec<String> }, LoadOrderFailed { error: StdError }, Std(StdError) }
impl FromSpecImpl<StdError> for ContractError {
    open spec fn obeys_from_spec() -> bool { true }
    open spec fn from_spec(e: StdError) -> ContractError { ContractError::Std(e) }
}
impl From<StdError> for ContractError { fn from(e: StdError) -> (r: ContractError) { ContractError::Std(e) } }

pub struct ContractInfoV3 { pub executors: Vec<Addr>, pub size_increment: Uint128 }

// ---------- storage ----------
pub struct Storage {
    pub asks: Ghost<Map<Seq<u8>, AskOrderV1>>,
    pub info: Ghost<ContractInfoV3>,
}
pub struct AskMap {}
pub const ASKS_V1: AskMap = AskMap {};
impl AskMap {
    #[verifier::external_body]
    pub fn load(&self, store: &Storage, k: &[u8]) -> (r: Result<AskOrderV1, StdError>)
        ensures store.asks@.dom().contains(k@) ==> r == Ok::<AskOrderV1,StdError>(store.asks@[k@]),
                !store.asks@.dom().contains(k@) ==> r is Err
    { unimplemented!() }
    #[verifier::external_body]
    pub fn save(&self, store: &mut Storage, k: &[u8], o: &AskOrderV1) -> (r: Result<(), StdError>)
        ensures r is Ok ==> final(store).asks@ == old(store).asks@.insert(k@, *o) && final(store).info == old(store).info,
                r is Err ==> *final(store) == *old(store)
    { unimplemented!() }
    #[verifier::external_body]
    pub fn remove(&self, store: &mut Storage, k: &[u8])
        ensures final(store).asks@ == old(store).asks@.remove(k@), final(store).info == old(store).info
    { unimplemented!() }
}
#[verifier::external_body]
pub fn get_contract_info(store: &Storage) -> (r: Result<ContractInfoV3, ContractError>)
    ensures r is Ok ==> r->Ok_0 == store.info@
{ unimplemented!() }

pub struct Querier {}
pub struct DepsMut<'a> { pub storage: &'a mut Storage, pub querier: Querier }
pub struct ContractInfoEnv { pub address: Addr }
pub struct Env { pub contract: ContractInfoEnv }
pub struct MessageInfo { pub sender: Addr, pub funds: Vec<Coin> }

pub uninterp spec fn restricted(denom: Seq<char>) -> bool;
#[verifier::external_body]
pub fn is_restricted_marker(q: &Querier, denom: String) -> (r: bool) ensures r == restricted(denom@) { unimplemented!() }

// ---------- response ----------
pub enum Msg { Bank { to: Seq<char>, denom: Seq<char>, amount: u128 }, Marker { from: Seq<char>, to: Seq<char>, admin: Seq<char>, denom: Seq<char>, amount: u128 } }
pub struct Attribute { pub k: String, pub v: String }
pub struct Response { pub msgs: Ghost<Seq<Msg>>, pub attrs: Ghost<Seq<(Seq<char>, Seq<char>)>> }
impl Response {
    pub fn new() -> (r: Response) ensures r.msgs@.len() == 0, r.attrs@.len() == 0 { Response { msgs: Ghost(Seq::empty()), attrs: Ghost(Seq::empty()) } }
    #[verifier::external_body]
    pub fn add_attributes(self, a: Vec<Attribute>) -> (r: Response)
        ensures r.msgs == self.msgs
    { unimplemented!() }
}
pub trait IntoStr { fn into_str(self) -> String; }
impl IntoStr for &str { #[verifier::external_body] fn into_str(self) -> String { unimplemented!() } }
impl IntoStr for String { fn into_str(self) -> String { self } }
impl IntoStr for &String { fn into_str(self) -> String { self.clone() } }
impl IntoStr for Uint128 { #[verifier::external_body] fn into_str(self) -> String { unimplemented!() } }
pub fn attr<K: IntoStr, V: IntoStr>(k: K, v: V) -> Attribute { Attribute { k: k.into_str(), v: v.into_str() } }

#[verifier::external_body]
pub fn add_transfer(response: Response, is_restricted: bool, amount: u128, denom: String, to: Addr, from: Addr, contract_address: Addr) -> (r: Response)
    ensures r.attrs == response.attrs,
        r.msgs@ == response.msgs@.push(if is_restricted { Msg::Marker { from: from.s@, to: to.s@, admin: contract_address.s@, denom: denom@, amount } } else { Msg::Bank { to: to.s@, denom: denom@, amount } })
{ unimplemented!() }

pub open spec fn ask_wf(a: AskOrderV1) -> bool {
    &&& a.size.v > 0
    &&& (match a.class { AskOrderClass::Convertible { status: AskOrderStatus::Ready { approver, converted_base } } => converted_base.amount.v == a.size.v, _ => true })
}
// ================= VERBATIM from /repo/src/contract.rs =================
fn reverse_ask(
    deps: DepsMut,
    env: Env,
    info: MessageInfo,
    id: String,
    action: ContractAction,
    cancel_size: Option<Uint128>,
) -> (r: Result<Response, ContractError>)
    requires
        old(deps.storage).info@.size_increment.v >= 1,
        forall|k: Seq<u8>| #[trigger] old(deps.storage).asks@.dom().contains(k) ==> ask_wf(old(deps.storage).asks@[k]) && str_bytes(old(deps.storage).asks@[k].id@) == k,
    ensures
        r is Err ==> *final(deps.storage) == *old(deps.storage),
        r is Ok ==> ({
            let k = str_bytes(id@);
            let a = old(deps.storage).asks@[k];
            let c: u128 = match cancel_size { None => a.size.v, Some(cs) => cs.v };
            &&& old(deps.storage).asks@.dom().contains(k)
            &&& c <= a.size.v
            &&& (a.size.v == c ==> final(deps.storage).asks@ =~= old(deps.storage).asks@.remove(k))
            &&& (a.size.v != c ==> final(deps.storage).asks@.dom() =~= old(deps.storage).asks@.dom().insert(k))
            &&& (a.size.v != c ==> ask_wf(final(deps.storage).asks@[k]))
        }),
{
    // return error if id is empty
    if id.is_empty() {
        return Err(ContractError::Unauthorized);
    }

    // return error if funds sent
    if !info.funds.is_empty() {
        return Err(ContractError::ExpireWithFunds);
    }

    let contract_info = get_contract_info(deps.storage)?;

    if !contract_info.executors.contains(&info.sender) {
        return Err(ContractError::Unauthorized);
    }

    // retrieve the order
    let mut ask_order = ASKS_V1
        .load(deps.storage, id.as_bytes())
        .map_err(|error| ContractError::LoadOrderFailed { error })?;

    // determine the effective cancel size
    let effective_cancel_size = match cancel_size {
        None => ask_order.size,
        Some(cancel_size) => cancel_size,
    };

    // error if cancel size is not multiple of size_increment
    if (effective_cancel_size.u128() % contract_info.size_increment.u128()).ne(&0) {
        return Err(ContractError::InvalidFields {
            fields: vec![String::from("size")],
        });
    }

    // subtract the cancel size from the order size
    ask_order.size = ask_order
        .size
        .checked_sub(effective_cancel_size)
        .map_err(|_e| ContractError::InvalidFields {
            fields: vec![String::from("size")],
        })?;

    // is ask base a marker
    let is_base_restricted_marker = is_restricted_marker(&deps.querier, ask_order.base.clone());

    let mut response = Response::new();

    // return 'base' to owner, return converted_base to issuer if applicable
    response = add_transfer(
        response,
        is_base_restricted_marker,
        effective_cancel_size.into(),
        ask_order.base.to_owned(),
        ask_order.owner.to_owned(),
        env.contract.address.to_owned(),
        env.contract.address.to_owned(),
    );

    response = response.add_attributes(vec![
        attr("action", action.to_string()),
        attr("id", id),
        attr("reverse_size", effective_cancel_size),
    ]);

    if let AskOrderClass::Convertible {
        status: AskOrderStatus::Ready {
            approver,
            converted_base,
        },
    } = ask_order.class.to_owned()
    {
        // is convertible a marker
        let is_convertible_restricted_marker =
            is_restricted_marker(&deps.querier, converted_base.denom.clone());

        response = add_transfer(
            response,
            is_convertible_restricted_marker,
            effective_cancel_size.into(),
            converted_base.denom,
            approver,
            env.contract.address.to_owned(),
            env.contract.address,
        );
    }

    // remove the ask order from storage if remaining size is 0, otherwise, store updated order
    if ask_order.size.is_zero() {
        ASKS_V1.remove(deps.storage, ask_order.id.as_bytes());
        response = response.add_attributes(vec![attr("order_open", "false")]);
    } else {
        ASKS_V1.save(deps.storage, ask_order.id.as_bytes(), &ask_order)?;
        response = response.add_attributes(vec![attr("order_open", "true")]);
    }

    Ok(response)
}

}
fn main() {}
