use ats_smart_contract::contract::{execute, instantiate};
use ats_smart_contract::msg::{ExecuteMsg, InstantiateMsg};
use cosmwasm_std::testing::{mock_env, mock_info};
use cosmwasm_std::{coins, to_binary, ContractResult, SystemResult, Uint128};
use prost::Message;
use provwasm_common::MockableQuerier;
use provwasm_mocks::mock_provenance_dependencies;
use provwasm_std::shim::Any;
use provwasm_std::types::cosmos::auth::v1beta1::BaseAccount;
use provwasm_std::types::provenance::marker::v1::{MarkerAccount, MarkerStatus, MarkerType, QueryMarkerRequest, QueryMarkerResponse};

fn marker(denom: &str, t: MarkerType) -> QueryMarkerResponse {
    let m = MarkerAccount { base_account: Some(BaseAccount { address: format!("marker_{denom}"), pub_key: None, account_number: 1, sequence: 0 }),
        manager: "".into(), access_control: vec![], status: MarkerStatus::Active.into(), denom: denom.into(), supply: "1000".into(),
        marker_type: t.into(), supply_fixed: false, allow_governance_control: true, allow_forced_transfer: false, required_attributes: vec![] };
    QueryMarkerResponse { marker: Some(Any { type_url: "/provenance.marker.v1.MarkerAccount".into(), value: m.encode_to_vec() }) }
}
fn main() {
    // D4: convertible denom "con" is a RESTRICTED marker, contract base "base" is an ordinary coin.
    let mut deps = mock_provenance_dependencies();
    deps.querier.register_custom_query("/provenance.marker.v1.Query/Marker".to_string(), Box::new(|data| {
        let req = QueryMarkerRequest::decode(data.as_slice()).unwrap();
        let resp = if req.id == "con" { marker("con", MarkerType::Restricted) } else { QueryMarkerResponse { marker: None } };
        SystemResult::Ok(ContractResult::Ok(to_binary(&resp).unwrap()))
    }));
    instantiate(deps.as_mut(), mock_env(), mock_info("admin", &[]), InstantiateMsg {
        name: "n".into(), base_denom: "base".into(), convertible_base_denoms: vec!["con".into()], supported_quote_denoms: vec!["usd".into()],
        approvers: vec!["approver".into()], executors: vec!["exec".into()], ask_fee_rate: None, ask_fee_account: None, bid_fee_rate: None, bid_fee_account: None,
        ask_required_attributes: vec![], bid_required_attributes: vec![], price_precision: Uint128::new(0), size_increment: Uint128::new(1) }).unwrap();
    let aid = "ab5f5a62-f6fc-46d1-aa84-51ccc51ec367".to_string();
    let bid = "c13f8888-ca43-4a64-ab1b-1ca8d60aa49b".to_string();
    let r = execute(deps.as_mut(), mock_env(), mock_info("seller", &[]), ExecuteMsg::CreateAsk { id: aid.clone(), base: "con".into(), quote: "usd".into(), price: "2".into(), size: Uint128::new(10) }).unwrap();
    println!("D4 create_ask msgs: {:?}", r.messages.iter().map(|m| format!("{:?}", m.msg)).collect::<Vec<_>>());
    let r = execute(deps.as_mut(), mock_env(), mock_info("approver", &coins(10, "base")), ExecuteMsg::ApproveAsk { id: aid.clone(), base: "base".into(), size: Uint128::new(10) }).unwrap();
    println!("D4 approve msgs: {}", r.messages.len());
    execute(deps.as_mut(), mock_env(), mock_info("buyer", &coins(20, "usd")), ExecuteMsg::CreateBid { id: bid.clone(), base: "base".into(), fee: None, price: "2".into(), quote: "usd".into(), quote_size: Uint128::new(20), size: Uint128::new(10) }).unwrap();
    let r = execute(deps.as_mut(), mock_env(), mock_info("exec", &[]), ExecuteMsg::ExecuteMatch { ask_id: aid.clone(), bid_id: bid.clone(), price: "2".into(), size: Uint128::new(10) }).unwrap();
    for m in &r.messages { println!("D4 match msg: {:?}", m.msg); }
}
