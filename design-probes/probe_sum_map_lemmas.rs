use vstd::prelude::*;
verus! {
pub open spec fn sum_map<K>(m: Map<K, int>) -> int
    decreases m.dom().len() when m.dom().finite()
{
    if m.dom().len() == 0 { 0 } else { let k = m.dom().choose(); m[k] + sum_map(m.remove(k)) }
}

pub proof fn lemma_sum_remove<K>(m: Map<K, int>, k: K)
    requires m.dom().finite(), m.dom().contains(k)
    ensures sum_map(m) == m[k] + sum_map(m.remove(k))
    decreases m.dom().len()
{
    assert(m.dom().len() > 0) by { if m.dom().len() == 0 { m.dom().lemma_len0_is_empty(); } };
    let c = m.dom().choose();
    if c == k {
    } else {
        assert(m.dom().contains(c));
        let mc = m.remove(c);
        let mk = m.remove(k);
        assert(mc.dom().contains(k));
        assert(mk.dom().contains(c));
        lemma_sum_remove(mc, k);
        lemma_sum_remove(mk, c);
        assert(mc.remove(k) =~= mk.remove(c));
    }
}

pub proof fn lemma_sum_insert<K>(m: Map<K, int>, k: K, v: int)
    requires m.dom().finite()
    ensures sum_map(m.insert(k, v)) == sum_map(m) - (if m.dom().contains(k) { m[k] } else { 0 }) + v
{
    let mi = m.insert(k, v);
    lemma_sum_remove(mi, k);
    if m.dom().contains(k) {
        lemma_sum_remove(m, k);
        assert(mi.remove(k) =~= m.remove(k));
    } else {
        assert(mi.remove(k) =~= m);
    }
}
}
fn main() {}
