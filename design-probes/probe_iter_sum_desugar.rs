use vstd::prelude::*;
use vstd::std_specs::ops::*;
verus! {
#[derive(Clone, Copy)]
pub struct Uint128 { pub v: u128 }
impl Uint128 { pub fn zero() -> (r: Uint128) ensures r.v == 0 { Uint128 { v: 0 } } }
impl AddSpecImpl<Uint128> for Uint128 {
    open spec fn obeys_add_spec() -> bool { false }
    open spec fn add_req(self, rhs: Uint128) -> bool { true }
    open spec fn add_spec(self, rhs: Uint128) -> Uint128 { arbitrary() }
}
impl core::ops::Add for Uint128 {
    type Output = Uint128;
    #[verifier::external_body]
    fn add(self, rhs: Uint128) -> (r: Uint128) ensures self.v + rhs.v <= u128::MAX, r.v == self.v + rhs.v { unimplemented!() }
}
pub struct Coin { pub denom: String, pub amount: Uint128 }
pub enum Action {
    Fill { base: Coin, fee: Option<Coin>, price: String, quote: Coin },
    Refund { fee: Option<Coin>, quote: Coin },
    Reject { base: Coin, fee: Option<Coin>, quote: Coin },
}
pub struct Event { pub action: Action }
pub struct BidOrderV2 { pub events: Vec<Event> }

pub open spec fn base_of(e: Event) -> int {
    match e.action { Action::Fill { base, .. } => base.amount.v as int, Action::Reject { base, .. } => base.amount.v as int, _ => 0 }
}
pub open spec fn sum_base_spec(s: Seq<Event>) -> int decreases s.len() {
    if s.len() == 0 { 0 } else { sum_base_spec(s.drop_last()) + base_of(s.last()) }
}

impl BidOrderV2 {
    // desugared form of: self.events.iter().map(|event| BODY).sum::<Uint128>()
    fn sum_base(&self) -> (r: Uint128)
        ensures r.v == sum_base_spec(self.events@)
    {
        let mut acc = Uint128::zero();
        for event in it: self.events.iter()
            invariant acc.v == sum_base_spec(self.events@.take(it.index@ as int)),
        {
            proof { 
                assert(self.events@.take(it.index@ + 1).drop_last() =~= self.events@.take(it.index@ as int));
            }
            acc = acc + (match &event.action {
                Action::Fill { base, .. } => base.amount,
                Action::Reject { base, .. } => base.amount,
                _ => Uint128::zero(),
            });
        }
        proof { assert(self.events@.take(self.events@.len() as int) =~= self.events@); }
        acc
    }
}
}
fn main() {}
